// Demonstration for the checksum-coverage defect repaired by /repo 301e6d4 (place under crates/libs/sciparse/tests/).
// Fails on the parent commit (stored 60339 vs reference 19994 for payload "hello world"), passes on 301e6d4.
use sciparse::{
    address::socket_addr::ScionSocketAddr, core::encode::WireEncode, dataplane_path::model::DpPath,
    packet::model::ScionUdpPacket,
};

fn encode(payload: &[u8]) -> Vec<u8> {
    let src: ScionSocketAddr = "[1-ff00:0:110,10.0.0.1]:1000".parse().unwrap();
    let dst: ScionSocketAddr = "[1-ff00:0:111,10.0.0.2]:2000".parse().unwrap();
    ScionUdpPacket::new(src, dst, DpPath::Empty, payload.to_vec())
        .try_encode_to_vec()
        .unwrap()
}

/// Reference: RFC 1071 ones-complement sum over pseudo-header || upper-layer packet (checksum field zero).
fn reference(packet: &[u8]) -> u16 {
    // common header 12 bytes, address header: 2 x 8 byte IA + 2 x 4 byte IPv4 host
    let hdr_len = packet[5] as usize * 4;
    let addr = &packet[12..12 + 24];
    let mut udp = packet[hdr_len..].to_vec();
    udp[6] = 0;
    udp[7] = 0;
    let mut data = Vec::new();
    data.extend_from_slice(addr);
    data.extend_from_slice(&(udp.len() as u32).to_be_bytes());
    data.extend_from_slice(&17u32.to_be_bytes());
    data.extend_from_slice(&udp);
    if data.len() % 2 == 1 {
        data.push(0);
    }
    let mut sum = 0u32;
    for c in data.chunks(2) {
        sum += u16::from_be_bytes([c[0], c[1]]) as u32;
    }
    while sum > 0xffff {
        sum = (sum >> 16) + (sum & 0xffff);
    }
    !(sum as u16)
}

#[test]
fn udp_checksum_verifies_over_pseudo_header_and_datagram() {
    for payload in [&b"hello world"[..], &b"HELLO WORLD"[..], &[0xffu8; 33][..]] {
        let packet = encode(payload);
        let hdr_len = packet[5] as usize * 4;
        let stored = u16::from_be_bytes([packet[hdr_len + 6], packet[hdr_len + 7]]);
        assert_eq!(stored, reference(&packet), "checksum of payload {payload:?}");
    }
}
