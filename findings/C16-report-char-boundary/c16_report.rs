use sciparse::path::policy::hop_pattern::HopPatternPolicy;

#[test]
fn report_does_not_panic_on_multibyte_input() {
    let input = "€ €€€€€€€€€€";
    let err = HopPatternPolicy::parse(input).expect_err("not a hop predicate");
    let text = err.report(input);
    assert!(text.contains('^'));
}
