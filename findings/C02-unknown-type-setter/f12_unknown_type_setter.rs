// Demonstration for the C02 defect repaired by /repo 8f07ce4 (place under crates/libs/sciparse/tests/ on the parent commit).
// Safe-code sequence: retype an 8-byte unknown SCMP message as TracerouteReply through the SAFE
// ScmpUnknownMessageView::set_message_type, then read a field that lies beyond the 8 validated bytes.
// Parent commit: debug build panics in core/read.rs:71 (debug_assert of unchecked_bit_range_be_read), release reads out of bounds.
// After the fix the file no longer compiles without an `unsafe` block around set_message_type — which is the repair.
use sciparse::{
    core::view::View,
    payload::scmp::view::{ScmpMessageView, ScmpMessageViewMut, ScmpPayloadView},
};

#[test]
fn safe_code_cannot_read_past_the_view() {
    let mut backing = vec![0u8; 24];
    backing[0] = 100;
    for b in &mut backing[8..] {
        *b = 0xAB;
    }
    let (head, _tail) = backing.split_at_mut(8);
    let (view, rest) = ScmpPayloadView::try_from_mut_slice(head).expect("8 bytes are a valid unknown SCMP message");
    assert!(rest.is_empty());
    assert_eq!(view.as_slice().len(), 8);
    match view.message_mut() {
        ScmpMessageViewMut::Unknown(u) => u.set_message_type(131), // safe fn before the fix
        _ => panic!("type 100 must be unknown"),
    }
    match view.message() {
        ScmpMessageView::TracerouteReply(t) => {
            let leaked = t.interface_id(); // bytes 16..24 of an 8-byte view
            panic!("safe accessor read {leaked:#x} from outside the 8-byte view");
        }
        _ => {}
    }
}
