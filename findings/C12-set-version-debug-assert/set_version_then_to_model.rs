// Demonstration for the C12 known finding (dev configuration): a safe setter followed by a safe conversion panics.
// Put under crates/libs/sciparse/tests/ and run `cargo test -p sciparse --offline --test set_version_then_to_model`
// (debug build: panics with "Unsupported SCION version"; release build: converts silently).
use sciparse::{
    core::{convert::FromView, view::View},
    header::model::CommonHeader,
    packet::view::ScionRawPacketView,
};

fn empty_path_ipv4_packet() -> Vec<u8> {
    let mut b = vec![0u8; 36];
    b[4] = 17; // next header: UDP
    b[5] = 9; // header length: 36 / 4
    // payload length 0, path type 0 (Empty), DT/DL/ST/SL 0 (IPv4, 4 bytes)
    b[12 + 1] = 1; // dst ISD 1 ... any ISD-AS will do
    b[12 + 7] = 1;
    b[12 + 9] = 1;
    b[12 + 15] = 2;
    b[28..32].copy_from_slice(&[10, 0, 0, 1]);
    b[32..36].copy_from_slice(&[10, 0, 0, 2]);
    b
}

#[test]
fn safe_setter_then_safe_conversion_must_not_panic() {
    let mut buf = empty_path_ipv4_packet();
    let (view, _) = ScionRawPacketView::try_from_mut_slice(&mut buf).expect("well-formed packet");
    view.header_mut().set_version(1); // safe fn
    let r = std::panic::catch_unwind(std::panic::AssertUnwindSafe(|| CommonHeader::from_view(view.header())));
    assert!(r.is_ok(), "CommonHeader::from_view panicked after the safe call set_version(1)");
}
