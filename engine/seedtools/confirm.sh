#!/bin/bash
# confirm.sh <outdir> : for every /tmp/seed/out/<ID>/patch<k>.diff confirm, in a scratch worktree of /repo HEAD,
#  (1) demo passes without the patch, (2) existing tests of the touched crates pass with the patch,
#  (3) demo fails with the patch.   Writes <outdir>/<ID>-<k>.confirm (one line per step).
set -u
OUT=${1:-/tmp/seed/confirm}; mkdir -p "$OUT"
WT=/tmp/seed/wt; TGT=/tmp/seed/wt-target
export CARGO_NET_OFFLINE=true CARGO_TARGET_DIR=$TGT
git -C /repo worktree remove --force $WT 2>/dev/null; git -C /repo worktree add -q --detach $WT HEAD || exit 1
only=${2:-}
for d in ${SEED_SRC:-/tmp/seed/out}/*/; do
  id=$(basename $d)
  for k in 1 2; do
    [ -f $d/patch$k.diff ] || continue
    [ -n "$only" ] && [ "$only" != "$id-$k" ] && continue
    log=$OUT/$id-$k.log; res=$OUT/$id-$k.confirm
    if [ -f $res ] && grep -q "existing-tests-with-patch-exit" $res; then continue; fi
    : > $log; : > $res
    cd $WT && git checkout -q -- . && git clean -fdq
    if ! git apply --check $d/patch$k.diff 2>>$log; then echo "patch-applies=NO" >> $res; continue; fi
    echo "patch-applies=yes" >> $res
    demo=$(python3 -c "import json;print(json.load(open('$d/meta$k.json'))['demo_cmd'])" | sed -E 's/CARGO_TARGET_DIR=[^ ]+ //; s/-j 6/-j 12/')
    crates=$(python3 - "$d/meta$k.json" <<'PY'
import json,sys,re
m=json.load(open(sys.argv[1])); c=set()
for f in m.get('files_touched',[]):
    mm=re.match(r'crates/(?:libs/|snap/)?([^/]+)/',f)
    if mm: c.add(mm.group(1))
print(' '.join('-p '+x for x in sorted(c)))
PY
)
    # (1) demo on clean tree
    git apply $d/demo$k.diff 2>>$log || { echo "demo-applies=NO" >> $res; continue; }
    ( eval "timeout 3000 env $demo" ) >>$log 2>&1; echo "demo-without-patch-exit=$?" >> $res
    # (2)+(3) with patch
    git apply $d/patch$k.diff 2>>$log
    ( eval "timeout 3000 env $demo" ) >>$log 2>&1; echo "demo-with-patch-exit=$?" >> $res
    git apply -R $d/demo$k.diff 2>>$log; git clean -fdq
    ( timeout 6000 cargo test $crates --offline -j 12 --no-fail-fast -- --skip cache_miss_triggers_fetch --skip unknown_kid_rejected --skip kid_resolved_via_jwks_succeeds ) >>$log 2>&1; echo "existing-tests-with-patch-exit=$? ($crates)" >> $res
    grep -E "^test result|FAILED|failed" $log | tail -40 > $OUT/$id-$k.summary
  done
done
cd /; git -C /repo worktree remove --force $WT; rm -rf $TGT
echo ALLDONE > $OUT/DONE
