#!/bin/bash
# runseeds.sh <seeddir> [ID-k ...] : apply each seeded patch to a scratch copy of /repo and run the check(s) of its property
SD=${1:-/tmp/seed/out}; shift
S=/var/tmp/mut/repo; mkdir -p $S
for d in $SD/*/; do
  id=$(basename $d)
  for k in 1 2 3; do
    [ -f $d/patch$k.diff ] || continue
    if [ $# -gt 0 ]; then case " $* " in *" $id-$k "*) ;; *) continue;; esac; fi
    rsync -a --delete --exclude target --exclude .git /repo/ $S/
    if ! (cd $S && git apply --check $d/patch$k.diff 2>/dev/null || patch -p1 --dry-run -s < $d/patch$k.diff >/dev/null 2>&1); then echo "== $id-$k: patch does not apply"; continue; fi
    (cd $S && patch -p1 -s < $d/patch$k.diff)
    echo "== $id-$k"
    for chk in $id ${EXTRA_CHECKS:-}; do
      [ -f /verif/engine/rules/$(echo $chk | tr A-Z a-z).py ] || { echo "   (no check module for $chk)"; continue; }
      SCIFACTS_REPO=$S /verif/check $chk 2>&1 | grep -v "^VIOLATION\|^WARNING\|^\[extract\]" | cut -c1-420 | tail -6 | sed 's/^/   /'
    done
  done
done
