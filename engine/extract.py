#!/usr/bin/env python3
"""Fact extraction: runs the scifacts driver over /repo's current working tree.

The result is cached by a content hash of the tree (+ driver + configuration),
so that the per-property checks on one tree share one extraction, and any edit
under /repo forces a fresh one.  Fails closed: a required crate whose fact file
is missing or carries another tree hash aborts the check.
"""
import fcntl
import glob
import hashlib
import json
import os
import shutil
import subprocess
import sys
import time

VERIF = os.path.dirname(os.path.dirname(os.path.abspath(__file__)))
REPO = os.environ.get("SCIFACTS_REPO", "/repo")
CACHE = os.environ.get("SCIFACTS_CACHE", os.path.join(VERIF, ".cache"))
DRIVER_DIR = os.path.join(VERIF, "engine", "driver")
DRIVER = os.path.join(DRIVER_DIR, "target", "release", "scifacts")

# (package name, crate name) analysed; lib targets, default features.
PACKAGES = [
    "sciparse",
    "scion-sdk-utils",
    "scion-stack",
    "snap-tun",
    "snap-tokens",
    "scion-sdk-token-validator",
    "snap-control",
    "snap-dataplane",
    "anapaya-edge-tun",
    "pocketscion",
    "scion-protobuf",
]
REQUIRED_CRATES = [p.replace("-", "_") for p in PACKAGES]

HASH_SUFFIXES = (".rs", ".toml", ".lock", ".proto")
SKIP_DIRS = {"target", ".git", "node_modules", ".direnv"}


def nightly_sysroot():
    return subprocess.check_output(
        ["rustc", "+nightly", "--print", "sysroot"], text=True
    ).strip()


def build_driver():
    env = dict(os.environ)
    env["CARGO_NET_OFFLINE"] = "true"
    r = subprocess.run(
        ["cargo", "build", "--release", "--offline"],
        cwd=DRIVER_DIR, env=env, stdout=subprocess.PIPE, stderr=subprocess.STDOUT, text=True,
    )
    if r.returncode != 0:
        sys.stderr.write(r.stdout)
        raise SystemExit("scifacts driver failed to build")


def file_sha(path):
    h = hashlib.sha256()
    with open(path, "rb") as f:
        while True:
            b = f.read(1 << 20)
            if not b:
                break
            h.update(b)
    return h.hexdigest()


def tree_hash(repo=None):
    repo = repo or REPO
    entries = []
    for root, dirs, files in os.walk(repo):
        dirs[:] = sorted(d for d in dirs if d not in SKIP_DIRS)
        for fn in sorted(files):
            if fn.endswith(HASH_SUFFIXES):
                p = os.path.join(root, fn)
                if os.path.islink(p) and not os.path.exists(p):
                    continue
                entries.append((os.path.relpath(p, repo), file_sha(p)))
    h = hashlib.sha256()
    for rel, sha in entries:
        h.update(rel.encode())
        h.update(b"\0")
        h.update(sha.encode())
        h.update(b"\n")
    if os.path.exists(DRIVER):
        h.update(file_sha(DRIVER).encode())
    return h.hexdigest()[:20], len(entries)


def workspace_members(repo):
    env = dict(os.environ)
    env["CARGO_NET_OFFLINE"] = "true"
    out = subprocess.check_output(
        ["cargo", "+nightly", "metadata", "--no-deps", "--offline", "--format-version", "1"],
        cwd=repo, env=env, text=True,
    )
    md = json.loads(out)
    return [p["name"] for p in md["packages"]]


def facts_dir(tree, cfg):
    return os.path.join(CACHE, "facts", "%s-%s" % (tree, cfg))


def complete(d, tree, cfg):
    ok = os.path.join(d, "OK")
    if not os.path.exists(ok):
        return False
    for c in REQUIRED_CRATES:
        if not os.path.exists(os.path.join(d, c + ".json")):
            return False
    return True


def prune(keep=12):
    base = os.path.join(CACHE, "facts")
    ds = [os.path.join(base, x) for x in os.listdir(base)] if os.path.isdir(base) else []
    ds = [d for d in ds if os.path.isdir(d)]
    ds.sort(key=lambda d: os.path.getmtime(d), reverse=True)
    for d in ds[keep:]:
        shutil.rmtree(d, ignore_errors=True)


def extract(cfg="release", repo=None, target=None, quiet=False, features=None):
    """Returns (facts directory, tree hash, seconds, cached?)."""
    repo = repo or REPO
    os.makedirs(os.path.join(CACHE, "facts"), exist_ok=True)
    if not os.path.exists(DRIVER):
        build_driver()
    lock_path = os.path.join(CACHE, "extract.lock")
    t0 = time.time()
    with open(lock_path, "w") as lk:
        fcntl.flock(lk, fcntl.LOCK_EX)
        tree, nfiles = tree_hash(repo)
        d = facts_dir(tree, cfg)
        if complete(d, tree, cfg):
            os.utime(d, None)
            return d, tree, time.time() - t0, True
        shutil.rmtree(d, ignore_errors=True)
        os.makedirs(d)
        target = target or os.path.join(CACHE, "target")
        # cargo's freshness cache would silently skip the wrapper: remove the
        # fingerprints of every workspace member first.
        fp = os.path.join(target, "debug", ".fingerprint")
        if os.path.isdir(fp):
            for m in workspace_members(repo):
                for x in glob.glob(os.path.join(fp, m + "-*")):
                    shutil.rmtree(x, ignore_errors=True)
        env = dict(os.environ)
        env["CARGO_NET_OFFLINE"] = "true"
        env["LD_LIBRARY_PATH"] = nightly_sysroot() + "/lib" + (
            ":" + env["LD_LIBRARY_PATH"] if env.get("LD_LIBRARY_PATH") else "")
        env["RUSTC_WORKSPACE_WRAPPER"] = DRIVER
        env["CARGO_TARGET_DIR"] = target
        env["SCIFACTS_OUT"] = d
        env["SCIFACTS_CFG"] = cfg
        env["SCIFACTS_TREE"] = tree
        env.pop("RUSTFLAGS", None)
        env.pop("CARGO_ENCODED_RUSTFLAGS", None)
        cmd = ["cargo", "+nightly", "check", "--offline", "--lib"]
        for p in PACKAGES:
            cmd += ["-p", p]
        if features:
            cmd += features
        r = subprocess.run(cmd, cwd=repo, env=env, stdout=subprocess.PIPE,
                           stderr=subprocess.STDOUT, text=True)
        if r.returncode != 0:
            sys.stderr.write(r.stdout[-6000:])
            shutil.rmtree(d, ignore_errors=True)
            raise SystemExit("extraction failed: /repo does not type-check under the nightly driver")
        missing = []
        for c in REQUIRED_CRATES:
            p = os.path.join(d, c + ".json")
            if not os.path.exists(p):
                missing.append(c)
        if missing:
            shutil.rmtree(d, ignore_errors=True)
            raise SystemExit("extraction incomplete: no fact file for %s (driver skipped?)" % missing)
        with open(os.path.join(d, "OK"), "w") as f:
            json.dump({"tree": tree, "cfg": cfg, "files_hashed": nfiles,
                       "wall_s": round(time.time() - t0, 1)}, f)
        prune()
        if not quiet:
            sys.stderr.write("[extract] %s cfg=%s %.1fs\n" % (tree, cfg, time.time() - t0))
        return d, tree, time.time() - t0, False


if __name__ == "__main__":
    cfg = sys.argv[1] if len(sys.argv) > 1 else "release"
    d, tree, s, cached = extract(cfg)
    print(d, tree, "%.1fs" % s, "cached" if cached else "fresh")
