#!/usr/bin/env python3
"""Regenerates MANIFEST.json from the per-property rule modules (single source of truth)."""
import importlib
import json
import os
import sys

HERE = os.path.dirname(os.path.abspath(__file__))
VERIF = os.path.dirname(HERE)
sys.path.insert(0, HERE)
sys.path.insert(0, os.path.join(HERE, "rules"))

NOT_APPLICABLE = {
    "C01": "End-to-end forwardability is a statement about AES-CMAC values chained over a graph-search result on arbitrary "
           "topologies; no clause is visible in code shape (a wrong SegID/ingress decision is a value, not a missing construct). "
           "MAC-input completeness is decided under C11.",
}

# Rule modules that exist under engine/rules but are deliberately NOT registered as checks: their
# verdicts on the current tree have not been triaged site by site into "genuine defect" versus
# "imprecision of the rule", and an untriaged check is neither allowed to raise an alarm nor to be
# silenced wholesale.  They stay runnable by hand (./check C08) for development.
UNCLAIMED = {}
NOT_BUILT = "not claimed: the static rule planned in DESIGN.md section 5 has not been built; no check is registered rather than a weaker one under this label"

ALL = ["C%02d" % i for i in range(1, 21)]


def main():
    checks = []
    na = []
    for pid in ALL:
        if pid in NOT_APPLICABLE:
            na.append({"property_id": pid, "reason": NOT_APPLICABLE[pid]})
            continue
        if pid in UNCLAIMED:
            na.append({"property_id": pid, "reason": UNCLAIMED[pid]})
            continue
        try:
            mod = importlib.import_module(pid.lower())
        except ModuleNotFoundError:
            na.append({"property_id": pid, "reason": NOT_BUILT})
            continue
        checks.append({
            "property_id": pid,
            "quick_cmd": "./check %s --tier quick" % pid,
            "thorough_cmd": "./check %s --tier thorough" % pid,
            "evidence_file": "evidence/%s.json" % pid,
            "replay_cmd_template": "./check %s --replay {path}" % pid,
            "engine": "scifacts+rules",
            "level_claimed": {
                "category": "other",
                "text": mod.LEVEL_TEXT if hasattr(mod, "LEVEL_TEXT") else mod.EXPLANATION,
                "design_ref": "DESIGN.md section 5 (%s)" % pid,
            },
            "level_note": "Trusted: rustc nightly front end/MIR construction and const evaluation; reviewed tables under engine/tables (entries marked `reviewed` are relied on unchecked and listed in the evidence; entries with `guard` are re-verified on every run); "
                          "std/tinyvec/third-party contracts as listed in the evidence assumptions. Decides the named structural clauses on "
                          "all control-flow paths of the type-checked program, not the runtime behaviour as a whole. "
                          + " Not decided: " + "; ".join(getattr(mod, "RESIDUAL", [])),
            "technique": getattr(mod, "TECHNIQUE", "static analysis on rustc MIR (custom rustc_private fact extractor + repository-specific rules)"),
        })
    man = {
        "version": 1,
        "setup_cmd": "python3 engine/setup.py",
        "hooks": {
            "guard": "scion_sdk_verif",
            "enable": "none needed: static analysis reads the type-checked program of the unmodified sources (no instrumentation in /repo)",
            "baseline_off_cmd": "cd /repo && cargo nextest run --workspace --no-fail-fast --test-threads 8 --offline || cargo test --workspace --no-fail-fast --offline",
            "source_commits": [],
            "add_only": True,
        },
        "engines": [
            {"name": "scifacts", "path": "engine/driver", "serves_properties": [c["property_id"] for c in checks],
             "kind_free_text": "rustc_private driver run as RUSTC_WORKSPACE_WRAPPER under cargo +nightly check: dumps pre-lowering MIR, resolved callees, evaluated consts, ADT/impl tables"},
            {"name": "rules", "path": "engine/rules", "serves_properties": [c["property_id"] for c in checks],
             "kind_free_text": "python rule templates (FA, GS, WMC, PANIC, UNS, SZ, ESC, CAST, TBL, RTMAP, SIB, LOCK, CFGV, FLOW, EFFECT) bound per property"},
        ],
        "checks": checks,
        "not_applicable": na,
        "notes": "Family: static analysis only. Every check rebuilds facts from /repo's working tree (cache keyed by content hash). "
                 "known_findings.json lists genuine defects recorded/fixed; see DESIGN.md section 12 (status as built). "
                 "Unguarded repairs in /repo (one fix: commit each): 8998145 (try_reverse validates before writing, C12), 6559404 (validate_nbf, C10), "
                 "fde9866 (parse_socket_addr brackets, C15), eab62ba (combinator no-interface panic, C19), 331ef08 (gateway no SCMP error on SCMP error, C14), 79fdbad (issue cache/queue bound, C06), 5a4a076 (ParseError::report char boundary, C16), 301e6d4 (SCMP/UDP checksum covers the message, C14/C03), 040ba43 (payload length bound, C03), 004c63c (ProtocolNumber::Hbh = 200, C03), 8f07ce4 (unsafe ScmpUnknownMessageView::set_message_type, C02); "
                 "no hook/instrumentation commits.",
    }
    with open(os.path.join(VERIF, "MANIFEST.json"), "w") as f:
        json.dump(man, f, indent=1)
    print("MANIFEST: %d checks, %d not applicable" % (len(checks), len(na)))


if __name__ == "__main__":
    main()
