// scifacts — rustc_private fact extractor for the scion-sdk static checks.
//
// Run as RUSTC_WORKSPACE_WRAPPER under `cargo +nightly check`.  For every
// workspace crate it is invoked for (build scripts excluded) it writes one
// JSON fact file  $SCIFACTS_OUT/<crate>.json  containing, for the type-checked
// program: function table, pre-lowering MIR of every body (CFG, statements,
// resolved callees), evaluated constants, ADT tables and impl tables.
//
// Nothing here runs scion-sdk code; constants are evaluated by rustc's own
// const evaluator (the same values the compiler bakes into the binary).
#![feature(rustc_private)]
#![allow(clippy::all)]

extern crate rustc_abi;
extern crate rustc_driver;
extern crate rustc_hir;
extern crate rustc_interface;
extern crate rustc_middle;
extern crate rustc_session;
extern crate rustc_span;

use std::collections::HashMap;
use std::fmt::Write as _;

use rustc_driver::Compilation;
use rustc_hir::def::DefKind;
use rustc_hir::def_id::{DefId, LocalDefId, LOCAL_CRATE};
use rustc_middle::mir::{
    self, AggregateKind, AssertKind, BasicBlock, Body, BorrowKind, CastKind, Const as MirConst,
    ConstValue, Operand, Place, ProjectionElem, Rvalue, StatementKind, TerminatorKind, UnwindAction,
};
use rustc_middle::ty::print::{with_crate_prefix, with_no_trimmed_paths, with_no_visible_paths, with_resolve_crate_name};
use rustc_middle::ty::{self, Instance, Ty, TyCtxt, TypeVisitableExt, TypingEnv};
use rustc_span::Span;

// ---------------------------------------------------------------- JSON writer

fn jstr(out: &mut String, s: &str) {
    out.push('"');
    for c in s.chars() {
        match c {
            '"' => out.push_str("\\\""),
            '\\' => out.push_str("\\\\"),
            '\n' => out.push_str("\\n"),
            '\r' => out.push_str("\\r"),
            '\t' => out.push_str("\\t"),
            c if (c as u32) < 0x20 => {
                let _ = write!(out, "\\u{:04x}", c as u32);
            }
            c => out.push(c),
        }
    }
    out.push('"');
}

fn js(s: &str) -> String {
    let mut o = String::new();
    jstr(&mut o, s);
    o
}

fn jopt(s: Option<String>) -> String {
    match s {
        Some(s) => js(&s),
        None => "null".to_string(),
    }
}

fn jlist(items: Vec<String>) -> String {
    let mut o = String::from("[");
    for (i, it) in items.iter().enumerate() {
        if i > 0 {
            o.push(',');
        }
        o.push_str(it);
    }
    o.push(']');
    o
}

// ---------------------------------------------------------------- context

struct Cx<'tcx> {
    tcx: TyCtxt<'tcx>,
    files: Vec<String>,
    file_idx: HashMap<String, usize>,
    macs: Vec<String>,
    mac_idx: HashMap<String, usize>,
}

impl<'tcx> Cx<'tcx> {
    fn path(&self, did: DefId) -> String {
        with_no_visible_paths!(with_resolve_crate_name!(with_crate_prefix!(with_no_trimmed_paths!(self.tcx.def_path_str(did)))))
    }

    fn tystr(&self, t: Ty<'tcx>) -> String {
        with_no_visible_paths!(with_resolve_crate_name!(with_crate_prefix!(with_no_trimmed_paths!(format!("{}", t)))))
    }

    fn intern_file(&mut self, f: String) -> usize {
        if let Some(i) = self.file_idx.get(&f) {
            return *i;
        }
        let i = self.files.len();
        self.files.push(f.clone());
        self.file_idx.insert(f, i);
        i
    }

    fn intern_mac(&mut self, f: String) -> usize {
        if let Some(i) = self.mac_idx.get(&f) {
            return *i;
        }
        let i = self.macs.len();
        self.macs.push(f.clone());
        self.mac_idx.insert(f, i);
        i
    }

    // [file_idx, line, col, mac_idx, inner_file_idx, inner_line]
    // (file,line,col) = outermost call site in non-macro code; mac chain =
    // innermost→outermost macro names ("" when not from expansion);
    // inner = location of the token inside the macro definition.
    fn span(&mut self, sp: Span) -> String {
        let sm = self.tcx.sess.source_map();
        let mut chain = String::new();
        if sp.from_expansion() {
            for (i, ed) in sp.macro_backtrace().enumerate() {
                if i >= 6 {
                    break;
                }
                if i > 0 {
                    chain.push('>');
                }
                let krate = match ed.macro_def_id {
                    Some(d) => self.tcx.crate_name(d.krate).to_string(),
                    None => "?".to_string(),
                };
                let _ = write!(chain, "{}::{}", krate, ed.kind.descr());
            }
            if chain.is_empty() {
                chain.push_str("desugar");
            }
        }
        let outer = sp.source_callsite();
        let lo = sm.lookup_char_pos(outer.lo());
        let fname = format!("{}", lo.file.name.prefer_local_unconditionally());
        let fi = self.intern_file(fname);
        let mi = self.intern_mac(chain);
        if sp.from_expansion() {
            let ilo = sm.lookup_char_pos(sp.lo());
            let iname = format!("{}", ilo.file.name.prefer_local_unconditionally());
            let ifi = self.intern_file(iname);
            format!("[{},{},{},{},{},{}]", fi, lo.line, lo.col.0 + 1, mi, ifi, ilo.line)
        } else {
            format!("[{},{},{},{}]", fi, lo.line, lo.col.0 + 1, mi)
        }
    }
}

// ---------------------------------------------------------------- constants

fn const_bytes<'tcx>(cx: &Cx<'tcx>, val: ConstValue, ty: Ty<'tcx>) -> Option<String> {
    let tcx = cx.tcx;
    match val {
        ConstValue::Scalar(s) => match s {
            mir::interpret::Scalar::Int(i) => {
                let size = i.size().bytes();
                let bits = i.to_bits(i.size());
                let signed = matches!(ty.kind(), ty::Int(_));
                if signed {
                    let shift = 128 - size * 8;
                    let v = ((bits << shift) as i128) >> shift;
                    Some(format!("{}", v))
                } else {
                    Some(format!("{}", bits))
                }
            }
            _ => None,
        },
        ConstValue::ZeroSized => Some("\"zst\"".to_string()),
        ConstValue::Indirect { alloc_id, offset } => {
            let layout = tcx
                .layout_of(TypingEnv::fully_monomorphized().as_query_input(ty))
                .ok()?;
            let size = layout.size;
            if size.bytes() > 256 {
                return None;
            }
            let alloc = tcx.global_alloc(alloc_id).unwrap_memory();
            let range = rustc_abi::Size::from_bytes(offset.bytes())
                ..rustc_abi::Size::from_bytes(offset.bytes() + size.bytes());
            let bytes = alloc.inner().inspect_with_uninit_and_ptr_outside_interpreter(
                range.start.bytes() as usize..range.end.bytes() as usize,
            );
            let mut h = String::from("\"0x");
            for b in bytes {
                let _ = write!(h, "{:02x}", b);
            }
            h.push('"');
            Some(h)
        }
        ConstValue::Slice { alloc_id, meta } => {
            let alloc = tcx.global_alloc(alloc_id).unwrap_memory();
            let len = (meta as usize).min(160);
            let bytes = alloc.inner().inspect_with_uninit_and_ptr_outside_interpreter(0..len);
            let is_str = match ty.kind() {
                ty::Ref(_, inner, _) => inner.is_str(),
                _ => false,
            };
            if is_str {
                Some(js(&format!("str:{}", String::from_utf8_lossy(bytes))))
            } else {
                let mut h = String::from("\"0x");
                for b in bytes {
                    let _ = write!(h, "{:02x}", b);
                }
                h.push('"');
                Some(h)
            }
        }
    }
}

fn fn_const<'tcx>(cx: &Cx<'tcx>, owner: DefId, did: DefId, args: ty::GenericArgsRef<'tcx>) -> String {
    let tcx = cx.tcx;
    let mut o = String::from("{");
    let _ = write!(o, "\"fn\":{}", js(&cx.path(did)));
    let ga: Vec<String> = args
        .iter()
        .filter_map(|a| a.as_type().map(|t| js(&cx.tystr(t))))
        .collect();
    let _ = write!(o, ",\"ga\":{}", jlist(ga));
    let _ = write!(
        o,
        ",\"full\":{}",
        js(&with_no_visible_paths!(with_resolve_crate_name!(with_crate_prefix!(with_no_trimmed_paths!(tcx.def_path_str_with_args(did, args))))))
    );
    // signature safety
    if matches!(tcx.def_kind(did), DefKind::Fn | DefKind::AssocFn) {
        let sig = tcx.fn_sig(did).skip_binder();
        if sig.safety().is_unsafe() {
            o.push_str(",\"unsafe\":1");
        }
    }
    if let Some(tr) = tcx.trait_of_assoc(did) {
        let _ = write!(o, ",\"trait\":{}", js(&cx.path(tr)));
        if let Some(st) = args.get(0).and_then(|a| a.as_type()) {
            let _ = write!(o, ",\"self\":{}", js(&cx.tystr(st)));
        }
    }
    let env = TypingEnv::post_analysis(tcx, owner);
    if let Ok(Some(inst)) = Instance::try_resolve(tcx, env, did, args) {
        let rd = inst.def_id();
        let kind = match inst.def {
            ty::InstanceKind::Item(_) => "item",
            ty::InstanceKind::Intrinsic(_) => "intrinsic",
            ty::InstanceKind::Virtual(..) => "virtual",
            ty::InstanceKind::ClosureOnceShim { .. } => "closure_once",
            ty::InstanceKind::FnPtrShim(..) => "fnptr",
            ty::InstanceKind::DropGlue(..) => "dropglue",
            ty::InstanceKind::CloneShim(..) => "cloneshim",
            ty::InstanceKind::ReifyShim(..) => "reify",
            ty::InstanceKind::VTableShim(..) => "vtable",
            _ => "other",
        };
        let _ = write!(o, ",\"res\":{},\"rk\":\"{}\"", js(&cx.path(rd)), kind);
    }
    o.push('}');
    o
}

fn mir_const<'tcx>(cx: &Cx<'tcx>, owner: DefId, c: &MirConst<'tcx>) -> String {
    let tcx = cx.tcx;
    let ty = c.ty();
    if let ty::FnDef(did, args) = ty.kind() {
        return fn_const(cx, owner, *did, args);
    }
    let mut o = String::from("{");
    let _ = write!(o, "\"ty\":{}", js(&cx.tystr(ty)));
    match c {
        MirConst::Unevaluated(uv, _) => {
            let _ = write!(o, ",\"u\":{}", js(&cx.path(uv.def)));
            if let Some(pi) = uv.promoted {
                let _ = write!(o, ",\"promoted\":{}", pi.index());
            } else {
                let env = TypingEnv::post_analysis(tcx, owner);
                if let Ok(v) = tcx.const_eval_resolve(env, *uv, rustc_span::DUMMY_SP) {
                    if let Some(b) = const_bytes(cx, v, ty) {
                        let _ = write!(o, ",\"v\":{}", b);
                    }
                }
            }
        }
        MirConst::Val(v, _) => {
            if let Some(b) = const_bytes(cx, *v, ty) {
                let _ = write!(o, ",\"v\":{}", b);
            }
        }
        MirConst::Ty(_, ct) => {
            let env = TypingEnv::post_analysis(tcx, owner);
            if let Some(si) = c.try_eval_scalar_int(tcx, env) {
                let _ = write!(o, ",\"v\":{}", si.to_bits(si.size()));
            } else {
                let _ = write!(o, ",\"tyconst\":{}", js(&format!("{:?}", ct)));
            }
        }
    }
    o.push('}');
    o
}

// ---------------------------------------------------------------- MIR pieces

fn place<'tcx>(cx: &Cx<'tcx>, body: &Body<'tcx>, p: &Place<'tcx>) -> String {
    let tcx = cx.tcx;
    let mut projs: Vec<String> = Vec::new();
    for (base, elem) in p.iter_projections() {
        match elem {
            ProjectionElem::Deref => projs.push("\"*\"".into()),
            ProjectionElem::Field(f, _) => {
                let pty = base.ty(body, tcx);
                let mut name = format!("{}", f.index());
                if let ty::Adt(adt, _) = pty.ty.kind() {
                    let vidx = pty.variant_index.unwrap_or(rustc_abi::FIRST_VARIANT);
                    if adt.variants().len() > vidx.index() {
                        let v = adt.variant(vidx);
                        if let Some(fd) = v.fields.get(f) {
                            name = fd.name.to_string();
                        }
                    }
                }
                projs.push(format!("[\"f\",{},{}]", f.index(), js(&name)));
            }
            ProjectionElem::Index(l) => projs.push(format!("[\"i\",{}]", l.index())),
            ProjectionElem::ConstantIndex { offset, min_length, from_end } => projs.push(format!(
                "[\"ci\",{},{},{}]",
                offset,
                min_length,
                if from_end { 1 } else { 0 }
            )),
            ProjectionElem::Subslice { from, to, from_end } => {
                projs.push(format!("[\"ss\",{},{},{}]", from, to, if from_end { 1 } else { 0 }))
            }
            ProjectionElem::Downcast(name, vi) => {
                let n = name.map(|s| s.to_string()).unwrap_or_default();
                projs.push(format!("[\"dc\",{},{}]", js(&n), vi.index()))
            }
            _ => projs.push("\"?\"".into()),
        }
    }
    format!("[{},{}]", p.local.index(), jlist(projs))
}

fn operand<'tcx>(cx: &Cx<'tcx>, owner: DefId, body: &Body<'tcx>, op: &Operand<'tcx>) -> String {
    match op {
        Operand::Copy(p) => format!("[\"c\",{}]", place(cx, body, p)),
        Operand::Move(p) => format!("[\"m\",{}]", place(cx, body, p)),
        Operand::Constant(c) => format!("[\"k\",{}]", mir_const(cx, owner, &c.const_)),
        #[allow(unreachable_patterns)]
        _ => "[\"k\",{\"ty\":\"?\"}]".to_string(),
    }
}

fn rvalue<'tcx>(cx: &Cx<'tcx>, owner: DefId, body: &Body<'tcx>, rv: &Rvalue<'tcx>) -> String {
    let tcx = cx.tcx;
    match rv {
        Rvalue::Use(op, ..) => format!("[\"use\",{}]", operand(cx, owner, body, op)),
        Rvalue::Repeat(op, n) => format!(
            "[\"repeat\",{},{}]",
            operand(cx, owner, body, op),
            js(&format!("{:?}", n))
        ),
        Rvalue::Ref(_, bk, p) => {
            let k = match bk {
                BorrowKind::Shared => "shared",
                BorrowKind::Fake(_) => "fake",
                BorrowKind::Mut { .. } => "mut",
            };
            format!("[\"ref\",\"{}\",{}]", k, place(cx, body, p))
        }
        Rvalue::RawPtr(k, p) => format!(
            "[\"raw\",{},{}]",
            js(&format!("{:?}", k)),
            place(cx, body, p)
        ),
        Rvalue::Cast(kind, op, ty) => {
            let k = match kind {
                CastKind::IntToInt => "IntToInt".to_string(),
                CastKind::Transmute => "Transmute".to_string(),
                CastKind::PtrToPtr => "PtrToPtr".to_string(),
                other => format!("{:?}", other),
            };
            let from = op.ty(body, tcx);
            format!(
                "[\"cast\",{},{},{},{}]",
                js(&k),
                operand(cx, owner, body, op),
                js(&cx.tystr(from)),
                js(&cx.tystr(*ty))
            )
        }
        Rvalue::BinaryOp(op, ab) => {
            let (a, b) = &**ab;
            format!(
                "[\"bin\",{},{},{}]",
                js(&format!("{:?}", op)),
                operand(cx, owner, body, a),
                operand(cx, owner, body, b)
            )
        }
        Rvalue::UnaryOp(op, a) => format!(
            "[\"un\",{},{}]",
            js(&format!("{:?}", op)),
            operand(cx, owner, body, a)
        ),
        Rvalue::Discriminant(p) => format!("[\"disc\",{}]", place(cx, body, p)),
        Rvalue::Aggregate(kind, ops) => {
            let k = match &**kind {
                AggregateKind::Array(_) => "[\"array\"]".to_string(),
                AggregateKind::Tuple => "[\"tuple\"]".to_string(),
                AggregateKind::Adt(did, vi, _, _, _) => {
                    let adt = tcx.adt_def(*did);
                    let vname = adt.variant(*vi).name.to_string();
                    let fnames: Vec<String> = adt
                        .variant(*vi)
                        .fields
                        .iter()
                        .map(|f| js(&f.name.to_string()))
                        .collect();
                    format!(
                        "[\"adt\",{},{},{},{}]",
                        js(&cx.path(*did)),
                        js(&vname),
                        vi.index(),
                        jlist(fnames)
                    )
                }
                AggregateKind::Closure(did, _) => format!("[\"closure\",{}]", js(&cx.path(*did))),
                AggregateKind::Coroutine(did, _) => {
                    format!("[\"coroutine\",{}]", js(&cx.path(*did)))
                }
                AggregateKind::CoroutineClosure(did, _) => {
                    format!("[\"coroutine_closure\",{}]", js(&cx.path(*did)))
                }
                AggregateKind::RawPtr(..) => "[\"rawptr\"]".to_string(),
            };
            let os: Vec<String> = ops.iter().map(|o| operand(cx, owner, body, o)).collect();
            format!("[\"agg\",{},{}]", k, jlist(os))
        }
        Rvalue::CopyForDeref(p) => format!("[\"use\",[\"c\",{}]]", place(cx, body, p)),
        Rvalue::ThreadLocalRef(did) => format!("[\"tlr\",{}]", js(&cx.path(*did))),
        other => format!("[\"other\",{}]", js(&format!("{:?}", other).chars().take(80).collect::<String>())),
    }
}

fn bb(b: BasicBlock) -> usize {
    b.index()
}

fn unwind(u: &UnwindAction) -> String {
    match u {
        UnwindAction::Cleanup(b) => format!("{}", bb(*b)),
        _ => "null".to_string(),
    }
}

fn body_json<'tcx>(cx: &mut Cx<'tcx>, ldid: LocalDefId, body: &Body<'tcx>) -> String {
    let tcx = cx.tcx;
    let owner = ldid.to_def_id();
    let mut o = String::from("{");
    // locals
    let mut names: HashMap<usize, String> = HashMap::new();
    for vdi in &body.var_debug_info {
        if let mir::VarDebugInfoContents::Place(p) = &vdi.value {
            if p.projection.is_empty() {
                names.entry(p.local.index()).or_insert_with(|| vdi.name.to_string());
            }
        }
    }
    let mut locals = Vec::new();
    for (l, decl) in body.local_decls.iter_enumerated() {
        let n = names.get(&l.index()).cloned();
        locals.push(format!("[{},{}]", js(&cx.tystr(decl.ty)), jopt(n)));
    }
    let _ = write!(o, "\"argc\":{},\"locals\":{}", body.arg_count, jlist(locals));
    // upvar names for closures
    if tcx.is_closure_like(owner) {
        let caps: Vec<String> = tcx
            .closure_captures(ldid)
            .iter()
            .map(|c| js(&c.to_string(tcx)))
            .collect();
        let _ = write!(o, ",\"upvars\":{}", jlist(caps));
    }
    let mut blocks = Vec::new();
    for (_bbi, data) in body.basic_blocks.iter_enumerated() {
        let mut stmts = Vec::new();
        for st in &data.statements {
            match &st.kind {
                StatementKind::Assign(b) => {
                    let (p, rv) = &**b;
                    let sp = cx.span(st.source_info.span);
                    stmts.push(format!(
                        "[\"=\",{},{},{}]",
                        place(cx, body, p),
                        rvalue(cx, owner, body, rv),
                        sp
                    ));
                }
                StatementKind::SetDiscriminant { place: p, variant_index } => {
                    let sp = cx.span(st.source_info.span);
                    stmts.push(format!(
                        "[\"sd\",{},{},{}]",
                        place(cx, body, p),
                        variant_index.index(),
                        sp
                    ));
                }
                StatementKind::Intrinsic(i) => {
                    let sp = cx.span(st.source_info.span);
                    match &**i {
                        mir::NonDivergingIntrinsic::Assume(op) => stmts.push(format!(
                            "[\"assume\",{},{}]",
                            operand(cx, owner, body, op),
                            sp
                        )),
                        mir::NonDivergingIntrinsic::CopyNonOverlapping(c) => stmts.push(format!(
                            "[\"copy_nonoverlapping\",{},{},{},{}]",
                            operand(cx, owner, body, &c.src),
                            operand(cx, owner, body, &c.dst),
                            operand(cx, owner, body, &c.count),
                            sp
                        )),
                    }
                }
                _ => {}
            }
        }
        let term = data.terminator();
        let sp = cx.span(term.source_info.span);
        let t = match &term.kind {
            TerminatorKind::Goto { target } => format!("[\"goto\",{},{}]", bb(*target), sp),
            TerminatorKind::SwitchInt { discr, targets } => {
                let mut arms = Vec::new();
                for (v, t) in targets.iter() {
                    arms.push(format!("[{},{}]", v, bb(t)));
                }
                let dty = discr.ty(body, tcx);
                format!(
                    "[\"switch\",{},{},{},{},{}]",
                    operand(cx, owner, body, discr),
                    jlist(arms),
                    bb(targets.otherwise()),
                    js(&cx.tystr(dty)),
                    sp
                )
            }
            TerminatorKind::Return => format!("[\"ret\",{}]", sp),
            TerminatorKind::Unreachable => format!("[\"unreachable\",{}]", sp),
            TerminatorKind::UnwindResume => format!("[\"resume\",{}]", sp),
            TerminatorKind::UnwindTerminate(_) => format!("[\"abort\",{}]", sp),
            TerminatorKind::Drop { place: p, target, unwind: u, .. } => format!(
                "[\"drop\",{},{},{},{}]",
                place(cx, body, p),
                bb(*target),
                unwind(u),
                sp
            ),
            TerminatorKind::Call { func, args, destination, target, unwind: u, .. } => {
                let f = operand(cx, owner, body, func);
                let a: Vec<String> =
                    args.iter().map(|a| operand(cx, owner, body, &a.node)).collect();
                let t = match target {
                    Some(t) => format!("{}", bb(*t)),
                    None => "null".to_string(),
                };
                format!(
                    "[\"call\",{},{},{},{},{},{}]",
                    f,
                    jlist(a),
                    place(cx, body, destination),
                    t,
                    unwind(u),
                    sp
                )
            }
            TerminatorKind::TailCall { func, args, .. } => {
                let f = operand(cx, owner, body, func);
                let a: Vec<String> =
                    args.iter().map(|a| operand(cx, owner, body, &a.node)).collect();
                format!("[\"tailcall\",{},{},{}]", f, jlist(a), sp)
            }
            TerminatorKind::Assert { cond, expected, msg, target, unwind: u } => {
                let (kind, ops): (String, Vec<String>) = match &**msg {
                    AssertKind::BoundsCheck { len, index } => (
                        "BoundsCheck".into(),
                        vec![operand(cx, owner, body, len), operand(cx, owner, body, index)],
                    ),
                    AssertKind::Overflow(op, a, b) => (
                        format!("Overflow({:?})", op),
                        vec![operand(cx, owner, body, a), operand(cx, owner, body, b)],
                    ),
                    AssertKind::OverflowNeg(a) => {
                        ("OverflowNeg".into(), vec![operand(cx, owner, body, a)])
                    }
                    AssertKind::DivisionByZero(a) => {
                        ("DivisionByZero".into(), vec![operand(cx, owner, body, a)])
                    }
                    AssertKind::RemainderByZero(a) => {
                        ("RemainderByZero".into(), vec![operand(cx, owner, body, a)])
                    }
                    other => {
                        let s = format!("{:?}", other);
                        let s: String = s.chars().take_while(|c| c.is_alphanumeric()).collect();
                        (s, vec![])
                    }
                };
                format!(
                    "[\"assert\",{},{},{},{},{},{},{}]",
                    operand(cx, owner, body, cond),
                    if *expected { 1 } else { 0 },
                    js(&kind),
                    jlist(ops),
                    bb(*target),
                    unwind(u),
                    sp
                )
            }
            TerminatorKind::Yield { value, resume, drop, .. } => format!(
                "[\"yield\",{},{},{},{}]",
                operand(cx, owner, body, value),
                bb(*resume),
                match drop {
                    Some(d) => format!("{}", bb(*d)),
                    None => "null".to_string(),
                },
                sp
            ),
            TerminatorKind::CoroutineDrop => format!("[\"codrop\",{}]", sp),
            TerminatorKind::FalseEdge { real_target, imaginary_target } => format!(
                "[\"falseedge\",{},{},{}]",
                bb(*real_target),
                bb(*imaginary_target),
                sp
            ),
            TerminatorKind::FalseUnwind { real_target, .. } => {
                format!("[\"falseunwind\",{},{}]", bb(*real_target), sp)
            }
            TerminatorKind::InlineAsm { .. } => format!("[\"asm\",{}]", sp),
        };
        blocks.push(format!(
            "{{\"s\":{},\"t\":{}{}}}",
            jlist(stmts),
            t,
            if data.is_cleanup { ",\"cleanup\":1" } else { "" }
        ));
    }
    let _ = write!(o, ",\"blocks\":{}", jlist(blocks));
    o.push('}');
    o
}

// ---------------------------------------------------------------- items

fn fn_entry<'tcx>(cx: &mut Cx<'tcx>, ldid: LocalDefId) -> String {
    let tcx = cx.tcx;
    let did = ldid.to_def_id();
    let kind = tcx.def_kind(did);
    let mut o = String::from("{");
    let _ = write!(o, "\"kind\":{}", js(&format!("{:?}", kind).split([' ', '{', '(']).next().unwrap_or("").to_string()));
    let sp = cx.span(tcx.def_span(did));
    let _ = write!(o, ",\"span\":{}", sp);
    // end line of the whole item
    {
        let sm = tcx.sess.source_map();
        let full = tcx.hir_span_with_body(tcx.local_def_id_to_hir_id(ldid));
        let hi = sm.lookup_char_pos(full.source_callsite().hi());
        let _ = write!(o, ",\"end\":{}", hi.line);
    }
    if matches!(kind, DefKind::Fn | DefKind::AssocFn) {
        let sig = tcx.fn_sig(did).skip_binder().skip_binder();
        let ins: Vec<String> = sig.inputs().iter().map(|t| js(&cx.tystr(*t))).collect();
        let _ = write!(o, ",\"inputs\":{},\"output\":{}", jlist(ins), js(&cx.tystr(sig.output())));
        if sig.safety().is_unsafe() {
            o.push_str(",\"unsafe\":1");
        }
        if tcx.asyncness(did).is_async() {
            o.push_str(",\"async\":1");
        }
        if tcx.is_const_fn(did) {
            o.push_str(",\"const\":1");
        }
        let vis = tcx.visibility(did);
        let _ = write!(o, ",\"vis\":{}", js(if vis.is_public() { "pub" } else { "restricted" }));
        if tcx.effective_visibilities(()).is_reachable(ldid) {
            o.push_str(",\"reach\":1");
        }
        let names: Vec<String> = tcx.fn_arg_idents(did).iter().map(|i| match i {
            Some(i) => js(&i.name.to_string()),
            None => "null".to_string(),
        }).collect();
        let _ = write!(o, ",\"argnames\":{}", jlist(names));
    }
    if kind == DefKind::AssocFn {
        let ai = tcx.associated_item(did);
        if ai.is_method() {
            o.push_str(",\"method\":1");
        }
        if let Some(t) = ai.trait_item_def_id() {
            let _ = write!(o, ",\"trait_item\":{}", js(&cx.path(t)));
        }
        let parent = tcx.parent(did);
        match tcx.def_kind(parent) {
            DefKind::Impl { .. } => {
                let st = tcx.type_of(parent).instantiate_identity().skip_norm_wip();
                let _ = write!(o, ",\"self_ty\":{}", js(&cx.tystr(st)));
                if let ty::Adt(adt, _) = st.kind() {
                    let _ = write!(o, ",\"self_adt\":{}", js(&cx.path(adt.did())));
                }
                if let Some(tr) = tcx.impl_opt_trait_ref(parent) {
                    let tr = tr.instantiate_identity().skip_norm_wip();
                    let _ = write!(o, ",\"impl_trait\":{}", js(&cx.path(tr.def_id)));
                    let _ = write!(o, ",\"impl_trait_full\":{}", js(&with_no_visible_paths!(with_resolve_crate_name!(with_crate_prefix!(with_no_trimmed_paths!(format!("{}", tr)))))));
                }
            }
            DefKind::Trait => {
                let _ = write!(o, ",\"in_trait\":{}", js(&cx.path(parent)));
            }
            _ => {}
        }
    }
    if matches!(kind, DefKind::Closure) {
        let parent = tcx.typeck_root_def_id(did);
        let _ = write!(o, ",\"root\":{}", js(&cx.path(parent)));
        if tcx.is_coroutine(did) {
            o.push_str(",\"coroutine\":1");
        }
    }
    o.push('}');
    o
}

fn dump<'tcx>(tcx: TyCtxt<'tcx>) {
    let out_dir = match std::env::var("SCIFACTS_OUT") {
        Ok(d) => d,
        Err(_) => return,
    };
    let crate_name = tcx.crate_name(LOCAL_CRATE).to_string();
    if crate_name == "build_script_build" || crate_name.starts_with("build_script_") {
        return;
    }
    let mut cx = Cx { tcx, files: vec![], file_idx: HashMap::new(), macs: vec![], mac_idx: HashMap::new() };
    cx.intern_mac(String::new());

    let mut fns: Vec<String> = Vec::new();
    let mut bodies: Vec<String> = Vec::new();
    let mut consts: Vec<String> = Vec::new();

    // pass 1: clone every body before anything (const evaluation, borrowck)
    // can steal it.
    let mut cloned: Vec<(LocalDefId, Body<'tcx>, Vec<Body<'tcx>>)> = Vec::new();
    for ldid in tcx.hir_body_owners() {
        let did = ldid.to_def_id();
        if matches!(tcx.def_kind(did), DefKind::Fn | DefKind::AssocFn | DefKind::Closure) {
            let (steal, psteal) = tcx.mir_promoted(ldid);
            let body = steal.borrow().clone();
            let proms: Vec<Body<'tcx>> = psteal.borrow().iter().cloned().collect();
            cloned.push((ldid, body, proms));
        }
    }
    for (ldid, body, proms) in cloned.iter() {
        let did = ldid.to_def_id();
        let path = cx.path(did);
        let fe = fn_entry(&mut cx, *ldid);
        fns.push(format!("{}:{}", js(&path), fe));
        let mut bj = body_json(&mut cx, *ldid, body);
        if !proms.is_empty() {
            let pj: Vec<String> = proms.iter().map(|pb| body_json(&mut cx, *ldid, pb)).collect();
            bj.pop();
            bj.push_str(",\"promoted\":");
            bj.push_str(&jlist(pj));
            bj.push('}');
        }
        bodies.push(format!("{}:{}", js(&path), bj));
    }
    drop(cloned);
    for ldid in tcx.hir_body_owners() {
        let did = ldid.to_def_id();
        let kind = tcx.def_kind(did);
        match kind {
            DefKind::Const { .. } | DefKind::AssocConst { .. } => {
                let generics = tcx.generics_of(did);
                if generics.count() != 0 || generics.parent_count != 0 && tcx.generics_of(tcx.parent(did)).count() != 0 {
                    // may still be evaluable when the impl's generics are unused; try and ignore errors
                }
                let ty = tcx.type_of(did).instantiate_identity().skip_norm_wip();
                if ty.has_non_region_param() {
                    continue;
                }
                if let Ok(v) = tcx.const_eval_poly(did) {
                    if let Some(b) = const_bytes(&cx, v, ty) {
                        let path = cx.path(did);
                        let sp = cx.span(tcx.def_span(did));
                        consts.push(format!(
                            "{}:{{\"ty\":{},\"v\":{},\"span\":{}}}",
                            js(&path),
                            js(&cx.tystr(ty)),
                            b,
                            sp
                        ));
                    }
                }
            }
            _ => {}
        }
    }

    // trait method declarations without bodies, and all ADTs / impls / traits
    let mut adts: Vec<String> = Vec::new();
    let mut impls: Vec<String> = Vec::new();
    let mut traits: Vec<String> = Vec::new();
    let mut decls: Vec<String> = Vec::new();
    for ldid in tcx.hir_crate_items(()).definitions() {
        let did = ldid.to_def_id();
        match tcx.def_kind(did) {
            DefKind::Struct | DefKind::Enum | DefKind::Union => {
                let adt = tcx.adt_def(did);
                let mut vars = Vec::new();
                for (vi, v) in adt.variants().iter_enumerated() {
                    let mut fields = Vec::new();
                    for f in v.fields.iter() {
                        let fty = tcx.type_of(f.did).instantiate_identity().skip_norm_wip();
                        fields.push(format!(
                            "[{},{},{}]",
                            js(&f.name.to_string()),
                            js(&cx.tystr(fty)),
                            js(if f.vis.is_public() { "pub" } else { "restricted" })
                        ));
                    }
                    let discr = if adt.is_enum() {
                        format!("{}", adt.discriminant_for_variant(tcx, vi).val)
                    } else {
                        "null".to_string()
                    };
                    vars.push(format!("[{},{},{}]", js(&v.name.to_string()), discr, jlist(fields)));
                }
                let repr = adt.repr();
                let mut r = Vec::new();
                if repr.transparent() { r.push("\"transparent\"".to_string()); }
                if repr.c() { r.push("\"C\"".to_string()); }
                if repr.packed() { r.push("\"packed\"".to_string()); }
                if let Some(i) = repr.int { r.push(js(&format!("{:?}", i))); }
                let sp = cx.span(tcx.def_span(did));
                let vis = tcx.visibility(did);
                adts.push(format!(
                    "{}:{{\"kind\":{},\"repr\":{},\"variants\":{},\"span\":{},\"vis\":{}}}",
                    js(&cx.path(did)),
                    js(if adt.is_enum() { "enum" } else if adt.is_union() { "union" } else { "struct" }),
                    jlist(r),
                    jlist(vars),
                    sp,
                    js(if vis.is_public() { "pub" } else { "restricted" })
                ));
            }
            DefKind::Impl { .. } => {
                let st = tcx.type_of(did).instantiate_identity().skip_norm_wip();
                let mut o = String::from("{");
                let _ = write!(o, "\"self\":{}", js(&cx.tystr(st)));
                if let ty::Adt(adt, _) = st.kind() {
                    let _ = write!(o, ",\"self_adt\":{}", js(&cx.path(adt.did())));
                }
                if let Some(tr) = tcx.impl_opt_trait_ref(did) {
                    let tr = tr.instantiate_identity().skip_norm_wip();
                    let _ = write!(o, ",\"trait\":{}", js(&cx.path(tr.def_id)));
                    let _ = write!(o, ",\"trait_full\":{}", js(&with_no_visible_paths!(with_resolve_crate_name!(with_crate_prefix!(with_no_trimmed_paths!(format!("{}", tr)))))));
                }
                let mut items = Vec::new();
                for ai in tcx.associated_items(did).in_definition_order() {
                    items.push(format!("[{},{},{}]", js(&ai.opt_name().map(|n| n.to_string()).unwrap_or_default()), js(&cx.path(ai.def_id)), jopt(ai.trait_item_def_id().map(|t| cx.path(t)))));
                }
                let _ = write!(o, ",\"items\":{}", jlist(items));
                let sp = cx.span(tcx.def_span(did));
                let _ = write!(o, ",\"span\":{}", sp);
                o.push('}');
                impls.push(o);
            }
            DefKind::Trait => {
                let mut items = Vec::new();
                for ai in tcx.associated_items(did).in_definition_order() {
                    items.push(format!(
                        "[{},{},{}]",
                        js(&ai.opt_name().map(|n| n.to_string()).unwrap_or_default()),
                        js(&cx.path(ai.def_id)),
                        if ai.defaultness(tcx).has_value() { 1 } else { 0 }
                    ));
                }
                traits.push(format!("{}:{{\"items\":{}}}", js(&cx.path(did)), jlist(items)));
            }
            DefKind::AssocFn => {
                // declaration without body (trait required method)
                if tcx.hir_maybe_body_owned_by(ldid).is_none() {
                    let path = cx.path(did);
                    let fe = fn_entry(&mut cx, ldid);
                    decls.push(format!("{}:{}", js(&path), fe));
                }
            }
            _ => {}
        }
    }

    let mut out = String::with_capacity(1 << 24);
    out.push('{');
    let _ = write!(out, "\"crate\":{}", js(&crate_name));
    let _ = write!(out, ",\"tree\":{}", js(&std::env::var("SCIFACTS_TREE").unwrap_or_default()));
    let _ = write!(out, ",\"cfg\":{}", js(&std::env::var("SCIFACTS_CFG").unwrap_or_default()));
    let ct: Vec<String> = tcx.crate_types().iter().map(|c| js(&format!("{:?}", c))).collect();
    let _ = write!(out, ",\"crate_types\":{}", jlist(ct));
    let _ = write!(out, ",\"fns\":{{{}}}", fns.join(","));
    let _ = write!(out, ",\"decls\":{{{}}}", decls.join(","));
    let _ = write!(out, ",\"bodies\":{{{}}}", bodies.join(",\n"));
    let _ = write!(out, ",\"consts\":{{{}}}", consts.join(","));
    let _ = write!(out, ",\"adts\":{{{}}}", adts.join(","));
    let _ = write!(out, ",\"impls\":[{}]", impls.join(","));
    let _ = write!(out, ",\"traits\":{{{}}}", traits.join(","));
    let files: Vec<String> = cx.files.iter().map(|f| js(f)).collect();
    let macs: Vec<String> = cx.macs.iter().map(|f| js(f)).collect();
    let _ = write!(out, ",\"files\":{},\"macs\":{}", jlist(files), jlist(macs));
    out.push('}');

    let is_bin = tcx.crate_types().iter().any(|c| format!("{:?}", c) == "Executable");
    let fname = format!("{}/{}{}.json", out_dir, crate_name, if is_bin { ".bin" } else { "" });
    let tmp = format!("{}.tmp.{}", fname, std::process::id());
    std::fs::write(&tmp, out).expect("write facts");
    std::fs::rename(&tmp, &fname).expect("rename facts");
}

struct Cb;

impl rustc_driver::Callbacks for Cb {
    fn after_expansion<'tcx>(
        &mut self,
        _compiler: &rustc_interface::interface::Compiler,
        tcx: TyCtxt<'tcx>,
    ) -> Compilation {
        dump(tcx);
        Compilation::Continue
    }
}

fn main() {
    let mut args: Vec<String> = std::env::args().collect();
    // as RUSTC_WORKSPACE_WRAPPER: argv[1] is the path of the real rustc
    if args.len() > 1 && (args[1].ends_with("rustc") || args[1].contains("/rustc")) {
        args.remove(1);
    }
    // per-configuration codegen flags are appended here so that the dependency
    // cache is shared between configurations (cargo applies the wrapper to
    // workspace members only).
    match std::env::var("SCIFACTS_CFG").as_deref() {
        Ok("release") => {
            args.push("-Cdebug-assertions=off".into());
            args.push("-Coverflow-checks=off".into());
        }
        Ok("dev") => {
            args.push("-Cdebug-assertions=on".into());
            args.push("-Coverflow-checks=on".into());
        }
        _ => {}
    }
    if std::env::var("SCIFACTS_OUT").is_ok() {
        args.push("-Awarnings".into());
    }
    let mut cb = Cb;
    rustc_driver::run_compiler(&args, &mut cb);
}
