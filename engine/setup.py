#!/usr/bin/env python3
"""setup: build the scifacts driver, warm the dependency cache, run one extraction."""
import os
import sys

HERE = os.path.dirname(os.path.abspath(__file__))
sys.path.insert(0, HERE)
import extract

extract.build_driver()
d, tree, secs, cached = extract.extract("release")
print("setup ok: facts at %s (%s, %.0fs%s)" % (d, tree, secs, ", cached" if cached else ""))
