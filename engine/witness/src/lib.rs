//! Compile-fail witnesses for C02: the type checker itself refuses the programs below, as an external user of `sciparse`
//! would write them.  Each witness `Wn` has a compiling twin `Wn-twin` that differs only in the offending construct (so that a
//! witness whose paths are merely wrong cannot "fail to compile" and pass).  Run with `cargo +nightly test --doc` (the error
//! code after `compile_fail,` is only honoured on nightly).

/// W1 — an unvalidated view cannot be created from safe code: `View::from_slice_unchecked` is `unsafe`.
/// ```compile_fail,E0133
/// use sciparse::core::view::View;
/// use sciparse::header::view::ScionHeaderView;
/// let b = [0u8; 4];
/// let _v: &ScionHeaderView = ScionHeaderView::from_slice_unchecked(&b);
/// ```
/// W1-twin
/// ```no_run
/// use sciparse::core::view::View;
/// use sciparse::header::view::ScionHeaderView;
/// let b = [0u8; 4];
/// let _v: &ScionHeaderView = unsafe { ScionHeaderView::from_slice_unchecked(&b) };
/// ```
pub struct W1;

/// W2 — the size-determining header-length field cannot be written from safe code.
/// ```compile_fail,E0133
/// use sciparse::header::view::ScionHeaderView;
/// fn f(v: &mut ScionHeaderView) { v.set_header_len(1020); }
/// ```
/// W2-twin
/// ```no_run
/// use sciparse::header::view::ScionHeaderView;
/// fn f(v: &mut ScionHeaderView) { unsafe { v.set_header_len(1020) } }
/// ```
pub struct W2;

/// W3 — a typed SCMP packet view does not hand out its raw mutable form to safe code.
/// ```compile_fail,E0133
/// use sciparse::packet::view::ScionScmpPacketView;
/// fn f(v: &mut ScionScmpPacketView) { let _r = v.as_raw_mut(); }
/// ```
/// W3-twin
/// ```no_run
/// use sciparse::packet::view::ScionScmpPacketView;
/// fn f(v: &mut ScionScmpPacketView) { let _r = unsafe { v.as_raw_mut() }; }
/// ```
pub struct W3;

/// W4 — the unchecked encoder (no size check) cannot be called from safe code.
/// ```compile_fail,E0133
/// use sciparse::core::encode::WireEncode;
/// use sciparse::dataplane_path::standard::model::InfoField;
/// fn f(x: &InfoField, buf: &mut [u8]) { let _n = x.encode_unchecked(buf); }
/// ```
/// W4-twin
/// ```no_run
/// use sciparse::core::encode::WireEncode;
/// use sciparse::dataplane_path::standard::model::InfoField;
/// fn f(x: &InfoField, buf: &mut [u8]) { let _n = unsafe { x.encode_unchecked(buf) }; }
/// ```
pub struct W4;

/// W5 — a view's bytes are private: no struct-literal construction.
/// ```compile_fail,E0423
/// use sciparse::dataplane_path::standard::view::InfoFieldView;
/// let _v = InfoFieldView([0u8; 8]);
/// ```
/// W5-twin
/// ```no_run
/// use sciparse::core::view::View;
/// use sciparse::dataplane_path::standard::view::InfoFieldView;
/// let b = [0u8; 8];
/// let _v = InfoFieldView::try_from_slice(&b);
/// ```
pub struct W5;

/// W6 — the SCMP type byte, which selects the layout a payload view was validated against, cannot be written from safe code
/// (repair 8f07ce4).
/// ```compile_fail,E0133
/// use sciparse::payload::scmp::view::ScmpUnknownMessageView;
/// fn f(v: &mut ScmpUnknownMessageView) { v.set_message_type(128u8.into()); }
/// ```
/// W6-twin
/// ```no_run
/// use sciparse::payload::scmp::view::ScmpUnknownMessageView;
/// fn f(v: &mut ScmpUnknownMessageView) { unsafe { v.set_message_type(128u8.into()) } }
/// ```
pub struct W6;

/// W7 — segment lengths of a standard path (they size the view) cannot be written from safe code.
/// ```compile_fail,E0133
/// use sciparse::dataplane_path::standard::view::StandardPathView;
/// fn f(v: &mut StandardPathView) { v.set_seg0_len(3); }
/// ```
/// W7-twin
/// ```no_run
/// use sciparse::dataplane_path::standard::view::StandardPathView;
/// fn f(v: &mut StandardPathView) { unsafe { v.set_seg0_len(3) } }
/// ```
pub struct W7;

/// W8 — the typed SCMP message views do not let safe code retype the message either: the echo-request view's type setter is
/// `unsafe` like the unknown-message one (`message()` re-dispatches on the type byte without re-validating the length).
/// ```compile_fail,E0133
/// use sciparse::payload::scmp::view::ScmpEchoRequestMessageView;
/// fn f(v: &mut ScmpEchoRequestMessageView) { v.set_message_type(131u8.into()); }
/// ```
/// W8-twin
/// ```no_run
/// use sciparse::payload::scmp::view::ScmpEchoRequestMessageView;
/// fn f(v: &mut ScmpEchoRequestMessageView) { unsafe { v.set_message_type(131u8.into()) } }
/// ```
pub struct W8;
