"""C17 — tunnel reassembly emits only intact packets, at most once, in any frame order.

Decided here (side clauses named in the property's last sentence): arbitrary frames never cause a
panic (PANIC), never grow memory (EFFECT), and the constant relations the bounds rest on (CONST).
Not decided: integrity / at-most-once / completeness of reassembly (values over frame histories).
"""
import re

import templates as T
import panic as PN
import facts as FX
from facts import tokens, fmt, short, walk, op_place

CRATES = ["anapaya_edge_tun"]

EXPLANATION = (
    "(PANIC) panic-site reachability on rustc MIR from Defragmenter::recv, FragmentFrameRef::from_slice, "
    "FragmentFrameHeader::from_slice and Fragmenter::send: every explicit panic, unwrap, slice/array index, "
    "copy_from_slice and division site in their call graph inside anapaya-edge-tun is discharged by a dominating "
    "comparison that implies the bound (e.g. `offset + len > MAX_PACKET_SIZE` reject before "
    "assembly_buffer[offset..offset+len]; `len < MIN_PAYLOAD_SIZE` reject before `offset / len`; "
    "`frame_index >= MAX_FRAMES - 1` reject before recv_mask[frame_index / BITS]), by constant arguments, or by an "
    "individually reviewed table entry whose named guard is re-verified on every run. "
    "(CONST) the evaluated constants satisfy MAX_FRAMES == BITMASK_ENTRY_BITS * BITMASK_ENTRY_COUNT, "
    "MIN_PAYLOAD_SIZE > 0, MIN_PAYLOAD_SIZE * MAX_FRAMES >= MAX_PACKET_SIZE and MAX_PACKET_SIZE <= u16::MAX, and the "
    "assembly buffer / mask array types have exactly those lengths. "
    "(EFFECT) no heap-growing or allocating call (Vec/String/Box/VecDeque growth, to_vec, collect, format!) is "
    "reachable from Defragmenter::recv in the crate: reassembly memory is fixed at construction. "
    "(RESET) slot reuse: every DefragQueue field that ingest_frame can read before writing it within one call (must-write "
    "dataflow over its CFG) is reset by DefragQueue::init on every path, or is only looked at behind the Some edge of a reset "
    "field with which it is always stored together — no decision about a packet depends on what the previous packet left in "
    "the slot (the byte buffer itself excepted: see not decided)."
)
EXPLANATION_ADD = ' Additions: (EVICT-oldest) the slot reclaimed under pressure is selected by lowest stream_offset; (CEIL-frames) expected_frames is the ceiling of size / window.'
EXPLANATION = EXPLANATION + EXPLANATION_ADD
RESIDUAL = [
    "integrity, at-most-once and completeness of reassembly over frame histories (values): in particular the "
    "popcount completion test does not prove byte coverage — stale bytes of an earlier packet in a slot are a "
    "value-coverage question this analysis does not see",
    "arithmetic overflow panics of the dev configuration are listed in the evidence, not decided",
]
ASSUMPTIONS = [
    "prometheus metric updates (inc/observe/with_label_values) do not panic and their allocations are outside the reassembly state",
    "Defragmenter is constructed with queue_count >= 1 (both production constructors are checked: a constant 8 and a config field)",
]
TECHNIQUE = "panic-site reachability with guard-implication discharge; evaluated-constant relations; effect (allocation) absence over the call graph"

M = "anapaya_edge_tun::fragmenting::"
ENTRIES = [M + "Defragmenter::recv", M + "FragmentFrameRef::<'b>::from_slice", M + "proto::FragmentFrameHeader::from_slice",
           M + "Fragmenter::send", M + "Fragmenter::set_mtu", M + "Fragmenter::new"]

GROW = re.compile(
    r"^alloc::vec::Vec::<T, A>::(push|extend_from_slice|resize|resize_with|reserve|reserve_exact|insert|append|with_capacity|from_elem)$"
    r"|^alloc::(vec::from_elem|slice::<impl \[T\]>::to_vec|slice::<impl \[T\]>::to_vec_in|boxed::Box::<T>::new|string::String::(push|push_str|from|with_capacity)|fmt::format|alloc::exchange_malloc)"
    r"|iter::traits::iterator::Iterator(>)?::collect$"
    r"|^alloc::collections::vec_deque::VecDeque::<T, A>::(push_back|push_front|reserve|extend)$"
    r"|^<alloc::vec::Vec<T(, A)?> as core::iter::traits::collect::(Extend|FromIterator)<.*>>::"
    r"|^<.* as alloc::string::ToString>::to_string$|^<.* as alloc::borrow::ToOwned>::to_owned$|^<alloc::vec::Vec<T, A> as core::clone::Clone>::clone$")


def consts_rule(F, R):
    def cv(n):
        v = F.const_value(M + n)
        if v is None:
            R.anchor_missing("const " + M + n)
        return v
    mf, bits, cnt, mps, mpay, mmtu = cv("MAX_FRAMES"), cv("BITMASK_ENTRY_BITS"), cv("BITMASK_ENTRY_COUNT"), cv("MAX_PACKET_SIZE"), cv("MIN_PAYLOAD_SIZE"), cv("MIN_MTU")
    hs = F.const_value(M + "proto::FragmentFrameHeader::SIZE")
    if None in (mf, bits, cnt, mps, mpay, mmtu, hs):
        return
    rel = [
        ("MAX_FRAMES == BITMASK_ENTRY_BITS * BITMASK_ENTRY_COUNT", mf == bits * cnt),
        ("BITMASK_ENTRY_BITS == 128 (BitmaskType = u128, shifts `1 << (idx % BITS)` stay below the type width)", bits == 128),
        ("MIN_PAYLOAD_SIZE > 0 (divisor of frame_offset / len after the `len < MIN_PAYLOAD_SIZE` reject)", mpay > 0),
        ("MIN_PAYLOAD_SIZE * MAX_FRAMES >= MAX_PACKET_SIZE (expected_frames <= MAX_FRAMES)", mpay * mf >= mps),
        ("MAX_PACKET_SIZE <= u16::MAX (frame_offset + len fits the u16 next_frame_offset)", mps <= 65535),
        ("MIN_MTU > FragmentFrameHeader::SIZE (mtu - SIZE > 0: divisor of div_ceil in Fragmenter::send)", mmtu > hs),
        ("FragmentFrameHeader::SIZE >= 12 (header field ranges 0..8, 8..10, 10..12 inside the checked length)", hs >= 12),
    ]
    for d, ok in rel:
        R.ob("CONST", d, ok, True, {"rule": "CONST", "relation": d, "holds": ok,
                                    "values": {"MAX_FRAMES": mf, "BITS": bits, "COUNT": cnt, "MAX_PACKET_SIZE": mps, "MIN_PAYLOAD_SIZE": mpay, "MIN_MTU": mmtu, "HDR": hs}})
        if not ok:
            R.violation("CONST", d.split(" (")[0], "constant relation broken: %s" % d, None)
    q = F.adts.get(M + "DefragQueue")
    if not q:
        R.anchor_missing(M + "DefragQueue")
        return
    ftys = {}
    for v in q["variants"]:
        for f in v[2] if len(v) > 2 and isinstance(v[2], list) else []:
            ftys[f[0]] = f[1]
    R.extra["DefragQueue_fields"] = ftys
    ab, rm = ftys.get("assembly_buffer", ""), ftys.get("recv_mask", "")
    ab = ab.replace("MAX_PACKET_SIZE", str(mps)) if "MAX_PACKET_SIZE" in ab and F.const_value(M + "MAX_PACKET_SIZE") == mps else ab
    rm = rm.replace("BITMASK_ENTRY_COUNT", str(cnt)) if "BITMASK_ENTRY_COUNT" in rm else rm
    m1 = re.search(r"\[u8; (\d+)\]", ab)
    m2 = re.search(r"\[u128; (\d+)\]", rm)
    ok = bool(m1 and int(m1.group(1)) == mps)
    R.ob("CONST", "assembly_buffer is [u8; MAX_PACKET_SIZE] (%s)" % ab, ok, True)
    if not ok:
        R.violation("CONST", "assembly_buffer-length", "assembly buffer type %s is not [u8; MAX_PACKET_SIZE=%d]" % (ab, mps), None)
    ok = bool(m2 and int(m2.group(1)) == cnt)
    R.ob("CONST", "recv_mask is [u128; BITMASK_ENTRY_COUNT] (%s)" % rm, ok, True)
    if not ok:
        R.violation("CONST", "recv_mask-length", "mask type %s is not [u128; BITMASK_ENTRY_COUNT=%d]" % (rm, cnt), None)


def effect_rule(F, R):
    root = M + "Defragmenter::recv"
    parent = F.reachable_ctx([root])
    fns = [f for f in parent if F.has_body(f) and f.startswith(("anapaya_edge_tun::", "<anapaya_edge_tun::")) and not T.is_test_support(f)]
    n = 0
    for f in sorted(fns):
        b = F.body(f)
        if "::metrics::" in f:
            continue
        for c in b.calls:
            if c.indirect or c.bb not in b.live_blocks() or b.is_cleanup(c.bb):
                continue
            n += 1
            hit = any(GROW.search(x) for x in c.names())
            if hit and c.span.external_macro("anapaya_edge_tun"):
                continue
            if hit:
                R.ob("EFFECT", "%s in %s" % (short(c.decl), f), False, True)
                R.violation("EFFECT", "%s/%s" % (f, short(c.decl)),
                            "allocation / growth call %s reachable from Defragmenter::recv (via %s): reassembly memory is no "
                            "longer fixed" % (c.decl, " -> ".join(short(x) for x in F.call_path(parent, f))), c.span.loc)
    R.ob("EFFECT", "no growing/allocating call among %d calls in %d crate functions reachable from Defragmenter::recv" % (n, len(fns)), True, True,
         {"rule": "EFFECT", "functions": sorted(fns), "calls_examined": n})
    R.call_sites += n
    R.floor("EFFECT-fns", len(fns), 5, "crate functions reachable from Defragmenter::recv (recv, recv_fallible, select_queue, init, ingest_frame, …)")


def ctor_rule(F, R):
    """queue_count >= 1 at the production constructors"""
    sites = [(p, c) for (p, c) in T.call_sites(F, M + "Defragmenter::new", crates=["anapaya_edge_tun"]) if not p.startswith(M)]
    R.floor("CTOR", len(sites), 2, "production Defragmenter::new call sites")
    for (p, c) in sites:
        o = F.body(p).origin(c.args[0])
        v = PN.upper_bound(o) if o[0] in ("lit", "const") else None
        desc = fmt(o, 100)
        R.ob("CTOR", "Defragmenter::new(%s) in %s" % (desc, short(p)), True, True, {"rule": "CTOR", "fn": p, "loc": c.span.loc, "queue_count": desc, "const": v})
        if v is not None and v < 1:
            R.violation("CTOR", p + "/queue_count", "Defragmenter constructed with constant queue_count %d: select_queue indexes queues[0]" % v, c.span.loc)


def _field_stores(F, field, adt):
    """[(fn, bb, idx, value origin, span)] of direct stores to a field named `field`"""
    out = []
    for p in F.all_body_paths("anapaya_edge_tun"):
        if T.is_test_support(p):
            continue
        b = F.body(p)
        for bi in sorted(b.live_blocks()):
            for si, s in enumerate(b.stmts(bi)):
                if s[0] != "=":
                    continue
                pr = s[1][1]
                if pr and isinstance(pr[-1], list) and pr[-1][0] == "f" and pr[-1][2] == field \
                        and all(x == "*" for x in pr[:-1]) and adt in b.local_ty(s[1][0]):
                    out.append((p, bi, si, b._rvalue_origin(s[2], 12, frozenset()), b.span_of(s[3])))
    return out


def field_ub_rule(F, R):
    """FIELD-UB: every store to DefragQueue.final_packet_size is None or Some(v) with v <= MAX_PACKET_SIZE
    implied by the guards on every path to the store"""
    mps = F.const_value(M + "MAX_PACKET_SIZE")
    stores = _field_stores(F, "final_packet_size", M + "DefragQueue")
    R.floor("FIELD-UB", len(stores), 2, "stores to DefragQueue.final_packet_size (init: None, ingest_frame: Some)")
    allok = True
    for (p, bi, si, o, sp) in stores:
        b = F.body(p)
        ok = False
        why = ""
        if o[0] == "agg" and o[1][0] == "adt" and o[1][2] == "None":
            ok, why = True, "None"
        elif o[0] == "agg" and o[1][0] == "adt" and o[1][2] == "Some" and len(o[2]) == 1:
            u = PN.tree_ub_at(b, bi, o[2][0])
            ok, why = (u is not None and mps is not None and u <= mps), "Some(v), v <= %s" % u
        R.ob("FIELD-UB", "store to final_packet_size in %s: %s" % (short(p), why), ok, True,
             {"rule": "FIELD-UB", "fn": p, "loc": sp.loc, "value": fmt(o, 160), "bound": why, "holds": ok})
        if not ok:
            allok = False
            R.violation("FIELD-UB", p + "/final_packet_size", "final_packet_size is stored without a dominating bound <= MAX_PACKET_SIZE "
                        "(%s): assembly_buffer[..final_packet_size] can panic" % fmt(o, 120), sp.loc)
    # aggregates constructing DefragQueue must initialise it with None
    for (p, bi, si, sp) in T.adt_constructions(F, M + "DefragQueue", crates=["anapaya_edge_tun"]):
        b = F.body(p)
        st = b.stmts(bi)[si]
        names = st[2][1][4] if len(st[2][1]) > 4 else []
        if "final_packet_size" in names:
            v = b._op_origin(st[2][2][names.index("final_packet_size")], 8, frozenset())
            ok = v[0] == "agg" and v[1][2] == "None"
            R.ob("FIELD-UB", "DefragQueue{final_packet_size: None} in %s" % short(p), ok, True)
            if not ok:
                allok = False
                R.violation("FIELD-UB", p + "/final_packet_size-init", "DefragQueue constructed with final_packet_size = %s" % fmt(v, 80), sp.loc)
    if allok and mps is not None:
        PN.FIELD_UB["final_packet_size"] = mps


def mtu_rule(F, R):
    """MTU: Fragmenter.mtu is written only by set_mtu, whose last store is max(_, MIN_MTU); new() calls set_mtu"""
    SET = M + "Fragmenter::set_mtu"
    NEW = M + "Fragmenter::new"
    stores = _field_stores(F, "mtu", M + "Fragmenter")
    R.floor("MTU", len(stores), 1, "stores to Fragmenter.mtu")
    for (p, bi, si, o, sp) in stores:
        ok = p == SET
        R.ob("MTU", "store to .mtu in %s" % short(p), ok, True)
        if not ok:
            R.violation("MTU", p + "/mtu-store", "Fragmenter.mtu written outside set_mtu (%s): the MIN_MTU clamp can be bypassed, mtu - HEADER may be 0" % p, sp.loc)
    b = F.body(SET)
    if b is None:
        R.anchor_missing(SET)
        return
    mine = [(bi, si, o, sp) for (p, bi, si, o, sp) in stores if p == SET]
    # the store(s) from which the return is reachable without another store
    last = [x for x in mine if not any(y is not x and (y[0] in b.reach(b.succ[x[0]]) or (y[0] == x[0] and y[1] > x[1])) for y in mine)]
    ok = bool(last) and all(o[0] == "call" and (o[1].endswith("::max") or "::cmp::max" in o[1]) and any(a[0] == "const" and a[1] == M + "MIN_MTU" for a in o[2]) for (_, _, o, _) in last)
    R.ob("MTU", "set_mtu's final store is max(_, MIN_MTU)", ok, True, {"rule": "MTU", "final_store": [fmt(x[2], 120) for x in last]})
    if not ok:
        R.violation("MTU", SET + "/clamp", "set_mtu no longer ends with mtu = max(_, MIN_MTU): %s" % [fmt(x[2], 100) for x in last], F.loc(SET))
    nb = F.body(NEW)
    if nb is None:
        R.anchor_missing(NEW)
        return
    cs = nb.calls_to(SET)
    rets = [x for x in range(nb.n) if nb.term(x)[0] == "ret"]
    ok = bool(cs) and all(r not in nb.reach([0], avoid=[c.bb for c in cs]) for r in rets)
    R.ob("MTU", "Fragmenter::new cannot return without calling set_mtu", ok, True)
    if not ok:
        R.violation("MTU", NEW + "/set_mtu", "Fragmenter::new can return a fragmenter whose mtu was not clamped by set_mtu", F.loc(NEW))
    # derive(Clone) copies an existing (already clamped) value field by field
    aggs = [x for x in T.adt_constructions(F, M + "Fragmenter", crates=["anapaya_edge_tun"])
            if x[0] != NEW and not (x[0] == "<" + M + "Fragmenter as core::clone::Clone>::clone" and x[3].mac)]
    R.ob("MTU", "Fragmenter is only constructed in Fragmenter::new", not aggs, True)
    for (p, bi, si, sp) in aggs:
        R.violation("MTU", p + "/construct", "Fragmenter constructed outside new() (%s): mtu not clamped" % p, sp.loc)


def _self_field(pl, aliases):
    """(field name, full?) if the place is (*self).field[...] (self = local 1 or an alias of *self)"""
    l, proj = pl[0], pl[1]
    if l in aliases and len(proj) >= 2 and proj[0] == "*" and isinstance(proj[1], list) and proj[1][0] == "f":
        return proj[1][2], len(proj) == 2
    return None


def _places_in(x, out):
    """all places ([local, proj]) mentioned in an operand / rvalue JSON fragment"""
    if isinstance(x, list):
        if len(x) == 2 and x[0] in ("c", "m") and isinstance(x[1], list) and len(x[1]) == 2 and isinstance(x[1][0], int):
            out.append(x[1])
            return
        if len(x) == 3 and x[0] in ("ref", "raw") and isinstance(x[2], list) and len(x[2]) == 2 and isinstance(x[2][0], int):
            out.append(x[2])
            return
        if len(x) == 2 and x[0] == "disc" and isinstance(x[1], list) and len(x[1]) == 2 and isinstance(x[1][0], int):
            out.append(x[1])
            return
        for y in x:
            _places_in(y, out)


def reset_rule(F, R):
    """RESET: a reassembly slot is reused for packet after packet; every field of DefragQueue that ingest_frame can read
    before writing it in the same call carries state from the previous packet and must be reset by DefragQueue::init —
    unless its value is only looked at behind the Some edge of a field that IS reset and with which it is always stored
    together (last_frame_offset rides on final_packet_size)."""
    INIT, ING = M + "DefragQueue::init", M + "DefragQueue::ingest_frame"
    ib, b = F.body(INIT), F.body(ING)
    if ib is None or b is None:
        R.anchor_missing(INIT if ib is None else ING)
        return
    R.fn(INIT)
    # fields init stores on every path
    stores = {}
    for bi in sorted(ib.live_blocks()):
        for st in ib.stmts(bi):
            if st[0] == "=":
                sf = _self_field(st[1], {1})
                if sf and sf[1]:
                    stores.setdefault(sf[0], []).append(bi)
    rets = [x for x in ib.live_blocks() if ib.term(x)[0] == "ret"]
    resets = {f for f, bbs in stores.items() if T.must_pass(ib, rets, bbs)[0]}
    # ingest_frame: must-write dataflow
    aliases = {1}
    for l, ds in b.defs.items():
        for d in ds:
            if d[0] == "assign" and d[4][0] == "ref" and d[4][2][0] == 1 and d[4][2][1] == ["*"]:
                aliases.add(l)
    acc = {}      # block -> ordered list of ("r"|"w", field)
    for bi in sorted(b.live_blocks()):
        lst = []
        for st in b.stmts(bi):
            if st[0] != "=":
                continue
            ps = []
            _places_in(st[2], ps)
            for pl in ps:
                sf = _self_field(pl, aliases)
                if sf:
                    lst.append(("r", sf[0]))
            sf = _self_field(st[1], aliases)
            if sf:
                lst.append(("w" if sf[1] else "r", sf[0]))
        t = b.term(bi)
        ps = []
        _places_in(t[1:-1], ps)
        for pl in ps:
            sf = _self_field(pl, aliases)
            if sf:
                lst.append(("r", sf[0]))
        acc[bi] = lst
    allf = {f for l in acc.values() for (_, f) in l}
    order = sorted(b.live_blocks())
    win = {bi: set(allf) for bi in order}
    win[0] = set()
    changed = True
    while changed:
        changed = False
        for bi in order:
            ps = [p for p in b.pred[bi] if p in win]
            if bi != 0 and ps:
                new = set.intersection(*[win[p] | {f for (k, f) in acc[p] if k == "w"} for p in ps])
                if new != win[bi]:
                    win[bi] = new
                    changed = True
    rbw = {}
    for bi in order:
        w = set(win[bi])
        for (k, f) in acc[bi]:
            if k == "r" and f not in w:
                rbw.setdefault(f, bi)
            elif k == "w":
                w.add(f)
    R.extra["reset"] = {"init_resets": sorted(resets), "read_before_written_in_ingest_frame": sorted(rbw)}
    R.floor("RESET", len(rbw), 4, "DefragQueue fields ingest_frame reads before writing")
    for f in sorted(rbw):
        if f == "assembly_buffer":
            # the byte buffer is only read to emit [..final_packet_size] after the mask says every frame arrived; its reuse
            # without clearing is the value-coverage question listed under 'not decided'
            continue
        if f in resets:
            R.ob("RESET", "init resets %s" % f, True, True)
            continue
        ok, why = _rides_on_reset_field(b, f, resets, aliases)
        R.ob("RESET", "%s is not reset by init: %s" % (f, why), ok, True, {"rule": "RESET", "field": f, "exemption": why, "holds": ok})
        if not ok:
            R.violation("RESET", ING + "/" + f, "DefragQueue.%s survives slot reuse: ingest_frame reads it before writing it and DefragQueue::init does not "
                        "reset it (%s): state of the previous packet in the slot decides about the next one" % (f, why), F.loc(INIT))


def _rides_on_reset_field(b, f, resets, aliases):
    """f is only read into a tuple next to a reset field y, its payload is used only behind the Some edge of y's slot, and
    every block that stores into y also stores f"""
    tuples = []
    other_reads = 0
    for bi in sorted(b.live_blocks()):
        for st in b.stmts(bi):
            if st[0] != "=":
                continue
            ps = []
            _places_in(st[2], ps)
            mine = [pl for pl in ps if (_self_field(pl, aliases) or (None,))[0] == f]
            if not mine:
                continue
            # direct copy into a temp that ends up in a tuple aggregate?
            tl = st[1][0]
            used_in_tuple = None
            for bj in sorted(b.live_blocks()):
                for st2 in b.stmts(bj):
                    if st2[0] == "=" and st2[2][0] == "agg" and st2[2][1][0] == "tuple":
                        for i, o in enumerate(st2[2][2]):
                            pl = FX.op_place(o)
                            if pl is not None and pl[0] == tl and not pl[1]:
                                used_in_tuple = (st2[1][0], i, st2[2][2], bj)
            if used_in_tuple and st[2][0] == "use" and not st[1][1]:
                tuples.append(used_in_tuple)
            else:
                other_reads += 1
        t = b.term(bi)
        ps = []
        _places_in(t[1:-1], ps)
        if any((_self_field(pl, aliases) or (None,))[0] == f for pl in ps):
            other_reads += 1
    if other_reads or not tuples:
        return False, "it is read directly (%d site(s)), not only next to a reset field" % other_reads
    for (tl, i_f, ops, bj) in tuples:
        ys = []
        for i, o in enumerate(ops):
            pl = FX.op_place(o)
            if pl is None or i == i_f:
                continue
            for d in b.defs.get(pl[0], ()):
                if d[0] == "assign" and d[4][0] == "use":
                    spl = FX.op_place(d[4][1])
                    sf = _self_field(spl, aliases) if spl else None
                    if sf and sf[0] in resets:
                        ys.append((i, sf[0]))
        if not ys:
            return False, "no reset field sits next to it"
        # uses of the f slot's payload
        uses = []
        for bk in sorted(b.live_blocks()):
            for st in b.stmts(bk):
                ps = []
                if st[0] == "=":
                    _places_in(st[2], ps)
                for pl in ps:
                    if pl[0] == tl and pl[1] and isinstance(pl[1][0], list) and pl[1][0][0] == "f" and pl[1][0][1] == i_f and len(pl[1]) > 1:
                        uses.append(bk)
        good_y = None
        for (i_y, y) in ys:
            def pred(tk, o, g, i_y=i_y):
                t = b.term(g)
                pl = FX.op_place(t[1])
                if pl is None:
                    return False
                for d in b.defs.get(pl[0], ()):
                    if d[0] == "assign" and d[4][0] == "disc":
                        dp = d[4][1]
                        if dp[0] == tl and len(dp[1]) == 1 and isinstance(dp[1][0], list) and dp[1][0][1] == i_y:
                            return True
                return False
            if all(T.guarded_by(b, u, pred, [1])[0] for u in uses):
                # co-store: blocks storing y also store f
                ysto = [bk for bk in b.live_blocks() for st in b.stmts(bk) if st[0] == "=" and (_self_field(st[1], aliases) or (None, 0)) == (y, True)]
                fsto = {bk for bk in b.live_blocks() for st in b.stmts(bk) if st[0] == "=" and (_self_field(st[1], aliases) or (None, 0)) == (f, True)}
                if ysto and all(bk in fsto for bk in ysto):
                    good_y = y
        if good_y is None:
            return False, "its value is used outside the Some edge of a reset field stored together with it"
        return True, "only used behind Some(%s), which init resets and which is always stored together with it" % good_y
    return False, "unclassified"


def run(F, R, tier, cfg):
    PN.FIELD_UB.clear()
    reset_rule(F, R)
    field_ub_rule(F, R)
    mtu_rule(F, R)
    PN.check_entries(F, R, "C17", ENTRIES, cfg,
                     stop=lambda f: not (f.startswith(("anapaya_edge_tun::", "<anapaya_edge_tun::"))) or "::metrics::" in f)
    consts_rule(F, R)
    effect_rule(F, R)
    ctor_rule(F, R)
    evict_oldest_rule(F, R)
    ceil_frames_rule(F, R)


SELECT = "anapaya_edge_tun::fragmenting::DefragmenterInner::select_queue"


def evict_oldest_rule(F, R):
    """EVICT-oldest: when no idle slot exists the slot that is reclaimed is the one with the lowest stream_offset (the oldest
    packet).  Decided on the selection itself: (a) loop form — every assignment of the victim-index local inside the scan sits
    under a comparison of this queue's `stream_offset` with the running minimum, and the running minimum is updated from the
    same field under the same guard; or (b) iterator form — `min_by_key(|..| q.stream_offset)` / `min_by(.. stream_offset ..)`.
    A selection ordered by anything else (a tuple whose first component is the index) reclaims the slot of a packet that is
    still receiving frames while an older, stalled one keeps its slot."""
    ps = [p for p in F.all_body_paths("anapaya_edge_tun") if p.endswith("::select_queue")]
    if not ps:
        R.anchor_missing(SELECT)
        return
    p = ps[0]
    b = F.body(p)
    R.fn(p)
    ok, how = False, "no selection by stream_offset found"
    # (b) iterator form
    for c in b.calls:
        if c.indirect or c.bb not in b.live_blocks():
            continue
        if re.search(r"::(min_by_key|min_by)$", c.decl) and len(c.args) == 2:
            cl = [x[1][1] for x in walk(b.origin(c.args[1])) if x[0] == "agg" and isinstance(x[1], tuple) and len(x[1]) > 1 and "{closure#" in str(x[1][1])]
            if cl and F.has_body(cl[0]):
                qb = F.body(cl[0])
                ro = qb.local_origin(0)
                if "field:stream_offset" in tokens(ro) and not any(n[0] == "agg" and n[1][0] == "tuple" for n in walk(ro)):
                    ok, how = True, "min_by_key over stream_offset"
        if re.search(r"::min$", c.decl) and len(c.args) == 1 and any(t.endswith("::enumerate") for t in tokens(b.origin(c.args[0]))):
            how = "min() over an enumerated iterator: ordered by index first"
    # (a) loop form: `if lowest > q.stream_offset { lowest = q.stream_offset; idx = i }`
    if not ok:
        for g in sorted(b.live_blocks()):
            e = FX.bool_edges(b, g)
            if e is None:
                continue
            o = b.origin(b.term(g)[1])
            while o[0] == "un" and o[1] == "Not":
                o = o[2]
            if o[0] != "bin" or o[1] not in ("Gt", "Lt", "Ge", "Le"):
                continue
            carried = [any(n[0] in ("phi", "loop") for n in walk(x)) for x in (o[2], o[3])]
            if carried[0] == carried[1]:
                continue            # exactly one side is the running minimum (loop-carried) …
            this_side = o[3] if carried[0] else o[2]
            if "field:stream_offset" not in tokens(this_side) or "param:3" in tokens(this_side):
                continue            # … the other is this queue's stream_offset (not the frame's)
            tt, ff = e
            body_edge = tt
            # statements on the taken edge: one copies stream_offset into a loop-carried local, one copies the enumerate index
            upd_off = upd_idx = False
            for bb in b.reach([body_edge], avoid=[g]) & set(range(body_edge, body_edge + 3)):
                for st in b.stmts(bb):
                    if st[0] == "=" and not st[1][1] and st[2][0] == "use":
                        tk = tokens(b.origin(st[2][1]))
                        if "field:stream_offset" in tk:
                            upd_off = True
                        if any(t.endswith("::enumerate") for t in tk) and "field:stream_offset" not in tk:
                            upd_idx = True
            if upd_off and upd_idx:
                ok, how = True, "scan keeps (lowest stream_offset, its index) under `lowest > queue.stream_offset`"
    R.ob("EVICT-oldest", "select_queue: the evicted slot is the one with the lowest stream_offset (%s)" % how, ok, True,
         {"rule": "EVICT-oldest", "fn": p, "how": how, "holds": ok})
    if not ok:
        R.violation("EVICT-oldest", p, "the slot reclaimed under pressure is not selected by lowest stream_offset (%s): a packet still receiving frames is "
                    "evicted while an older one keeps its slot" % how, F.loc(p))


def ceil_frames_rule(F, R):
    """CEIL-frames: "emitted whenever all its frames arrive": completion compares the number of received frames with
    `expected_frames`, which must be ceil(final_packet_size / frame_window_size) — `div_ceil(size, w)` or `(size + w - 1) / w`.
    `size / w + 1` counts one frame too many exactly when the last frame is full, and such a packet is never emitted."""
    n = 0
    for p in F.all_body_paths("anapaya_edge_tun"):
        if "fragmenting::DefragQueue::" not in p or T.is_test_support(p):
            continue
        b = F.body(p)
        for bb in sorted(b.live_blocks()):
            for st in b.stmts(bb):
                if st[0] == "=" and st[1][1] and isinstance(st[1][1][-1], list) and st[1][1][-1][0] == "f" and st[1][1][-1][2] == "expected_frames":
                    o = FX.strip_sites(b._rvalue_origin(st[2], FX.DEPTH, None))
                    if o[0] == "agg" and o[1][0] == "adt" and o[1][2] == "None":
                        continue
                    n += 1
                    R.fn(p)
                    v = o[2][0] if (o[0] == "agg" and o[1][0] == "adt" and o[1][2] == "Some" and o[2]) else o
                    v = PN.strip_casts(v)
                    ok = False
                    if v[0] == "call" and v[1].endswith("::div_ceil") and len(v[2]) == 2:
                        ok = True
                    elif v[0] == "bin" and v[1].startswith("Div"):
                        num, den = PN.strip_casts(v[2]), PN.strip_casts(v[3])
                        if num[0] == "bin" and num[1].startswith("Add"):
                            for x in (num[2], num[3]):
                                x = PN.strip_casts(x)
                                if x[0] == "bin" and x[1].startswith("Sub") and PN.const_eval(x[3]) == 1 and PN.strip_casts(x[2]) == den:
                                    ok = True
                    R.ob("CEIL-frames", "%s: expected_frames = ceil(final_packet_size / frame_window_size)" % short(p), ok, True,
                         {"rule": "CEIL-frames", "fn": p, "value": fmt(v, 160), "holds": ok})
                    if not ok:
                        R.violation("CEIL-frames", p, "expected_frames is not the ceiling of size / window (%s): a packet whose last frame is full (or some other "
                                    "size class) never reaches the completion test" % fmt(v, 120), b.span_of(st[3]).loc)
    R.floor("CEIL-frames", n, 1, "assignments of Some(..) to DefragQueue.expected_frames")
