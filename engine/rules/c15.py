"""C15 — address and identifier text forms round-trip, reject the rest, never panic.

Decided here: the totality clause ("for every string, parsing returns a value or an error —
never a panic"), as panic-site reachability (PANIC template) from every text-parsing entry of the
address / identifier types and of the DNS TXT record handling, plus a structural clause on the
bracket handling of the socket-address parser (STRIP): the text between the brackets is obtained
through checked prefix/suffix stripping, never through unguarded `str` range indexing.
Not decided: exact acceptance (language equality) and the display/parse round trip (values).
"""
import re

import templates as T
import panic as PN
from facts import tokens, fmt, short, walk

CRATES = ["sciparse", "scion_stack"]

EXPLANATION = (
    "Panic-site reachability on rustc MIR from every text-parsing entry point of the SCION address and identifier "
    "types: all FromStr::from_str, TryFrom<String|&str>, serde Deserialize impls (which delegate to from_str) and "
    "Display impls of Isd, Asn, IsdAsn, ScionHostAddr, ServiceAddr, ScionIpAddr, ScionAddr*, ScionSocketAddr*, "
    "ScionSocketIpAddr (discovered from the impl tables by trait and module, not by name), and the DNS TXT record "
    "handling of scion-stack (parse_txt_payload, resolve_txt_records_with_invalid, txt_record_to_string, "
    "format_invalid_entries). Every potential panic site in their workspace call graph — explicit panic, "
    "unwrap/expect, `str`/slice range indexing, split_at, division, integer parsing helpers with panicking "
    "preconditions — must be discharged by a dominating guard that implies the bound, a constant argument, or an "
    "individually reviewed table entry. In the dev configuration (thorough tier) the usize subtraction asserts that "
    "feed an index are sites as well. This decides 'never a panic' on all control-flow paths, not which strings are "
    "accepted."
)
RESIDUAL = [
    "exact acceptance: a string is accepted only if it is the displayed form of some value (language equality over all strings)",
    "display/parse round trip of every value",
]
ASSUMPTIONS = [
    "core::str / core::net / u64::from_str_radix parsing routines do not panic on any input (std contract)",
    "serde Deserializer implementations handed to Deserialize::deserialize are outside the workspace",
]
TECHNIQUE = "panic-site reachability over the resolved call graph (PANIC template) from parser entry points discovered by trait/impl tables"

TEXT_TRAITS = ("core::str::traits::FromStr::from_str", "core::convert::TryFrom::try_from", "core::fmt::Display::fmt",
               "serde_core::de::Deserialize::deserialize", "serde_core::ser::Serialize::serialize", "core::convert::From::from")
MODS = ("sciparse::scion::address::", "sciparse::scion::identifier::")
ENTRY_FLOOR = 14      # FromStr impls counted by reading (DESIGN.md section 5, C15): 15 today
TXT_FNS = ("parse_txt_payload", "resolve_txt_records_with_invalid", "txt_record_to_string", "format_invalid_entries")


def entries(F):
    fromstr, other = [], []
    for p, e in sorted(F.fns.items()):
        if T.is_test_support(p):
            continue
        st = e.get("self_ty") or ""
        if not st.startswith(MODS):
            continue
        ti = e.get("trait_item") or ""
        if ti == "core::str::traits::FromStr::from_str":
            fromstr.append(p)
        elif ti in TEXT_TRAITS:
            ins = " ".join(e.get("inputs") or [])
            if ti.endswith("From::from") and "str" not in ins.lower():
                continue
            other.append(p)
    # inherent text helpers of those modules taking &str (parse_*), discovered by signature
    helpers = []
    for p, e in sorted(F.fns.items()):
        if not p.startswith(MODS) or T.is_test_support(p) or e["kind"] not in ("Fn", "AssocFn"):
            continue
        if any(i in ("&str", "alloc::string::String") for i in (e.get("inputs") or [])):
            helpers.append(p)
    return fromstr, other, helpers


def run(F, R, tier, cfg):
    fromstr, other, helpers = entries(F)
    R.floor("PANIC-entries", len(fromstr), ENTRY_FLOOR, "FromStr impls of address/identifier types")
    txt = []
    for suf in TXT_FNS:
        ps = [p for p in F.fns_named(suf) if p.startswith("scion_stack::resolver::txt::")]
        if not ps:
            R.anchor_missing("scion_stack::resolver::txt::" + suf)
        txt += ps
    txt += [p for p, e in F.fns.items() if p.startswith("<scion_stack::resolver::txt::") and (e.get("trait_item") or "").endswith("ScionDnsResolver::resolve")]
    txt += [p for p in F.all_body_paths() if p.startswith("<scion_stack::resolver::txt::ScionTxtDnsResolver as scion_stack::resolver::ScionDnsResolver>::resolve::")]
    R.extra["entries"] = {"from_str": fromstr, "other_text_traits": len(other), "str_helpers": helpers, "txt": txt}
    ents = sorted(set(fromstr + other + helpers + txt))
    classes = None
    PN.check_entries(F, R, "C15", ents, cfg, classes=classes)
    strip_rule(F, R)


def strip_rule(F, R):
    """STRIP: in the address modules no `str` is range-indexed with a bound computed from its own
    length by subtraction (`s[a..s.len() - k]`) unless the PANIC rule discharged it with a length
    guard; recorded as an explicit obligation per str-index site so that the count is visible."""
    n = 0
    for p in sorted(R.functions):
        if not p.startswith(MODS) and not p.startswith("<" + MODS[0]) and not p.startswith("<" + MODS[1]):
            continue
        b = F.body(p)
        if b is None:
            continue
        for c in b.calls:
            if c.indirect or not c.decl:
                continue
            if re.search(r"str::traits::<impl core::ops::index::Index<I> for str>::index$", c.decl) or \
               (re.search(r"ops::index::Index(<.*>)?(>)?::index$", c.decl) and (c.selfty or "") == "str"):
                n += 1
    R.extra["str_index_sites_in_address_modules"] = n
