"""C15 — address and identifier text forms round-trip, reject the rest, never panic.

Decided here: the totality clause ("for every string, parsing returns a value or an error —
never a panic"), as panic-site reachability (PANIC template) from every text-parsing entry of the
address / identifier types and of the DNS TXT record handling, plus a structural clause on the
bracket handling of the socket-address parser (STRIP): the text between the brackets is obtained
through checked prefix/suffix stripping, never through unguarded `str` range indexing.
Not decided: exact acceptance (language equality) and the display/parse round trip (values).
"""
import re

import templates as T
import panic as PN
from facts import tokens, fmt, short, walk, strip_sites

CRATES = ["sciparse", "scion_stack"]

EXPLANATION = (
    "Panic-site reachability on rustc MIR from every text-parsing entry point of the SCION address and identifier "
    "types: all FromStr::from_str, TryFrom<String|&str>, serde Deserialize impls (which delegate to from_str) and "
    "Display impls of Isd, Asn, IsdAsn, ScionHostAddr, ServiceAddr, ScionIpAddr, ScionAddr*, ScionSocketAddr*, "
    "ScionSocketIpAddr (discovered from the impl tables by trait and module, not by name), and the DNS TXT record "
    "handling of scion-stack (parse_txt_payload, resolve_txt_records_with_invalid, txt_record_to_string, "
    "format_invalid_entries). Every potential panic site in their workspace call graph — explicit panic, "
    "unwrap/expect, `str`/slice range indexing, split_at, division, integer parsing helpers with panicking "
    "preconditions — must be discharged by a dominating guard that implies the bound, a constant argument, or an "
    "individually reviewed table entry. In the dev configuration (thorough tier) the usize subtraction asserts that "
    "feed an index are sites as well. This decides 'never a panic' on all control-flow paths, not which strings are "
    "accepted."
)
EXPLANATION_ADD = ' Additions: (SIB-asn-boundary) Display and FromStr of Asn use the same decimal-notation boundary 2^32-1; (SPLIT-both) both halves of every split_once are examined; (SPLIT-exhaust) a split iterator read with explicit next() calls accounts for the rest (splitn(k) with k reads, or whole-iterator consumption); (TRIM-repeat) no trim_*_matches call (unbounded repetition stripped) in the text parsers; (TRIM-ws) whitespace trimming only in the DNS TXT record parser.'
EXPLANATION = EXPLANATION + EXPLANATION_ADD
RESIDUAL = [
    "exact acceptance: a string is accepted only if it is the displayed form of some value (language equality over all strings) — decided only through the necessary conditions SPLIT-both / SPLIT-exhaust (no part of the input goes unexamined)",
    "display/parse round trip of every value — decided only for the AS-number notation boundary (SIB-asn-boundary)",
]
ASSUMPTIONS = [
    "core::str / core::net / u64::from_str_radix parsing routines do not panic on any input (std contract)",
    "serde Deserializer implementations handed to Deserialize::deserialize are outside the workspace",
]
TECHNIQUE = "panic-site reachability over the resolved call graph (PANIC template) from parser entry points discovered by trait/impl tables"

TEXT_TRAITS = ("core::str::traits::FromStr::from_str", "core::convert::TryFrom::try_from", "core::fmt::Display::fmt",
               "serde_core::de::Deserialize::deserialize", "serde_core::ser::Serialize::serialize", "core::convert::From::from")
MODS = ("sciparse::scion::address::", "sciparse::scion::identifier::")
ENTRY_FLOOR = 14      # FromStr impls counted by reading (DESIGN.md section 5, C15): 15 today
TXT_FNS = ("parse_txt_payload", "resolve_txt_records_with_invalid", "txt_record_to_string", "format_invalid_entries")


def entries(F):
    fromstr, other = [], []
    for p, e in sorted(F.fns.items()):
        if T.is_test_support(p):
            continue
        st = e.get("self_ty") or ""
        if not st.startswith(MODS):
            continue
        ti = e.get("trait_item") or ""
        if ti == "core::str::traits::FromStr::from_str":
            fromstr.append(p)
        elif ti in TEXT_TRAITS:
            ins = " ".join(e.get("inputs") or [])
            if ti.endswith("From::from") and "str" not in ins.lower():
                continue
            other.append(p)
    # inherent text helpers of those modules taking &str (parse_*), discovered by signature
    helpers = []
    for p, e in sorted(F.fns.items()):
        if not p.startswith(MODS) or T.is_test_support(p) or e["kind"] not in ("Fn", "AssocFn"):
            continue
        if any(i in ("&str", "alloc::string::String") for i in (e.get("inputs") or [])):
            helpers.append(p)
    return fromstr, other, helpers


def run(F, R, tier, cfg):
    asn_boundary_rule(F, R)
    fromstr, other, helpers = entries(F)
    R.floor("PANIC-entries", len(fromstr), ENTRY_FLOOR, "FromStr impls of address/identifier types")
    txt = []
    for suf in TXT_FNS:
        ps = [p for p in F.fns_named(suf) if p.startswith("scion_stack::resolver::txt::")]
        if not ps:
            R.anchor_missing("scion_stack::resolver::txt::" + suf)
        txt += ps
    txt += [p for p, e in F.fns.items() if p.startswith("<scion_stack::resolver::txt::") and (e.get("trait_item") or "").endswith("ScionDnsResolver::resolve")]
    txt += [p for p in F.all_body_paths() if p.startswith("<scion_stack::resolver::txt::ScionTxtDnsResolver as scion_stack::resolver::ScionDnsResolver>::resolve::")]
    R.extra["entries"] = {"from_str": fromstr, "other_text_traits": len(other), "str_helpers": helpers, "txt": txt}
    ents = sorted(set(fromstr + other + helpers + txt))
    classes = None
    PN.check_entries(F, R, "C15", ents, cfg, classes=classes)
    strip_rule(F, R)
    split_both_rule(F, R, set(F.reachable(ents)))
    split_exhaust_rule(F, R, set(F.reachable(ents)))
    trim_rule(F, R, set(F.reachable(ents)))


def strip_rule(F, R):
    """STRIP: in the address modules no `str` is range-indexed with a bound computed from its own
    length by subtraction (`s[a..s.len() - k]`) unless the PANIC rule discharged it with a length
    guard; recorded as an explicit obligation per str-index site so that the count is visible."""
    n = 0
    for p in sorted(R.functions):
        if not p.startswith(MODS) and not p.startswith("<" + MODS[0]) and not p.startswith("<" + MODS[1]):
            continue
        b = F.body(p)
        if b is None:
            continue
        for c in b.calls:
            if c.indirect or not c.decl:
                continue
            if re.search(r"str::traits::<impl core::ops::index::Index<I> for str>::index$", c.decl) or \
               (re.search(r"ops::index::Index(<.*>)?(>)?::index$", c.decl) and (c.selfty or "") == "str"):
                n += 1
    R.extra["str_index_sites_in_address_modules"] = n


ASN_DISPLAY = "<sciparse::scion::identifier::asn::Asn as core::fmt::Display>::fmt"
ASN_FROMSTR = "<sciparse::scion::identifier::asn::Asn as core::str::traits::FromStr>::from_str"


def _const_through_into(t):
    t = PN.strip_casts(strip_sites(t))
    while t[0] == "call" and re.search(r"::(into|from)$", t[1]) and len(t[2]) == 1:
        t = PN.strip_casts(t[2][0])
    return PN.const_eval(t)


def _thresholds(F, p, value_pred):
    """{T}: the function branches on `value <= T` (any of <, <=, >, >= against a constant, normalised) for a value
    satisfying value_pred(tokens)"""
    b = F.body(p)
    out = set()
    for g in sorted(b.live_blocks()):
        t = b.term(g)
        if t[0] != "switch":
            continue
        o = b.origin(t[1])
        while o[0] == "un" and o[1] == "Not":
            o = o[2]
        if o[0] != "bin" or o[1] not in ("Lt", "Le", "Gt", "Ge"):
            continue
        for val, k, flip in ((o[2], o[3], False), (o[3], o[2], True)):
            c = _const_through_into(k)
            if c is None or not value_pred(tokens(val)):
                continue
            op = o[1] if not flip else {"Lt": "Gt", "Le": "Ge", "Gt": "Lt", "Ge": "Le"}[o[1]]
            out.add({"Le": c, "Lt": c - 1, "Gt": c, "Ge": c - 1}[op])
    return out


def asn_boundary_rule(F, R):
    """SIB-asn-boundary: Display prints an AS number in decimal exactly when it is <= T; FromStr accepts a decimal string
    exactly when the number is <= T'.  Round trip needs T == T' (both 2^32 - 1): with T' < T the displayed form of the
    boundary value is rejected, with T' > T a value has two accepted spellings outside the documented alternatives."""
    if not (F.has_body(ASN_DISPLAY) and F.has_body(ASN_FROMSTR)):
        R.anchor_missing(ASN_DISPLAY if not F.has_body(ASN_DISPLAY) else ASN_FROMSTR)
        return
    R.fn(ASN_DISPLAY)
    R.fn(ASN_FROMSTR)
    td = _thresholds(F, ASN_DISPLAY, lambda tk: any(t.endswith("Asn::to_u64") for t in tk) or "param:1" in tk)
    tp = _thresholds(F, ASN_FROMSTR, lambda tk: any(t.startswith("fn:") and t.endswith("::from_str") for t in tk))
    ok = len(td) == 1 and td == tp and td == {2 ** 32 - 1}
    R.ob("SIB-asn-boundary", "decimal notation boundary: Display <= %s, FromStr <= %s" % (sorted(td), sorted(tp)), ok, True,
         {"rule": "SIB-asn-boundary", "display_threshold": sorted(td), "fromstr_threshold": sorted(tp), "holds": ok})
    if not ok:
        R.violation("SIB-asn-boundary", ASN_FROMSTR, "Display prints AS numbers <= %s in decimal but FromStr accepts decimal numbers <= %s (both must be 4294967295): "
                    "the displayed form of a boundary value does not parse back" % (sorted(td), sorted(tp)), F.loc(ASN_FROMSTR))


SPLITS = re.compile(r"<impl str>::(split_once|rsplit_once)$")
WRAP = re.compile(r"::(ok_or_else|ok_or|branch|map_err|ok|expect|unwrap|unwrap_unchecked|unwrap_or|unwrap_or_else|unwrap_or_default)$")


def _all_operand_origins(b):
    for bb in sorted(b.live_blocks()):
        for st in b.stmts(bb):
            if st[0] == "=":
                rv = st[2]
                ops = []
                if rv[0] in ("use", "un"):
                    ops = [rv[-1]] if rv[0] == "use" else [rv[2]]
                elif rv[0] == "bin":
                    ops = [rv[2], rv[3]]
                elif rv[0] == "cast":
                    ops = [rv[2]]
                elif rv[0] == "agg":
                    ops = list(rv[2])
                for o in ops:
                    yield b.origin(o)
                if rv[0] in ("ref", "raw"):
                    yield b.place_origin(rv[2])
        t = b.term(bb)
        if t[0] == "switch":
            yield b.origin(t[1])
        elif t[0] == "call":
            for a in t[2]:
                yield b.origin(a)
    yield b.local_origin(0)


def split_both_rule(F, R, fns):
    """SPLIT-both: "no trailing or leading garbage is silently dropped": a parser that cuts its input with
    split_once/rsplit_once must look at both halves.  A half that is never read (`let Some((_, next)) = rest.split_once(',')`)
    is input text that is accepted without being examined."""
    n = 0
    for p in sorted(fns):
        b = F.body(p)
        if b is None or T.is_test_support(p):
            continue
        sites = [c for c in b.calls if not c.indirect and SPLITS.search(c.decl) and c.bb in b.live_blocks()]
        if not sites:
            continue
        R.fn(p)
        used = {c.bb: set() for c in sites}
        for o in _all_operand_origins(b):
            for nd in walk(o):
                y = None
                if nd[0] == "field" and nd[2] in ("0", "1") and isinstance(nd[1], tuple) and nd[1][0] == "field" and nd[1][2] == "0" \
                        and isinstance(nd[1][1], tuple) and nd[1][1][0] == "downcast":
                    y = nd[1][1][1]          # (opt as Some).0.k  /  (branch(..) as Continue).0.k
                elif nd[0] == "field" and nd[2] in ("0", "1") and isinstance(nd[1], tuple) and nd[1][0] == "call" and re.search(r"::(expect|unwrap|unwrap_unchecked|unwrap_or|unwrap_or_else|unwrap_or_default)$", nd[1][1]):
                    y = nd[1]                # opt.expect(..).k
                if y is not None:
                    for _ in range(6):
                        if y[0] == "call" and len(y) > 5 and y[5] in used and SPLITS.search(y[1]):
                            used[y[5]].add(nd[2])
                            break
                        if y[0] == "call" and WRAP.search(y[1]) and y[2]:
                            y = y[2][0]
                        elif y[0] in ("ref", "deref"):
                            y = y[-1]
                        else:
                            break
        for c in sites:
            n += 1
            ok = used[c.bb] >= {"0", "1"}
            R.ob("SPLIT-both", "%s: both halves of %s are examined" % (short(p), c.decl.split("::")[-1]), ok, True,
                 {"rule": "SPLIT-both", "fn": p, "loc": c.span.loc, "halves_read": sorted(used[c.bb]), "holds": ok})
            if not ok:
                R.violation("SPLIT-both", "%s/%s" % (p, c.decl.split("::")[-1]), "%s cuts its input with %s but never reads half %s: that part of the "
                            "input is accepted without being examined (garbage silently dropped)" % (short(p), c.decl.split("::")[-1], sorted({"0", "1"} - used[c.bb])), c.span.loc)
    R.floor("SPLIT-both", n, 3, "split_once/rsplit_once calls in the text parsers (ServiceAddr, IsdAsn, parse_socket_addr, parse_txt_payload)")


SPLIT_ITERS = re.compile(r"<impl str>::(split|rsplit|splitn|rsplitn|split_terminator|rsplit_terminator|split_whitespace|split_inclusive|split_ascii_whitespace)$")
WHOLE = re.compile(r"::(try_fold|fold|collect|count|last|for_each|try_for_each|all|any|into_iter|map|filter|enumerate|zip|rev|sum|max|min|eq|cmp)$")


def split_exhaust_rule(F, R, fns):
    """SPLIT-exhaust: "a string is accepted only if it is the displayed form of some value": a parser that takes fields off a
    split iterator with explicit next() calls must account for everything after the last field it takes — `splitn(k, ..)`
    with exactly k next() calls (the k-th field then carries the whole remainder and is parsed), or the iterator is consumed
    as a whole (fold/collect/loop).  An unbounded `split` read with two next() calls accepts and ignores any further fields."""
    n = 0
    for p in sorted(fns):
        b = F.body(p)
        if b is None or T.is_test_support(p):
            continue
        for c in b.calls:
            if c.indirect or not SPLIT_ITERS.search(c.decl) or c.bb not in b.live_blocks():
                continue
            uses = [cc for cc in b.calls if not cc.indirect and cc is not c and cc.args and cc.bb in b.live_blocks()
                    and any(x[0] == "call" and len(x) > 5 and x[5] == c.bb for x in walk(PN._peel_refs(b.origin(cc.args[0]))) if True)
                    and PN._peel_refs(strip_sites(b.origin(cc.args[0])))[0] == "call" and PN._peel_refs(strip_sites(b.origin(cc.args[0])))[1] == c.decl]
            nexts = [cc for cc in uses if cc.decl.endswith("Iterator::next")]
            whole = [cc for cc in uses if WHOLE.search(cc.decl)]
            if not nexts and not whole:
                continue
            n += 1
            R.fn(p)
            kind = c.decl.split("::")[-1]
            ok, why = False, ""
            if whole and not nexts:
                ok, why = True, "consumed as a whole (%s)" % sorted({cc.decl.split("::")[-1] for cc in whole})
            elif kind in ("splitn", "rsplitn"):
                k = PN.const_eval(PN.strip_casts(strip_sites(b.origin(c.args[1]))))
                ok = k is not None and len(nexts) == k
                why = "%s(%s) read with %d next() call(s)" % (kind, k, len(nexts))
            else:
                why = "unbounded %s read with %d next() call(s) and no whole-iterator consumer" % (kind, len(nexts))
            R.ob("SPLIT-exhaust", "%s: %s" % (short(p), why), ok, True, {"rule": "SPLIT-exhaust", "fn": p, "loc": c.span.loc, "detail": why, "holds": ok})
            if not ok:
                R.violation("SPLIT-exhaust", "%s/%s" % (p, kind), "%s takes fields off a split iterator without accounting for the rest (%s): trailing fields of the "
                            "input are accepted and ignored" % (short(p), why), c.span.loc)
    R.floor("SPLIT-exhaust", n, 2, "split iterators in the text parsers (Asn::from_str, parse_scion_addr)")


TRIM_REPEAT = re.compile(r"<impl str>::(trim_matches|trim_start_matches|trim_end_matches|trim_left_matches|trim_right_matches)$")
TRIM_WS = re.compile(r"<impl str>::(trim|trim_start|trim_end|trim_left|trim_right|trim_ascii|trim_ascii_start|trim_ascii_end)$")
TXT_PARSER = "scion_stack::resolver::txt::"


def trim_rule(F, R, fns):
    """TRIM-repeat / TRIM-ws: "no trailing or leading garbage is silently dropped".  `trim_*_matches(pat)` strips an unbounded
    repetition of `pat` ("CS_A_A_A" → "CS"), so strings that are the displayed form of no value are accepted; whitespace
    trimming is the documented tolerance of the DNS TXT record parser only (who-may-call), the sciparse text forms have none."""
    R.ob("TRIM-repeat", "positive control: the matcher recognises core::str::<impl str>::trim_end_matches and not strip_suffix",
         bool(TRIM_REPEAT.search("core::str::<impl str>::trim_end_matches")) and not TRIM_REPEAT.search("core::str::<impl str>::strip_suffix"), True)
    nws = 0
    examined = 0
    nrep = 0
    for p in sorted(fns):
        b = F.body(p)
        if b is None or T.is_test_support(p):
            continue
        examined += 1
        for c in b.calls:
            if c.indirect or c.bb not in b.live_blocks():
                continue
            nm = c.decl.split("::")[-1]
            if TRIM_REPEAT.search(c.decl):
                nrep += 1
                R.fn(p)
                R.ob("TRIM-repeat", "%s: no repeated-pattern trimming" % short(p), False, True, {"rule": "TRIM-repeat", "fn": p, "loc": c.span.loc, "holds": False})
                R.violation("TRIM-repeat", "%s/%s" % (p, nm), "%s strips an unbounded repetition of a pattern from its input with %s: strings with the "
                            "pattern repeated are accepted although they are the displayed form of no value" % (short(p), nm), c.span.loc)
            elif TRIM_WS.search(c.decl):
                nws += 1
                ok = p.startswith(TXT_PARSER)
                R.fn(p)
                R.ob("TRIM-ws", "%s: whitespace trimming only in the TXT record parser" % short(p), ok, True, {"rule": "TRIM-ws", "fn": p, "loc": c.span.loc, "holds": ok})
                if not ok:
                    R.violation("TRIM-ws", "%s/%s" % (p, nm), "%s drops leading/trailing whitespace of its input (%s): only the DNS TXT record parser "
                                "documents that tolerance" % (short(p), nm), c.span.loc)
    if not nrep:
        R.ob("TRIM-repeat", "no trim_*_matches call in the %d functions reachable from the text-form entry points" % examined, True, True)
    R.floor("TRIM-ws", nws, 1, "whitespace trims in the text parsers (parse_txt_payload)")
