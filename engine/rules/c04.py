"""C04 — path combination: ordering, de-duplication and truthful metadata (structural clauses only)."""
import re

import templates as T
import panic as PN
import facts as FX
from facts import tokens, fmt, short, walk, strip_sites, const_int

CRATES = ["sciparse", "scion_stack"]
EXPLANATION = (
    "Static rules over the MIR of the path combinator.  The result-set equality with the SCION combination rules is a value "
    "clause and is NOT decided.  Decided necessary conditions of the other clauses: (SORT-cost) get_paths returns the vector it "
    "sorted with a comparator whose first key is the solution cost and second the number of edges ('cheapest first'); "
    "(ORDER-stable) nothing after the sort reorders: combine_with_weight_fn only filter_map/filter/collects and filter_duplicates "
    "only pushes to / overwrites in place the result vector; (ORDER-dedup, shared with C19) loop filter before de-duplication, "
    "de-duplication last ('each once, none visiting an AS twice'); (DEDUP-latest) a duplicate replaces the kept path only when "
    "its expiry is strictly later; (META-mtu) the MTU written into the metadata is a running minimum that starts at u16::MAX "
    "and is only ever lowered by min(mtu, x) with x one of peer_mtu / ingress_mtu / the AS MTU, all three present, the AS MTU "
    "unconditionally per traversed AS entry; (META-expiry) the metadata expiry is StandardPath::expiration() of the very path "
    "that is encoded (its per-segment minimum is C12's SIB-expiry); (META-order) hop fields and interface list of a segment are "
    "reversed together, under the same condition, so the list stays in travel order; each listed interface is (as_entry.local, "
    "cons_egress/cons_ingress of the hop field that is pushed); (META-ends) source/destination are the first and last listed "
    "interface's AS; (COST-peer-once) the two directed edges of a peering link carry the extra link exactly once (towards_peer true "
    "leaving the AS, false arriving); (SEQ, shared with C19 DEPTH) at most three segments; (IDX-peer, shared with C19) peer index positions.")
EXPLANATION_ADD5 = ' Round-5 additions: (LOOP-cover) has_loops reads a representative interface of every AS of the path — the adaptor chain between the interface list and its consumer is executed on model lists of 2..12 entries (iter/skip/step_by/chain) and must cover index 0 (source), the last index (destination) and one index of every transit pair; if it counts per AS the threshold is > 2; (KEY-eq) InputSegment::eq, the edge-map key equality, compares the wrapped PathSegment of both variants (the SegmentID covers neither timestamp nor peer entries).'
EXPLANATION = EXPLANATION + EXPLANATION_ADD5
RESIDUAL = [
    "soundness/completeness of the graph search against the SCION combination rules (which joins, shortcuts and peerings exist): values",
    "numeric correctness of weights; that the minimum over the named sources equals the true path MTU for every topology",
]
ASSUMPTIONS = ["Vec::sort_by is a stable total sort for a consistent comparator; iterator adaptors filter/filter_map/collect preserve order"]
TECHNIQUE = "dataflow / dominance / who-may-call rules over MIR of the combinator (SORT, ORDER, META, DEDUP templates)"

COMB = "sciparse::scion::path::combinator::"
G = COMB + "graph::"
GET_PATHS = G + "MultiGraph::<'a, F, EntryType>::get_paths"
PATHFN = G + "PathSolution::<'a, EntryType>::path"
DEDUP = COMB + "filter_duplicates"
REORDER = re.compile(r"::(sort\w*|reverse|swap|swap_remove|rotate_\w+|insert|dedup\w*|retain\w*|drain|truncate|remove|shuffle)$")


def _closures_in(t):
    return [x[1][1] for x in walk(t) if x[0] == "agg" and isinstance(x[1], tuple) and len(x[1]) > 1 and "{closure#" in str(x[1][1])]


def sort_rule(F, R):
    b = F.body(GET_PATHS)
    if b is None:
        R.anchor_missing(GET_PATHS)
        return
    R.fn(GET_PATHS)
    sorts = [c for c in b.calls if not c.indirect and re.search(r"::(sort_by|sort_unstable_by|sort_by_key|sort_by_cached_key)$", c.decl) and c.bb in b.live_blocks()]
    rets = [x for x in b.live_blocks() if b.term(x)[0] == "ret"]
    ok, why = False, "no sort_by over the solutions"
    for c in sorts:
        # the sorted vector is the returned local
        tgt = PN._peel_refs(strip_sites(b.origin(c.args[0])))
        ro = strip_sites(b.local_origin(0))
        same = any(PN._peel_refs(a) == PN._peel_refs(x) for a in ([ro] + (list(ro[1]) if ro[0] == "phi" else [])) for x in [tgt] + [n for n in walk(tgt)][:3] if isinstance(a, tuple))
        dom = all(b.dominates(c.bb, r) for r in rets)
        cl = _closures_in(b.origin(c.args[1]))
        first_keys = []
        if cl and F.has_body(cl[0]):
            qb = F.body(cl[0])
            cmps = sorted([cc for cc in qb.calls if not cc.indirect and re.search(r"::(Ord::cmp|cmp)$", cc.decl) and cc.bb in qb.live_blocks()], key=lambda x: x.bb)
            for cc in cmps[:2]:
                ta, tb = tokens(qb.origin(cc.args[0])), tokens(qb.origin(cc.args[1]))
                key = "cost" if ("field:cost" in ta and "field:cost" in tb) else ("edges.len" if ("field:edges" in ta and "field:edges" in tb) else "?")
                sides = ("param:2" in ta and "param:3" in tb)
                first_keys.append((key, sides))
        good_keys = len(first_keys) >= 2 and first_keys[0] == ("cost", True) and first_keys[1] == ("edges.len", True)
        ok = dom and good_keys
        why = "sort dominates return: %s; comparator keys in order: %s" % (dom, first_keys)
    R.ob("SORT-cost", "get_paths: solutions sorted by (cost, #edges, …) before being returned [%s]" % why[:80], ok, True,
         {"rule": "SORT-cost", "fn": GET_PATHS, "detail": why, "holds": ok})
    if not ok:
        R.violation("SORT-cost", GET_PATHS, "the solutions are not returned in ascending (cost, number of edges) order (%s): 'cheapest first' is lost" % why, F.loc(GET_PATHS))


def stable_rule(F, R):
    """after the sort nothing reorders"""
    n = 0
    p = COMB + "combine_with_weight_fn"
    b = F.body(p)
    if b is None:
        R.anchor_missing(p)
    else:
        R.fn(p)
        bad = [c for c in b.calls if not c.indirect and REORDER.search(c.decl) and c.bb in b.live_blocks()
               and not c.decl.endswith("::retain")]        # retain keeps relative order (ORDER-dedup decides whether it is allowed at all)
        gp = [c.bb for c in b.calls if not c.indirect and c.decl.endswith("::get_paths")]
        bad = [c for c in bad if gp and any(b.dominates(g0, c.bb) for g0 in gp)]
        n += 1
        ok = not bad and bool(gp)
        R.ob("ORDER-stable", "combine_with_weight_fn: no reordering call after get_paths", ok, True)
        if not ok:
            R.violation("ORDER-stable", p, "the combinator reorders the sorted solutions after get_paths (%s)" % [short(c.decl) for c in bad], F.loc(p))
    b = F.body(DEDUP)
    if b is None:
        R.anchor_missing(DEDUP)
    else:
        R.fn(DEDUP)
        ro = PN._peel_refs(strip_sites(b.local_origin(0)))
        # calls taking the returned vector mutably
        muts = []
        for c in b.calls:
            if c.indirect or not c.args or c.bb not in b.live_blocks():
                continue
            a0 = strip_sites(b.origin(c.args[0]))
            base = a0
            while base[0] in ("ref", "deref") or (base[0] == "call" and re.search(r"::(deref_mut|deref|as_mut_slice)$", base[1]) and base[2]):
                base = base[-1] if base[0] in ("ref", "deref") else base[2][0]
            if base == ro or (ro[0] == "call" and base == ro):
                muts.append(c)
        names = sorted({c.decl.split("::")[-1] for c in muts})
        bad = [c for c in muts if REORDER.search(c.decl)]
        n += 1
        ok = not bad and any(c.decl.endswith("::push") for c in muts)
        R.ob("ORDER-stable", "filter_duplicates: the result vector is only pushed to / overwritten in place (%s)" % names, ok, True,
             {"rule": "ORDER-stable", "fn": DEDUP, "methods_on_result": names, "holds": ok})
        if not ok:
            R.violation("ORDER-stable", DEDUP, "filter_duplicates reorders its result (%s): the cost order established by get_paths is lost" % names, F.loc(DEDUP))
        # DEDUP-latest: overwrite only under new_expiration > current_expiration
        idxw = [c for c in b.calls if not c.indirect and c.decl.endswith("IndexMut::index_mut") and c.bb in b.live_blocks()]
        okl = bool(idxw)
        for c in idxw:
            g_ok = False
            for g, cond, pol in PN._cmp_guards(b, c.bb):
                nn = PN._norm_cmp(cond, pol)
                if nn and nn[0] in ("Gt", "Lt"):
                    ta, tb = tokens(nn[1]), tokens(nn[2])
                    new_side, cur_side = (ta, tb) if nn[0] == "Gt" else (tb, ta)
                    if any(t.endswith("::expiration") for t in new_side) and any(t.endswith("::get_mut") or "Occupied" in t for t in cur_side):
                        g_ok = True
            okl = okl and g_ok
        R.ob("DEDUP-latest", "filter_duplicates: a duplicate replaces the kept path only if its expiry is strictly later", okl, True)
        if not okl:
            R.violation("DEDUP-latest", DEDUP, "a duplicate path can replace the kept one without having the later expiry", F.loc(DEDUP))
    R.floor("ORDER-stable", n, 2, "combine_with_weight_fn, filter_duplicates")


def meta_rules(F, R):
    b = F.body(PATHFN)
    if b is None:
        R.anchor_missing(PATHFN)
        return
    R.fn(PATHFN)
    # ---- META-mtu
    mt = [l for l in range(b.nlocals) if b.local_name(l) == "mtu"] if hasattr(b, "nlocals") else []
    if not mt:
        mt = [l for l in range(400) if _lname(b, l) == "mtu"]
    srcs = set()
    ok = bool(mt)
    detail = []
    min_calls = []
    for l in mt[:1]:
        for dd in b.defs.get(l, ()):
            if dd[0] != "assign" or dd[3]:
                ok = False
                detail.append("non-assignment definition of mtu")
                continue
            o = strip_sites(b._rvalue_origin(dd[4], FX.DEPTH, None))
            if PN.const_eval(o) == 65535:
                continue
            if o[0] == "call" and re.search(r"(cmp::min|Ord::min)$", o[1]) and len(o[2]) == 2:
                tk = [tokens(x) for x in o[2]]
                other = None
                for x, t in zip(o[2], tk):
                    if not (x[0] == "loop" or x[0] == "phi" or ("const:core::num::<impl u16>::MAX" in t and len(t) < 4)):
                        other = t
                hit = [s for s in ("field:peer_mtu", "field:ingress_mtu", "field:mtu") if other and s in other]
                if hit:
                    srcs.add(hit[0])
                    continue
            ok = False
            detail.append("mtu := %s" % fmt(o, 80))
    ok = ok and srcs == {"field:peer_mtu", "field:ingress_mtu", "field:mtu"}
    # the AS MTU update is unconditional per entry: its call block post-dominates the loop body entry — approximated: it is not
    # control-dependent on any comparison involving mtu sources (no guard mentions ingress_mtu / peer / shortcut)
    as_min = [c for c in b.calls if not c.indirect and re.search(r"(cmp::min|Ord::min)$", c.decl) and "field:mtu" in tokens(b.origin(c.args[1])) and c.bb in b.live_blocks()]
    uncond = bool(as_min)
    for c in as_min:
        for g, cond, pol in PN._cmp_guards(b, c.bb):
            tk = tokens(cond)
            if "field:ingress_mtu" in tk or "field:peer" in tk or "field:shortcut_idx" in tk:
                uncond = False
    ok = ok and uncond
    R.ob("META-mtu", "metadata MTU = running min from u16::MAX over {peer_mtu, ingress_mtu, AS mtu}; AS mtu unconditional (%s)" % sorted(srcs), ok, True,
         {"rule": "META-mtu", "fn": PATHFN, "sources": sorted(srcs), "as_mtu_unconditional": uncond, "other_definitions": detail, "holds": ok})
    if not ok:
        R.violation("META-mtu", PATHFN, "the path MTU is not the running minimum over peer MTU, ingress MTU and AS MTU (sources %s, AS MTU unconditional: %s, %s): "
                    "the metadata can announce an MTU larger than a traversed AS or link supports" % (sorted(srcs), uncond, detail), F.loc(PATHFN))
    # ---- metadata aggregate
    metas = []
    for bb in sorted(b.live_blocks()):
        for st in b.stmts(bb):
            if st[0] == "=" and st[2][0] == "agg" and st[2][1][0] == "adt" and st[2][1][1].endswith("metadata::PathMetadata"):
                metas.append((bb, st))
    R.floor("META", len(metas), 1, "PathMetadata construction in PathSolution::path")
    for bb, st in metas:
        names = st[2][1][4] if len(st[2][1]) > 4 else []
        ops = dict(zip(names, st[2][2]))
        oe = strip_sites(b.origin(ops["expiration"])) if "expiration" in ops else ("top",)
        exp_calls = [n for n in walk(oe) if n[0] == "call" and n[1].endswith("StandardPath::expiration")]
        enc = [c for c in b.calls if not c.indirect and c.decl.endswith("::try_encode_to_vec")]
        same_path = bool(exp_calls) and bool(enc) and PN._peel_refs(strip_sites(b.origin(enc[0].args[0]))) == PN._peel_refs(exp_calls[0][2][0])
        R.ob("META-expiry", "metadata.expiration = StandardPath::expiration() of the path that is encoded", same_path, True)
        if not same_path:
            R.violation("META-expiry", PATHFN, "the metadata expiry is not the expiration() of the encoded path: %s" % fmt(oe, 120), b.span_of(st[3]).loc)
        om = strip_sites(b.origin(ops["mtu"])) if "mtu" in ops else ("top",)
        is_mtu = mt and any(True for _ in [0]) and ("const:core::num::<impl u16>::MAX" in tokens(om) or PN.const_eval(om) == 65535 or "fn:core::cmp::min" in tokens(om))
        R.ob("META-mtu", "metadata.mtu is the running minimum", bool(is_mtu), True)
        if not is_mtu:
            R.violation("META-mtu", PATHFN + "/field", "metadata.mtu is not the computed minimum: %s" % fmt(om, 100), b.span_of(st[3]).loc)
    # ---- META-order: hops.reverse() and segment_interfaces.reverse() under the same guard
    revs = [c for c in b.calls if not c.indirect and c.decl.endswith("::reverse") and c.bb in b.live_blocks()]
    gsets = []
    for c in revs:
        gs = sorted((g, pol) for g, cond, pol in PN._cmp_guards(b, c.bb) if any(t.endswith("::is_some_and") or t.endswith("::last_ia") for t in tokens(cond)))
        gsets.append(gs)
    ok = len(revs) == 2 and gsets[0] == gsets[1] and bool(gsets[0])
    R.ob("META-order", "hop fields and interface list of a segment are reversed together (same condition)", ok, True,
         {"rule": "META-order", "reverse_calls": len(revs), "guards": [str(g) for g in gsets], "holds": ok})
    if not ok:
        R.violation("META-order", PATHFN, "hop fields and the interface list are not reversed under the same condition (%d reverse calls, guards %s): the "
                    "interface list no longer names the links in travel order" % (len(revs), gsets), F.loc(PATHFN))
    # ---- META-if: every PathInterface pushed is {as_entry.local, hopfield.cons_egress|cons_ingress}
    n_if = 0
    for bb in sorted(b.live_blocks()):
        for st in b.stmts(bb):
            if st[0] == "=" and st[2][0] == "agg" and st[2][1][0] == "adt" and st[2][1][1].endswith("::PathInterface"):
                names = st[2][1][4] if len(st[2][1]) > 4 else []
                ops = dict(zip(names, st[2][2]))
                ia, idv = tokens(b.origin(ops.get("isd_asn"))), tokens(b.origin(ops.get("id")))
                n_if += 1
                ok = "field:local" in ia and ("field:cons_egress" in idv or "field:cons_ingress" in idv)
                R.ob("META-if", "PathInterface{as_entry.local, hopfield.cons_*}", ok, True)
                if not ok:
                    R.violation("META-if", PATHFN + "/iface%d" % n_if, "a listed interface is not (local AS of the entry, interface id of its hop field)", b.span_of(st[3]).loc)
    R.floor("META-if", n_if, 2, "PathInterface constructions in PathSolution::path")
    # ---- META-ends
    news = [c for c in b.calls if not c.indirect and c.decl.endswith("ScionPath::new") and c.bb in b.live_blocks()]
    ok = bool(news)
    for c in news:
        t0, t1 = tokens(b.origin(c.args[0])), tokens(b.origin(c.args[1]))
        ok = ok and any(t.endswith("::first") for t in t0) and any(t.endswith("::last") for t in t1) and "field:isd_asn" in t0 and "field:isd_asn" in t1
    R.ob("META-ends", "ScionPath::new(first interface's AS, last interface's AS, …)", ok, True)
    if not ok:
        R.violation("META-ends", PATHFN + "/ends", "source/destination of the returned path are not the first/last listed interface's AS", F.loc(PATHFN))


def _lname(b, l):
    try:
        return b.local_name(l)
    except Exception:
        return None


def run(F, R, tier, cfg):
    import c19
    sort_rule(F, R)
    stable_rule(F, R)
    c19.order_rule(F, R)
    c19.enum_index_rule(F, R)
    c19.depth_rule(F, R)
    meta_rules(F, R)
    peer_cost_rule(F, R)
    loop_cover_rule(F, R)
    key_eq_rule(F, R)
    segment_eq_rule(F, R)


HAS_LOOPS = "sciparse::scion::path::combinator::has_loops"
ISEG_EQ = "<sciparse::scion::path::combinator::graph::InputSegment<'a, EntryType> as core::cmp::PartialEq>::eq"


def _apply_chain(t, L):
    """index list an iterator-adaptor chain over the interface list yields for a list of length L; None = unknown adaptor"""
    t = _nrf(t)
    if t[0] == "call":
        nm = t[1]
        a = t[2]
        if nm.endswith("::into_iter") or re.search(r"(slice::<impl \[T\]>|Vec<T, A>|Vec::<T, A>)::iter$", nm) or nm.endswith("<impl [T]>::iter"):
            if "field:interfaces" in tokens(a[0]) and not any(x[0] == "call" and re.search(r"::(skip|step_by|take|filter|rev|chain|skip_while|take_while)$", x[1]) for x in walk(a[0])):
                return list(range(L))
            return _apply_chain(a[0], L)
        if nm.endswith("Iterator::skip") or nm.endswith("Iterator::step_by"):
            src = _apply_chain(a[0], L)
            k = _nrf(a[1])[1] if len(a) > 1 and _nrf(a[1])[0] == "lit" and isinstance(_nrf(a[1])[1], int) else None
            if src is None or k is None:
                return None
            return src[k:] if nm.endswith("skip") else (src[::k] if k > 0 else None)
        if nm.endswith("Iterator::chain"):
            x, y = _apply_chain(a[0], L), _apply_chain(a[1], L)
            return None if x is None or y is None else x + y
        if nm.endswith("Iterator::rev") or nm.endswith("Iterator::by_ref") or nm.endswith("Iterator::enumerate") or nm.endswith("Iterator::peekable"):
            return _apply_chain(a[0], L)
    return None


def _nrf(t):
    while isinstance(t, tuple) and t and t[0] in ("ref", "deref"):
        t = t[2] if t[0] == "ref" else t[1]
    return t


def loop_cover_rule(F, R):
    """LOOP-cover: "none visiting an AS twice".  has_loops decides from the path's interface list [src_eg, A_in, A_eg, ...,
    dst_in]: the source AS appears only at index 0, the destination only at the last index, every transit AS at one odd and
    the following even index.  Whatever the implementation, the set of list positions it reads must contain a representative
    of every AS on the path; positions are obtained by executing the adaptor chain (iter / skip / step_by / chain) between
    the list and its consumer on model lists of 2..12 entries.  A scan that leaves index 0 out cannot see a path that
    returns to its source AS.  If the implementation counts per AS (`entry().or_insert(0) += 1` then `any(count > K)`), K
    must be 2.  Chains with other adaptors are not decided."""
    b = F.body(HAS_LOOPS)
    if b is None:
        R.anchor_missing(HAS_LOOPS)
        return
    R.fn(HAS_LOOPS)
    consumers = [c for c in b.calls if c.callee and re.search(r"Iterator>?::(next|any|all|fold|try_fold|for_each|find|position|count)$", c.callee)
                 and c.args and "field:interfaces" in tokens(b.origin(c.args[0]))]
    if not consumers:
        R.ob("LOOP-cover", "has_loops: no recognised iterator consumer over the interface list — not decided", True, False)
        return
    for c in consumers:
        chain = strip_sites(b.origin(c.args[0]))
        verdict = "ok"
        for L in (2, 4, 6, 8, 10, 12):
            idx = _apply_chain(chain, L)
            if idx is None:
                verdict = "undecided"
                break
            s = set(idx)
            missing = []
            if 0 not in s:
                missing.append("source AS (index 0)")
            if L - 1 not in s:
                missing.append("destination AS (last index)")
            for k in range(1, L // 2):
                if (2 * k - 1) not in s and (2 * k) not in s:
                    missing.append("transit AS #%d" % k)
            if missing:
                verdict = "misses " + ", ".join(missing[:3]) + " on a %d-interface path" % L
                break
        ok = not verdict.startswith("misses")
        R.ob("LOOP-cover", "has_loops reads a representative interface of every AS on the path (%s)" % verdict, ok, verdict == "ok",
             {"rule": "LOOP-cover", "chain": fmt(chain, 200), "verdict": verdict})
        if not ok:
            R.violation("LOOP-cover", HAS_LOOPS + "/cover", "has_loops scans the interface list through %s, which %s: a path visiting that AS "
                        "twice is not recognised as a loop and is returned by combine" % (fmt(chain, 160), verdict), c.span.loc)
    # counting form: threshold
    if any(c.callee and c.callee.endswith("Entry::<'a, K, V, A>::or_insert") for c in b.calls):
        for c in b.calls:
            if c.callee and c.callee.endswith("Iterator::any") and "values" in fmt(b.origin(c.args[0]), 200):
                o = strip_sites(b.origin(c.args[1]))
                if o[0] == "agg" and o[1][0] == "closure" and F.body(o[1][1]) is not None:
                    cb = F.body(o[1][1])
                    cmpk = []
                    for bb in cb.live_blocks():
                        for st in cb.stmts(bb):
                            if st[0] == "=" and st[2][0] == "bin" and st[2][1] in ("Gt", "Ge", "Lt", "Le"):
                                kr, kl = const_int(st[2][3]), const_int(st[2][2])
                                if kr is not None:
                                    cmpk.append((st[2][1], kr))
                                elif kl is not None:      # constant on the left: mirror
                                    cmpk.append(({"Lt": "Gt", "Le": "Ge", "Gt": "Lt", "Ge": "Le"}[st[2][1]], kl))
                    if len(cmpk) != 1 or cmpk[0][0] not in ("Gt", "Ge"):
                        R.ob("LOOP-cover", "has_loops: count predicate %s not recognised — not decided" % cmpk, True, False)
                        continue
                    ok = cmpk in ([("Gt", 2)], [("Ge", 3)])
                    R.ob("LOOP-cover", "has_loops: per-AS interface count threshold is > 2", ok, True, {"rule": "LOOP-cover", "cmp": cmpk})
                    if not ok:
                        R.violation("LOOP-cover", HAS_LOOPS + "/threshold", "has_loops flags a loop for per-AS interface counts %s instead of > 2 "
                                    "(an AS contributes at most 2 interfaces to a loop-free path)" % cmpk, c.span.loc)


def key_eq_rule(F, R):
    """KEY-eq: the combinator's edge maps are keyed by InputSegment; `add_directed_edge` inserts one entry per key, so two
    distinct segments comparing equal collapse into one entry (the first segment with the last edge).  Equality must
    therefore compare the wrapped PathSegment itself (field 0 of both variants) — the SegmentID covers neither the
    timestamp nor the peer entries, so a refreshed beacon over the same hops is a different segment with the same id."""
    cands = F.find_fns(lambda q: re.match(r"<sciparse::scion::path::combinator::graph::InputSegment<.*> as core::cmp::PartialEq>::eq$", q))
    if len(cands) != 1 or F.body(cands[0]) is None:
        R.anchor_missing(ISEG_EQ)
        return
    b = F.body(cands[0])
    R.fn(cands[0])
    adt = [a for k, a in F.adts.items() if k.endswith("combinator::graph::InputSegment")]
    vnames = sorted(v[0] for v in adt[0]["variants"]) if adt else []
    if vnames != ["Core", "NonCore"]:
        R.ob("KEY-eq", "InputSegment is no longer the two-variant enum (variants %s) — not decided" % vnames, True, False)
        return
    for V in ("Core", "NonCore"):
        ok = False
        for c in b.calls:
            if not c.callee or not re.search(r"(::eq|::ptr_eq|::ne)$", c.callee) or len(c.args) < 2:
                continue
            l, r = fmt(strip_sites(b.origin(c.args[0])), 200), fmt(strip_sites(b.origin(c.args[1])), 200)
            if ("param#1 as %s).0" % V) in l and ("param#2 as %s).0" % V) in r or ("param#2 as %s).0" % V) in l and ("param#1 as %s).0" % V) in r:
                ok = True
        R.ob("KEY-eq", "InputSegment::eq compares the wrapped segments of two %s keys" % V, ok, True)
        if not ok:
            R.violation("KEY-eq", ISEG_EQ + "/" + V, "InputSegment::eq does not compare the wrapped PathSegment of %s keys: two different segments "
                        "with the same hops (a refreshed beacon, different peer entries) share one edge-map key and add_directed_edge keeps "
                        "the first segment with the last edge" % V, F.loc(cands[0]))


def _struct_eq_fields(F, p):
    """fields f for which the eq body compares param#1.f with param#2.f (call to an eq/ne or a primitive Eq/Ne)"""
    b = F.body(p)
    got = set()
    pairs = []
    for c in b.calls:
        if c.callee and re.search(r"::(eq|ne)$", c.callee) and len(c.args) >= 2:
            pairs.append((strip_sites(b.origin(c.args[0])), strip_sites(b.origin(c.args[1]))))
    for bb in sorted(b.live_blocks()):
        for st in b.stmts(bb):
            if st[0] == "=" and st[2][0] == "bin" and st[2][1] in ("Eq", "Ne"):
                pairs.append((strip_sites(b.origin(st[2][2])), strip_sites(b.origin(st[2][3]))))
    for (l, r) in pairs:
        fl = {x[2] for x in walk(l) if x[0] == "field" and _nrf(x[1]) in (("param", 1), ("param", 2))}
        fr = {x[2] for x in walk(r) if x[0] == "field" and _nrf(x[1]) in (("param", 1), ("param", 2))}
        pl = {_nrf(x[1]) for x in walk(l) if x[0] == "field" and _nrf(x[1]) in (("param", 1), ("param", 2))}
        pr = {_nrf(x[1]) for x in walk(r) if x[0] == "field" and _nrf(x[1]) in (("param", 1), ("param", 2))}
        if pl and pr and pl != pr:
            got |= (fl & fr)
    return got


def segment_eq_rule(F, R):
    """KEY-eq (continued): the wrapped comparison is PathSegment::eq; it and SegmentInfo::eq compare every field of their
    struct (timestamp, segment id, encoded info, AS entries) — an equality that skips the timestamp or the entries merges a
    refreshed beacon with the old one in the edge maps exactly as an id-only key would."""
    for ty, pat in (("sciparse::scion::segment::PathSegment", r"<sciparse::scion::segment::PathSegment<.*> as core::cmp::PartialEq>::eq$"),
                    ("sciparse::scion::segment::SegmentInfo", r"<sciparse::scion::segment::SegmentInfo as core::cmp::PartialEq>::eq$")):
        cands = F.find_fns(lambda q: re.match(pat, q))
        a = F.adts.get(ty)
        if len(cands) != 1 or F.body(cands[0]) is None or not a:
            R.anchor_missing(ty + " PartialEq::eq")
            continue
        R.fn(cands[0])
        fields = [f[0] for f in a["variants"][0][2]]
        got = _struct_eq_fields(F, cands[0])
        missing = [f for f in fields if f not in got]
        R.ob("KEY-eq", "%s::eq compares every field %s" % (ty.rsplit("::", 1)[1], fields), not missing, True,
             {"rule": "KEY-eq", "fn": cands[0], "fields": fields, "compared": sorted(got)})
        if missing:
            R.violation("KEY-eq", cands[0] + "/fields", "%s::eq does not compare %s: segments differing only there are one key of the combinator's "
                        "edge maps (first segment kept, last edge kept)" % (ty.rsplit("::", 1)[1], missing), F.loc(cands[0]))


ADD_NC = G + "MultiGraph::<'a, F, EntryType>::add_non_core_segment"


def peer_cost_rule(F, R):
    """COST-peer-once: "cheapest (fewest hops) first": a peering link is one link of the path; the two directed graph edges that
    model its use carry the extra link exactly once — the edge leaving the AS towards the peering vertex is weighted with
    towards_peer = true, the edge arriving from the peering vertex with towards_peer = false.  Two `true`s price every peering
    path one link too high, two `false`s one too low, and the sort by cost then misorders peering against non-peering paths."""
    b = F.body(ADD_NC)
    if b is None:
        R.anchor_missing(ADD_NC)
        return
    R.fn(ADD_NC)
    seen = []
    for c in b.calls:
        if c.indirect or not (c.decl or "").endswith("::add_directed_edge") or c.bb not in b.live_blocks():
            continue
        e = strip_sites(b.origin(c.args[4]))
        src = strip_sites(b.origin(c.args[1]))
        if e[0] != "agg" or len(e[2]) < 3:
            continue
        peer = e[2][2]
        if not (peer[0] == "agg" and peer[1][2] == "Some"):
            continue
        w = e[2][0]
        flag = None
        if w[0] == "call" and w[1].endswith("Fn::call") and len(w[2]) == 2 and w[2][1][0] == "agg" and len(w[2][1][2]) == 3:
            flag = PN.const_eval(w[2][1][2][2])
        from_as = src[0] == "agg" and src[1][2] == "AS"
        seen.append((from_as, flag))
    ok = sorted(seen, key=str) == sorted([(True, 1), (False, 0)], key=str)
    R.ob("COST-peer-once", "peering edges: AS->peering weighted with towards_peer=true, peering->AS with false (%s)" % seen, ok, True,
         {"rule": "COST-peer-once", "fn": ADD_NC, "edges": [{"from_as": a, "towards_peer": f} for a, f in seen], "holds": ok})
    if not ok:
        R.violation("COST-peer-once", ADD_NC, "the two directed edges of a peering link do not carry the extra link exactly once (from-AS/towards_peer pairs: %s): "
                    "peering paths are mispriced and the cost order of the result is wrong" % seen, F.loc(ADD_NC))
