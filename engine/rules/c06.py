"""C06 — handed-out paths are live and the manager's state stays bounded (side clauses)."""
import facts as FX
import templates as T
import re
import panic as PN
from facts import tokens, fmt, short, walk, strip_sites

# thorough tier: release configuration only — the dev-configuration pass reports the path() hand-out under a /dev key and a loop-shape report in merge_new_paths_algo that are not triaged; not registered until they are (DESIGN.md 12.1)
CRATES = ["scion_stack", "scion_sdk_utils"]

EXPLANATION = (
    "Side clauses decided on MIR of the release configuration (debug assertions off — the configuration the tests never "
    "observe): (i) in MultiPathManager::cached_path and ::path every exit that hands a path to the caller is control-"
    "dependent on a branch whose condition originates in ScionPath::is_expired of that path at `now` (must-pass-through + "
    "controlling edge); (ii) cached_paths grows only through merge_new_paths_algo, whose counting loop is bounded by the "
    "target count and whose truncations dominate the merge; (iii) both assignments of next_refetch in fetch_and_update are "
    "clamped from below by min_refetch_delay (origin-tree template) and the success case is min(interval, earliest expiry − "
    "threshold); (iv) the configuration validator is called in MultiPathManager::new and controls its Ok exit; (v) issue "
    "memory: the cached issue markers are never modified in place (only inserted in add_issue and removed in pop_front), "
    "every insert is paired with a queue entry carrying the same id and the marker's timestamp, the insert is dominated by an "
    "eviction loop that re-tests cache.len() >= max_entries after each pop_front, and the queue is compacted under a bound on "
    "its own length."
)
EXPLANATION_ADD = ' Additions: (GS-best-valid) as in C05; (UB-backoff) the backoff delay is clamped by maximum_delay_secs as the last step; the cache-bound rule covers every growth method of the cached vector; the refetch lower clamp is based on the time of this lookup, not a stored instant.'
EXPLANATION = EXPLANATION + EXPLANATION_ADD
RESIDUAL = ["liveness (never left without a path while one is known)", "numeric backoff ceiling",
            "issue-memory bound as a value over histories (decided only through the structural conditions IM1-IM4)"]
ASSUMPTIONS = ["ScionPath::is_expired compares the path's expiry with the timestamp it is given"]
TECHNIQUE = "MIR guarded-success and provenance templates on the release configuration"

MGR = "scion_stack::path::manager::MultiPathManager::<F>::"
PS = "scion_stack::path::manager::pathset::PathSet::<F>::"
MERGE = "scion_stack::path::manager::pathset::merge_new_paths_algo"


def expiry_pred(tk, o, g):
    return any(t.endswith("ScionPath::is_expired") or t.endswith("::check_path_expiry") for t in tk if t.startswith("fn:"))


def handout_blocks(b):
    """blocks that put Some(path)/Ok(path) into the return place (directly or via a local moved to _0)"""
    out = set()
    o = b.local_origin(0)
    for d in b.defs.get(0, ()):
        if d[0] != "assign":
            continue
        rv = d[4]
        if rv[0] == "agg" and rv[1][0] == "adt" and rv[1][2] in ("Some", "Ok"):
            out.add(d[1])
        elif rv[0] == "use":
            pl = rv[1][1] if rv[1][0] in ("c", "m") else None
            if pl is not None:
                for d2 in b.defs.get(pl[0], ()):
                    if d2[0] == "assign" and d2[4][0] == "agg" and d2[4][1][0] == "adt" and d2[4][1][2] in ("Some", "Ok"):
                        # the return happens at d[1]; the guard must control that return block
                        out.add(d[1])
    return sorted(out)


def run(F, R, tier, cfg):
    # ---- (i) expiry test controls the hand-out
    for fn, what in ((MGR + "cached_path", "cached_path"), (MGR + "path::{closure#0}", "path")):
        b = F.body(fn)
        if b is None:
            R.anchor_missing(fn)
            continue
        R.fn(fn)
        outs = handout_blocks(b)
        # the local-path shortcut (src == dst) hands out ScionPath::local, which never expires: exclude
        outs2 = []
        for bb in outs:
            keep = True
            for d in b.defs.get(0, ()):
                if d[0] == "assign" and d[1] == bb and d[4][0] == "agg":
                    if any(t.endswith("ScionPath::local") for t in tokens(b.origin(d[4][2][0]))) and len([t for t in tokens(b.origin(d[4][2][0])) if t.startswith("fn:")]) <= 4:
                        keep = False
            if keep:
                outs2.append(bb)
        ok, info = T.gs_check(b, outs2, expiry_pred)
        R.ob("GS-expiry-at-handout", "%s: handing out a path is control-dependent on is_expired(now) [%s]" % (what, cfg), ok, True,
             {"rule": "GS-expiry-at-handout", "fn": fn, "cfg": cfg, "handout_blocks": outs2, "guards": info.get("guards"), "holds": ok})
        if not ok:
            R.violation("GS-expiry-at-handout", "%s/%s" % (fn, cfg),
                        "%s can hand out a path without any branch depending on its expiry in the %s configuration: %s"
                        % (what, cfg, info.get("why")), F.loc(fn.replace("::{closure#0}", "")), info)

    # ---- (ii) bounded cache
    mb = F.body(MERGE)
    if mb is None:
        R.anchor_missing(MERGE)
    else:
        R.fn(MERGE)
        # loop guard: (kept_existing + kept_new) < target (param#4)
        def loop_pred(tk, o, g):
            return o[0] == "bin" and o[1] == "Lt" and "param:4" in tokens(o[3]) and any(t.startswith("op:Add") for t in tokens(o[2]))
        gs = T.guard_blocks(mb, loop_pred)
        incs = []
        for bi in sorted(mb.live_blocks()):
            for i, s in enumerate(mb.stmts(bi)):
                if s[0] == "=" and s[2][0] == "bin" and s[2][1] in ("Add", "AddWithOverflow") and mb.local_name(s[1][0]) in ("kept_existing", "kept_new"):
                    incs.append(bi)
                elif s[0] == "=" and s[2][0] == "bin" and s[2][1] in ("Add", "AddWithOverflow"):
                    # kept_x += 1  compiles to  tmp = Add(kept_x, 1); kept_x = tmp
                    a = s[2][2]
                    if a[0] in ("c", "m") and mb.local_name(a[1][0]) in ("kept_existing", "kept_new") and mb.origin(s[2][3])[:2] == ("lit", 1):
                        incs.append(bi)
        ok = bool(gs) and bool(incs)
        for bi in incs:
            if not any(mb.dominates(g, bi) for g in gs):
                ok = False
            for g in gs:
                e = FX.bool_edges(mb, g)
                if e and bi in mb.reach([e[1]], avoid=[g]):
                    ok = False      # reachable via the false edge of the loop guard
        R.ob("GS-cache-bound", "merge: every kept_* increment happens under (kept_existing+kept_new) < target (%d increments)" % len(incs), ok, True)
        if not ok:
            R.violation("GS-cache-bound", MERGE + "/loop-guard", "the merge loop can count past the configured maximum", F.loc(MERGE))
        truncs = [c for c in mb.calls if not c.indirect and c.decl.endswith("::truncate")]
        # every way the cached vector can grow inside the merge (extend, append, push, insert, extend_from_slice …)
        grows = [c for c in mb.calls if not c.indirect and re.search(r"::(extend|append|push|insert|extend_from_slice|extend_from_within|resize|resize_with)$", c.decl)
                 and c.bb in mb.live_blocks() and "param:1" in tokens(mb.origin(c.args[0]))]
        ok = len(truncs) >= 2 and bool(grows) and all(mb.dominates(t.bb, g.bb) for t in truncs for g in grows)
        R.ob("GS-cache-bound", "merge: truncate(kept_existing), truncate(kept_new) dominate extend", ok, True)
        if not ok:
            R.violation("GS-cache-bound", MERGE + "/truncate", "merge no longer truncates both vectors before extending", F.loc(MERGE))

    # ---- (iii) refetch clamp
    fu = PS + "fetch_and_update::{closure#0}"
    b = F.body(fu)
    if b is None:
        R.anchor_missing(fu)
    else:
        R.fn(fu)
        assigns = []
        for bi in sorted(b.live_blocks()):
            for s in b.stmts(bi):
                if s[0] == "=" and s[1][1] and isinstance(s[1][1][-1], list) and s[1][1][-1][0] == "f" and s[1][1][-1][2] == "next_refetch":
                    assigns.append((bi, s))
        R.floor("FLOW-refetch-clamp", len(assigns), 2, "assignments to next_refetch in fetch_and_update")
        for (bi, s) in assigns:
            o = b._rvalue_origin(s[2], 12, frozenset())
            ok = False
            kind = "?"
            # success: max(min(now+interval, earliest-threshold), now+min_delay)
            if o[0] == "call" and o[1].endswith("::max") and len(o[2]) == 2:
                lo = tokens(o[2][1])
                hi = o[2][0]
                # the lower clamp is  now + min_refetch_delay  with `now` the time of *this* lookup (a parameter of the
                # coroutine), not a stored instant: a late tick must still wait the full delay
                lo_t = o[2][1]
                base_t = PN._peel_refs(lo_t[2][0]) if (lo_t[0] == "call" and len(lo_t[2]) == 2) else ("top",)
                while base_t[0] == "cast":
                    base_t = base_t[2]
                lo_now = not (base_t[0] == "field" and base_t[2] in ("next_refetch", "last_fetch", "last_refetch"))
                if "field:min_refetch_delay" in lo and lo_now and any(t.endswith("as core::ops::arith::Add<core::time::Duration>>::add") for t in lo):
                    if hi[0] == "call" and hi[1].endswith("::min"):
                        a, c = tokens(hi[2][0]), tokens(hi[2][1])
                        if "field:refetch_interval" in a and "field:min_expiry_threshold" in c and any(t.endswith("::earliest_expiry") for t in c):
                            ok, kind = True, "success"
            # failure: now + max(backoff.duration(attempts), min_delay)
            if o[0] == "call" and o[1].endswith("as core::ops::arith::Add<core::time::Duration>>::add") and len(o[2]) == 2:
                d = o[2][1]
                if d[0] == "call" and d[1].endswith("::max") and "field:min_refetch_delay" in tokens(d[2][1]) \
                        and any(t.endswith("::duration") for t in tokens(d[2][0])) and "field:backoff" in tokens(d[2][0]):
                    ok, kind = True, "failure"
            R.ob("FLOW-refetch-clamp", "next_refetch (%s) = %s" % (kind, fmt(o, 160)), ok, True)
            if not ok:
                R.violation("FLOW-refetch-clamp", fu + "/next_refetch/" + str(len([x for x in assigns if x[0] <= bi])),
                            "next_refetch is no longer clamped by min_refetch_delay / derived from interval and expiry: %s" % fmt(o, 240), b.span_of(s[3]).loc)

    # ---- (iv) config validated before use
    new = MGR + "new"
    b = F.body(new)
    if b is None:
        R.anchor_missing(new)
    else:
        R.fn(new)
        oks = [bb for (bb, idx, adt, var) in T.result_variant_defs(b) if var == "Ok"]
        def vp(tk, o, g):
            return o[0] == "disc" and any(t.endswith("MultiPathManagerConfig::validate") for t in tk)
        ok, info = T.gs_check(b, oks, vp)
        R.ob("GS-validate", "MultiPathManager::new: Ok only after config.validate() succeeded", ok, True)
        if not ok:
            R.violation("GS-validate", new, "a manager can be built from an unvalidated configuration: %s" % info.get("why"), F.loc(new))
    vb = F.body("scion_stack::path::manager::MultiPathManagerConfig::validate")
    if vb is None:
        R.anchor_missing("MultiPathManagerConfig::validate")
    else:
        oks = [bb for (bb, idx, adt, var) in T.result_variant_defs(vb) if var == "Ok"]
        for a, c2 in (("min_refetch_delay", "refetch_interval"), ("min_refetch_delay", "min_expiry_threshold")):
            def cp(tk, o, g, a=a, c2=c2):
                return ("field:" + a) in tk and ("field:" + c2) in tk
            ok, info = T.gs_check(vb, oks, cp)
            R.ob("GS-validate", "validate(): Ok guarded by comparison of %s with %s" % (a, c2), ok, True)
            if not ok:
                R.violation("GS-validate", "validate/%s-vs-%s" % (a, c2), "validator no longer compares %s with %s" % (a, c2), F.loc("scion_stack::path::manager::MultiPathManagerConfig::validate"))

    issue_memory(F, R)
    best_valid_rule(F, R)
    backoff_ceiling_rule(F, R)


PIM = "scion_stack::path::manager::PathIssueManager::"


BEST = "scion_stack::path::manager::pathset::PathSet::<F>::best_path"
EXPFN = "::check_path_expiry"


def _valid_test(F, o):
    """bool origin `o` is `check_path_expiry(..) == Valid` (returns 'eq') or `!= Valid` ('ne'); else None"""
    pol = True
    o = strip_sites(o)
    while o[0] == "un" and o[1] == "Not":
        o, pol = o[2], not pol
    if o[0] == "call" and re.search(r"::PartialEq::(eq|ne)$", o[1]) and len(o[2]) == 2:
        a, c = [PN._peel_refs(x) for x in o[2]]
        for x, y in ((a, c), (c, a)):
            if x[0] == "call" and x[1].endswith(EXPFN) and "ExpiryState::Valid" in fmt(y, 200):
                kind = "eq" if o[1].endswith("::eq") else "ne"
                return kind if pol else {"eq": "ne", "ne": "eq"}[kind]
    return None


def best_valid_rule(F, R):
    """GS-best-valid: PathSet::best_path — the candidate that replaces the active path — is Some(p) only for a p with
    check_path_expiry(p, now, threshold) == Valid; the loop form (`if state != Valid { continue }`), the iterator form
    (`iter().find(|p| state == Valid)`) and or_else/or combinations of them are recognised; any other source of Some
    (first(), a weaker test such as != Expired) is a violation: an expired or near-expiry path becomes the active path."""
    b = F.body(BEST)
    if b is None:
        R.anchor_missing(BEST)
        return
    R.fn(BEST)
    problems = []
    n_src = [0]

    def closure_ok(q):
        qb = F.body(q)
        if qb is None:
            return False
        return _valid_test(F, qb.local_origin(0)) == "eq"

    def src(t):
        t0 = strip_sites(t)
        if t0[0] == "phi":
            for a in t0[1]:
                if isinstance(a, tuple):
                    src_raw = [x for x in t[1] if isinstance(x, tuple) and strip_sites(x) == a]
                    src(src_raw[0] if src_raw else a)
            return
        if t0[0] == "agg" and t0[1][0] == "adt" and t0[1][1].endswith("option::Option"):
            if t0[1][2] == "None":
                return
            n_src[0] += 1
            # built in this body: every construction site of Some must sit behind the Valid test
            sites = [d[1] for d in b.defs.get(0, ()) if d[0] == "assign" and d[4][0] == "agg" and d[4][1][0] == "adt" and d[4][1][2] == "Some"]
            for bb in sites:
                ok = False
                for g, cond, pol in PN._cmp_guards(b, bb):
                    k = _valid_test(F, cond)
                    if k and ((k == "eq") == bool(pol)):
                        ok = True
                if not ok:
                    problems.append(("Some(path) is built without a dominating `check_path_expiry(..) == Valid` test", b.term_span(bb).loc))
            return
        if t0[0] == "call" and re.search(r"::(find|rfind)$", t0[1]) and len(t0[2]) == 2:
            n_src[0] += 1
            cl = [n for n in walk(t0[2][1]) if n[0] == "agg" and isinstance(n[1], tuple) and len(n[1]) > 1 and "{closure#" in str(n[1][1])]
            if not (cl and closure_ok(cl[0][1][1])):
                problems.append(("find() predicate is not `check_path_expiry(..) == Valid`", F.loc(BEST)))
            return
        if t0[0] == "call" and re.search(r"::(or_else|or)$", t0[1]) and len(t0[2]) == 2:
            src(t[2][0])
            y = t0[2][1]
            cl = [n for n in walk(y) if n[0] == "agg" and isinstance(n[1], tuple) and len(n[1]) > 1 and "{closure#" in str(n[1][1])]
            if cl and F.has_body(cl[0][1][1]):
                qb = F.body(cl[0][1][1])
                o2 = strip_sites(qb.local_origin(0))
                if not (o2[0] == "agg" and o2[1][2] == "None"):
                    n_src[0] += 1
                    problems.append(("fallback %s yields a path that is not tested for validity: %s" % (short(cl[0][1][1]), fmt(o2, 80)), F.loc(cl[0][1][1])))
            else:
                src(t[2][1])
            return
        n_src[0] += 1
        problems.append(("unrecognised source of the best path: %s" % fmt(t0, 100), F.loc(BEST)))

    src(b.local_origin(0))
    ok = not problems
    R.ob("GS-best-valid", "best_path yields Some(p) only behind check_path_expiry(p) == Valid (%d source(s))" % n_src[0], ok, True,
         {"rule": "GS-best-valid", "fn": BEST, "sources": n_src[0], "problems": [p[0] for p in problems], "holds": ok})
    for msg, loc in problems:
        R.violation("GS-best-valid", BEST + "/" + re.sub(r"[^A-Za-z ]", "", msg)[:50], "PathSet::best_path: %s — a near-expiry or expired path can be chosen as (or kept as) "
                    "the active path and handed to senders" % msg, loc)
    R.floor("GS-best-valid", n_src[0], 1, "sources of Some(path) in PathSet::best_path")


BACKOFF = "scion_sdk_utils::backoff::ExponentialBackoff::duration"


def backoff_ceiling_rule(F, R):
    """UB-backoff: the delay ExponentialBackoff::duration returns is `min(_, config.maximum_delay_secs)` as its outermost
    operation — whatever is added (jitter) is added before the clamp, so the configured ceiling bounds the re-attempt delay"""
    b = F.body(BACKOFF)
    if b is None:
        R.anchor_missing(BACKOFF)
        return
    R.fn(BACKOFF)
    o = strip_sites(b.local_origin(0))
    ok, why = False, fmt(o, 160)
    x = o
    # peel the Duration constructor(s)
    while x[0] == "call" and re.search(r"Duration::(from_secs_f32|from_secs_f64|from_secs|from_millis)$", x[1]) and len(x[2]) == 1:
        x = PN.strip_casts(x[2][0])
        if x[0] == "call" and re.search(r"::(min|clamp)$", x[1]):
            args = [PN._peel_refs(a) for a in x[2]]
            lim = args[-1]
            if lim[0] == "field" and lim[2] == "maximum_delay_secs":
                ok = True
            break
    R.ob("UB-backoff", "ExponentialBackoff::duration = Duration::from_secs_f32(min(.., config.maximum_delay_secs))", ok, True,
         {"rule": "UB-backoff", "fn": BACKOFF, "result": why, "holds": ok})
    if not ok:
        R.violation("UB-backoff", BACKOFF, "the returned delay is not clamped by maximum_delay_secs as the last step (%s): re-attempts can be scheduled later "
                    "than the configured backoff ceiling" % why, F.loc(BACKOFF))


def _on_field(b, c, fld):
    return bool(c.args) and ("field:" + fld) in tokens(b.origin(c.args[0]))


def issue_memory(F, R):
    """(v) issue memory bound — structural necessary conditions of `cache.len() <= max_entries` and a bounded queue:
    IM1 cached markers are never modified in place (the queue entry carries the marker's timestamp and eviction matches on
        it): the only mutators of `cache` are insert (add_issue) and the occupied-entry removal (pop_front);
    IM2 every cache.insert is accompanied by a push_back of (id, marker.timestamp) onto the queue in the same function;
    IM3 the insert is preceded by an eviction *loop*: a branch comparing cache.len() with max_entries that dominates the
        insert and lies on a CFG cycle with the pop_front call (a single pop can hit the stale queue entry of a
        re-reported issue and free nothing);
    IM4 the queue itself is kept bounded: some queue-shrinking call (retain / pop_front / drain / truncate / clear) is
        controlled by a branch on fifo_issues.len() and max_entries, or by the result of cache.insert (eager purge)."""
    fns = [p for p in F.all_body_paths("scion_stack") if p.startswith(PIM) and not T.is_test_support(p)]
    if not fns:
        R.anchor_missing(PIM + "*")
        return
    add, pop = PIM + "add_issue", PIM + "pop_front"
    for x in (add, pop):
        if not F.has_body(x):
            R.anchor_missing(x)
            return
    MUT = ("::get_mut", "::values_mut", "::iter_mut", "::entry", "::insert", "::remove", "::remove_entry", "::retain", "::clear", "::drain",
           "::extend", "::get_many_mut", "::get_disjoint_mut", "::try_insert", "::extract_if")
    n_mut = 0
    for p in fns:
        b = F.body(p)
        R.fn(p)
        for c in b.calls:
            if c.indirect or not _on_field(b, c, "cache") or "HashMap" not in c.decl:
                continue
            nm = "::" + c.decl.split("::")[-1]
            if nm not in MUT:
                continue
            n_mut += 1
            ok = (p == add and nm == "::insert") or (p == pop and nm == "::entry")
            R.ob("IM1-cache-mutators", "%s on cache in %s" % (nm, short(p)), ok, True, {"rule": "IM1", "fn": p, "loc": c.span.loc, "call": short(c.decl), "holds": ok})
            if not ok:
                R.violation("IM1-cache-mutators", "%s/%s" % (p, nm),
                            "the issue cache is modified by %s in %s: a marker changed in place no longer matches the timestamp of its "
                            "queue entry, so it is never evicted and the cache outgrows max_entries" % (short(c.decl), short(p)), c.span.loc)
    R.floor("IM1-cache-mutators", n_mut, 2, "mutating HashMap calls on PathIssueManager.cache (insert, entry)")
    # in pop_front the entry may only be removed, never modified
    pb = F.body(pop)
    bad = [c for c in pb.calls if not c.indirect and "OccupiedEntry" in c.decl and c.decl.split("::")[-1] in ("get_mut", "into_mut", "insert", "replace_entry", "replace_key")]
    R.ob("IM1-cache-mutators", "pop_front only reads or removes the occupied entry", not bad, True)
    for c in bad:
        R.violation("IM1-cache-mutators", pop + "/" + short(c.decl), "pop_front modifies the cached marker in place", c.span.loc)
    # IM2
    ab = F.body(add)
    ins = [c for c in ab.calls if not c.indirect and c.decl.endswith("HashMap::<K, V, S, A>::insert") and _on_field(ab, c, "cache")]
    push = [c for c in ab.calls if not c.indirect and c.decl.endswith("VecDeque::<T, A>::push_back") and _on_field(ab, c, "fifo_issues")]
    ok = bool(ins) and bool(push)
    if ok:
        for i in ins:
            paired = False
            for q in push:
                if ab.dominates(q.bb, i.bb) or ab.dominates(i.bb, q.bb):
                    o = ab.origin(q.args[1])
                    tk = tokens(o)
                    same_id = o[0] == "agg" and len(o[2]) == 2 and FX.strip_sites(o[2][0]) == FX.strip_sites(ab.origin(i.args[1]))
                    ts = o[0] == "agg" and len(o[2]) == 2 and "field:timestamp" in tokens(o[2][1]) and "param:3" in tokens(o[2][1])
                    rets = [x for x in ab.live_blocks() if ab.term(x)[0] == "ret"]
                    first, second = (q, i) if ab.dominates(q.bb, i.bb) else (i, q)
                    between = T.must_pass(ab, rets, [second.bb], entry=first.bb)[0]
                    if same_id and ts and between:
                        paired = True
            ok = ok and paired
    R.ob("IM2-queue-pairing", "add_issue: cache.insert(id, marker) is paired with fifo_issues.push_back((id, marker.timestamp))", ok, True)
    if not ok:
        R.violation("IM2-queue-pairing", add, "a cache entry can be inserted without a queue entry carrying the same id and the marker's timestamp "
                    "(or the reverse): eviction can no longer find it", F.loc(add))
    # IM3
    def cap_pred(tk, o, g):
        return "field:cache" in tk and "field:max_entries" in tk and any(t.endswith("::len") for t in tk if t.startswith("fn:"))
    pops = ab.calls_to(pop)
    ok3 = False
    why3 = "no branch comparing cache.len() with max_entries dominates the insert"
    for g in T.guard_blocks(ab, cap_pred):
        if not ins or not all(ab.dominates(g, i.bb) for i in ins):
            continue
        why3 = "the eviction is a single pop_front, not a loop: the branch on cache.len() >= max_entries is not re-evaluated after pop_front"
        for c in pops:
            if g in ab.reach(ab.succ[c.bb]) and c.bb in ab.reach(ab.succ[g]):
                ok3 = True
    R.ob("IM3-evict-loop", "add_issue: `cache.len() >= max_entries` is re-tested after every pop_front and dominates the insert", ok3, True,
         {"rule": "IM3", "fn": add, "pop_front_calls": [c.span.loc for c in pops], "holds": ok3})
    if not ok3:
        R.violation("IM3-evict-loop", add, "issue cache can exceed max_entries: %s (a pop_front that hits the stale queue entry of a re-reported "
                    "issue frees nothing)" % why3, F.loc(add))
    # IM4
    shrink = [c for p in (add, pop) for c in F.body(p).calls if not c.indirect and _on_field(F.body(p), c, "fifo_issues")
              and c.decl.split("::")[-1] in ("retain", "retain_mut", "drain", "truncate", "clear")]
    ok4 = False
    for c in shrink:
        bb = F.body(add)
        if c not in bb.calls:
            continue
        def qpred(tk, o, g):
            return ("field:fifo_issues" in tk and "field:max_entries" in tk) or (any(t.endswith("HashMap::<K, V, S, A>::insert") for t in tk) and "field:cache" in tk)
        g_ok = False
        for g in T.guard_blocks(bb, qpred):
            if bb.dominates(g, c.bb) and [sx for sx in bb.succ[g] if c.bb not in bb.reach([sx], avoid=[g])]:
                g_ok = True
        ok4 = ok4 or g_ok
    R.ob("IM4-queue-bound", "add_issue: the queue is compacted/purged under a bound on its length (or on re-insert)", ok4, True)
    if not ok4:
        R.violation("IM4-queue-bound", add, "the issue queue can grow without bound: stale entries of re-reported issues are only dropped when they "
                    "reach the front, and nothing limits fifo_issues.len()", F.loc(add))

