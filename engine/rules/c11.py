"""C11 — hop-field authentication and per-AS advance are a correct monotone state machine."""
import re
import templates as T
import facts as FX
import panic as PN
from facts import tokens, fmt, short, walk

CRATES = ["sciparse", "pocketscion"]

EXPLANATION = (
    "(FA) failure atomicity of StandardPathView::advance_{ingress,egress}[_with_validator] and of pocketscion's one-hop "
    "handlers (operand: the &mut path): no Err exit is reachable after the path bytes may have been written (copies are "
    "committed at the end). (MONO) every set_curr_hop_field / set_curr_info_field call in the advance functions receives "
    "(current index + k) with constant k >= 1, and every Ok exit of the egress advance passes such a call, so each "
    "successful egress step moves the pointer strictly forward. (MAC) written-layout table of calculate_hop_mac: each of the "
    "five value parameters is copied big-endian into the 16-byte CMAC input at the byte range the SCION spec gives "
    "(beta 2..4, timestamp 4..8, exp 9, ingress 10..12, egress 12..14), ranges pairwise disjoint, the input is what "
    "Mac::update receives and the result is the first 6 bytes of the tag; both validators (HopMacValidator and the "
    "simulator's StandardValidator) pass segment_id/timestamp of the info field and exp_time/cons_ingress/cons_egress of the "
    "hop field, and their Ok exit is controlled by equality of the result with the hop field's mac()."
)
EXPLANATION_ADD = ' Additions: (VAL-flow) every validator verdict computed by advance_*_with_validator is part of the decided value on every arm; (GS-mac-bypass) the only way around the MAC comparison is the bare ignore_macs flag.'
EXPLANATION = EXPLANATION + EXPLANATION_ADD
EXPLANATION_ADD6 = ' Round-6 addition: (SIB-onehop-beta) both set_second_hop implementations (one-hop view and model) chain the second hop with mac_beta_step over the MAC of hop 0, the previous hop.'
EXPLANATION = EXPLANATION + EXPLANATION_ADD6
RESIDUAL = ["that the chaining rules make every authentic path verify at every hop in both directions (values)",
            "tamper detection 'no later than at the owning AS' (values)"]
ASSUMPTIONS = ["cmac/aes crates compute AES-CMAC", "Ok(ValidationFailed(..)) is by the documented API contract an advanced path plus a verdict, not a failure"]
TECHNIQUE = "failure-atomicity dataflow, delta-domain provenance, written-layout table extraction vs spec table, guarded success"

ROUT = "sciparse::proto::dataplane_path::standard::routing::<impl sciparse::proto::dataplane_path::standard::view::StandardPathView>::"
MACFN = "sciparse::proto::dataplane_path::standard::mac::algo::calculate_hop_mac"
SPEC_MAC_INPUT = {1: (2, 4), 2: (4, 8), 3: (9, 10), 4: (10, 12), 5: (12, 14)}   # param -> byte range, from the SCION dataplane spec
PARAM_WIDTH = {1: 2, 2: 4, 3: 1, 4: 2, 5: 2}


def mac_layout(b):
    """{param: (lo,hi)} written into the local array that reaches Mac::update"""
    table = {}
    arrays = set()
    for c in b.calls:
        if c.indirect or not c.decl.endswith("::copy_from_slice"):
            continue
        dst = b.origin(c.args[0])
        src = tokens(b.origin(c.args[1]))
        ps = [int(t[6:]) for t in src if t.startswith("param:")]
        rng = None
        for n in walk(dst):
            if n[0] == "call" and n[1].endswith("::index_mut") and len(n[2]) == 2:
                rb = PN.range_bounds(n[2][1])
                if rb and rb[0] == "range":
                    rng = (rb[1], rb[2])
        if rng and len(ps) == 1:
            be = any(t.endswith("::to_be_bytes") for t in src)
            table[ps[0]] = (rng[0], rng[1], be)
    # direct element stores  arr[const] = param
    for bi in sorted(b.live_blocks()):
        for s in b.stmts(bi):
            if s[0] == "=" and s[1][1] and isinstance(s[1][1][-1], list) and s[1][1][-1][0] == "i":
                idx = b.local_origin(s[1][1][-1][1])
                val = tokens(b._rvalue_origin(s[2], 8, frozenset()))
                ps = [int(t[6:]) for t in val if t.startswith("param:")]
                if idx[0] == "lit" and isinstance(idx[1], int) and len(ps) == 1:
                    table[ps[0]] = (idx[1], idx[1] + 1, True)
    return table


def _exact_equality(F, o, depth=2):
    """is the bool origin `o` an exact equality/inequality test of its two operands?"""
    if o[0] == "bin" and o[1] in ("Eq", "Ne"):
        return True, "primitive ==/!="
    if o[0] != "call":
        return False, "not a comparison: %s" % fmt(o, 60)
    decl = o[3] if len(o) > 3 else o[1]
    res = o[1]
    if decl in ("core::cmp::PartialEq::eq", "core::cmp::PartialEq::ne"):
        if res.startswith(("core::", "alloc::", "<[")) or res == decl:
            return True, "core array/slice PartialEq"
        e = F.fns.get(res)
        if e is not None and F.has_body(res):
            sp = F.fn_span(res)
            if sp is not None and sp.mac and "PartialEq" in sp.mac:
                return True, "derived PartialEq"
            return _comparator_fn(F, res, depth)
        return False, "PartialEq impl %s not analysable" % short(res)
    if decl.endswith("ConstantTimeEq::ct_eq") or res.endswith("ConstantTimeEq::ct_eq"):
        return True, "subtle::ConstantTimeEq"
    if res.endswith(("::from", "::into")) and len(o[2]) == 1:
        return _exact_equality(F, o[2][0], depth)
    if F.has_body(res) and depth > 0:
        return _comparator_fn(F, res, depth)
    return False, "unknown comparator %s" % short(res)


def _comparator_fn(F, fn, depth):
    """workspace comparator: accepted when it returns a core equality of its parameters, or is an
    accumulate-and-test loop whose accumulator is only ever OR-ed (`acc |= a ^ b; acc == 0`)"""
    b = F.body(fn)
    o = b.local_origin(0)
    while o[0] == "un" and o[1] == "Not":
        o = o[2]
    if o[0] == "call":
        ok, how = _exact_equality(F, o, depth - 1)
        if ok:
            return True, "%s → %s" % (short(fn), how)
    accs = {}
    for bi in sorted(b.live_blocks()):
        for st in b.stmts(bi):
            if st[0] == "=" and not st[1][1] and st[2][0] == "bin":
                l = st[1][0]
                for side in (st[2][2], st[2][3]):
                    pl = FX.op_place(side)
                    if pl is not None and pl[0] == l and not pl[1]:
                        accs.setdefault(l, set()).add(st[2][1])
    if accs and all(ops <= {"BitOr"} for ops in accs.values()) and o[0] == "bin" and o[1] in ("Eq", "Ne"):
        return True, "%s: OR-accumulating comparator" % short(fn)
    if accs:
        return False, "%s accumulates differences with %s (differences can cancel out)" % (short(fn), sorted(set().union(*accs.values())))
    return False, "%s is not recognised as an equality" % short(fn)


def mac_bypass(F, p):
    """the only way around the MAC comparison in a MAC-computing validate_hop is the true edge of a switch on the bare
    `ignore_macs` flag: with the comparison's guard blocks removed and every ignore_macs switch restricted to its
    'do not ignore' edge, no Ok exit may stay reachable.  Returns (ok, why)."""
    b = F.body(p)
    oks = [bb for (bb, idx, adt, var) in T.result_variant_defs(b) if var == "Ok"]

    def macp(tk, o, g):
        return ("fn:" + MACFN) in tk and any(t.endswith("HopFieldView::mac") for t in tk)
    M = set(T.guard_blocks(b, macp))
    if not M or not oks:
        return False, "no MAC comparison guard or no Ok exit"
    succ = [list(x) for x in b.succ]
    for g in M:
        succ[g] = []
    n_ign = 0
    for g in sorted(b.live_blocks()):
        e = FX.bool_edges(b, g)
        if e is None or g in M:
            continue
        o = b.origin(b.term(g)[1])
        pol = True
        while o[0] == "un" and o[1] == "Not":
            o, pol = o[2], not pol
        x = o
        while x[0] in ("deref", "ref"):
            x = x[-1]
        if x[0] == "field" and x[2] == "ignore_macs":
            n_ign += 1
            tt, ff = e
            succ[g] = [ff if pol else tt]      # keep only the edge on which MACs are NOT ignored
    r = b.reach([0], succ=succ)
    bad = [x for x in oks if x in r]
    if bad:
        return False, "Ok exit bb%d is reachable without the MAC comparison and without ignore_macs being set (%d ignore_macs switch(es))" % (bad[0], n_ign)
    return True, "%d comparison guard(s), %d ignore_macs switch(es)" % (len(M), n_ign)


OH_VIEW_SET = "sciparse::proto::dataplane_path::onehop::view::OneHopPathView::set_second_hop"
OH_MODEL_SET = "sciparse::proto::dataplane_path::onehop::model::OneHopPath::set_second_hop"


def onehop_beta_rule(F, R):
    """SIB-onehop-beta: "every authentic path verifies at every hop".  The second hop field of a one-hop path is MACed over
    beta_1 = SegID xor MAC(hop 0)[..2]; when the SegID in the info field has not been advanced yet, set_second_hop derives it
    with mac_beta_step(segment_id, <mac of hop 0>).  View and model implement this twice: in both, every mac_beta_step call
    must take the MAC of hop index 0 (the previous hop) — hop 1's own MAC is still zero at that point, so chaining over it
    leaves the SegID unchanged and the hop field fails validation on the way back."""
    found = {}
    for p, pat in ((OH_VIEW_SET, r"HopFieldView::mac\(&\*OneHopPathView::(?:mut_)?hop_fields\(&\*param#1\)\[(\d+)\]\)"),
                   (OH_MODEL_SET, r"\.hops\[(\d+)\]\.mac")):
        b = F.body(p)
        if b is None:
            R.anchor_missing(p)
            continue
        R.fn(p)
        steps = [c for c in b.calls if c.callee and c.callee.endswith("mac::algo::mac_beta_step")]
        if not steps:
            R.ob("SIB-onehop-beta", "%s: no mac_beta_step call — not decided" % short(p), True, False)
            continue
        for c in steps:
            txt = fmt(FX.strip_sites(b.origin(c.args[1])), 4000)
            idx = sorted(set(int(x) for x in re.findall(pat, txt)))
            if not idx:
                R.ob("SIB-onehop-beta", "%s: MAC operand of mac_beta_step not recognised — not decided" % short(p), True, False)
                continue
            found.setdefault(p, []).append(idx)
            ok = idx == [0]
            R.ob("SIB-onehop-beta", "%s chains the second hop over the MAC of hop %s" % (short(p), idx), ok, True,
                 {"rule": "SIB-onehop-beta", "fn": p, "hop_index": idx})
            if not ok:
                R.violation("SIB-onehop-beta", p + "/beta", "%s derives the second hop's beta with mac_beta_step over the MAC of hop %s instead of hop 0: "
                            "the second hop field is not chained to the first and fails MAC validation once the SegID is advanced" % (short(p), idx), c.span.loc)
    R.floor("SIB-onehop-beta", len(found), 2, "set_second_hop implementations (view, model) with a recognised mac_beta_step operand")


def run(F, R, tier, cfg):
    onehop_beta_rule(F, R)
    fa = T.FA(F)
    inst = [ROUT + n for n in ("advance_ingress", "advance_ingress_with_validator", "advance_egress", "advance_egress_with_validator")]
    for p in inst:
        if not F.has_body(p):
            R.anchor_missing(p)
            continue
        R.fn(p)
        ok, findings = fa.check(p, 1, False)
        R.ob("FA", "FA %s" % short(p), ok, True, {"rule": "FA", "fn": p, "atomic": ok, "mutation_points": len(fa.mutation_points(F.body(p), 1)),
                                                "err_exits": len(fa.err_exits(F.body(p)))})
        for f in findings:
            R.violation("FA", "%s/%s after %s" % (p, f.get("err"), f.get("why")),
                        "advance can fail after the path was modified: %s at %s reachable after %s (%s)" % (f.get("err"), f.get("err_loc"), f.get("mut_loc"), f.get("why")), f.get("err_loc"), f)
    one = [p for p in F.all_body_paths("pocketscion") if "routing::spec::onehop::OneHopRoutingLogic::handle_one_hop_path" in p and F.fns[p]["kind"] != "Closure"]
    R.floor("FA-onehop", len(one), 3, "pocketscion one-hop handlers")
    for p in one:
        R.fn(p)
        ins = F.fns[p].get("inputs", [])
        k = [i + 1 for i, t in enumerate(ins) if t.startswith("&mut ") and "OneHopPathView" in t]
        if not k:
            R.anchor_missing("path parameter of " + p)
            continue
        ok, findings = fa.check(p, k[0], False)
        R.ob("FA", "FA(one-hop) %s" % short(p), ok, True)
        for f in findings:
            R.violation("FA", "%s/%s after %s" % (p, f.get("err"), f.get("why")),
                        "one-hop handler can fail after the path was modified: %s" % f, f.get("err_loc"), f)

    # ---- monotone pointer
    n_set = 0
    for p in inst:
        b = F.body(p)
        if b is None:
            continue
        sets = [c for c in b.calls if not c.indirect and (c.decl.endswith("::set_curr_hop_field") or c.decl.endswith("::set_curr_info_field"))]
        for c in sets:
            n_set += 1
            o = b.origin(c.args[1])
            x = o
            while x[0] == "cast":
                x = x[2]
            ok = False
            if x[0] == "bin" and x[1] in ("Add", "AddWithOverflow", "AddUnchecked"):
                k = x[3]
                base = tokens(x[2])
                want = "::curr_hop_field_idx" if c.decl.endswith("hop_field") else "::calculate_segment_index"
                ok = k[0] == "lit" and isinstance(k[1], int) and k[1] >= 1 and any(t.endswith(want) for t in base)
            if x[0] == "field" and x[2] == "0" and x[1][0] == "bin" and x[1][1] == "AddWithOverflow":
                k = x[1][3]
                base = tokens(x[1][2])
                want = "::curr_hop_field_idx" if c.decl.endswith("hop_field") else "::calculate_segment_index"
                ok = k[0] == "lit" and isinstance(k[1], int) and k[1] >= 1 and any(t.endswith(want) for t in base)
            R.ob("MONO", "%s(%s) in %s" % (short(c.decl), fmt(o, 100), short(p)), ok, True)
            if not ok:
                R.violation("MONO", "%s/%s" % (p, short(c.decl)), "the current-hop/info pointer is not set to (current + k), k>=1: %s" % fmt(o, 160), c.span.loc)
        if p.endswith("advance_egress_with_validator"):
            oks = [bb for (bb, idx, adt, var) in T.result_variant_defs(b) if var == "Ok"]
            hop_sets = [c.bb for c in sets if c.decl.endswith("::set_curr_hop_field")]
            ok, bad = T.must_pass(b, oks, hop_sets)
            ok = ok and bool(oks) and bool(hop_sets)
            R.ob("MONO", "every Ok exit of advance_egress_with_validator passes set_curr_hop_field(idx+1)", ok, True)
            if not ok:
                R.violation("MONO", p + "/ok-without-advance", "egress advance can succeed without moving the current-hop pointer forward", F.loc(p))
    R.floor("MONO", n_set, 3, "set_curr_hop_field/set_curr_info_field calls in advance functions")

    # ---- VAL-flow: every validator verdict computed by an advance function reaches the final accept/reject decision
    n_val = 0
    VAL = "::AdvanceValidator::validate_"
    for p in inst:
        if not p.endswith("_with_validator") or not F.has_body(p):
            continue
        b = F.body(p)
        direct = [c for c in b.calls if not c.indirect and VAL in c.decl and c.bb in b.live_blocks()]
        clos = [q for q in F.closure_children(p) if F.has_body(q) and any(VAL in c.decl for c in F.body(q).calls if not c.indirect)]
        decisions = []
        for g in sorted(b.live_blocks()):
            t = b.term(g)
            if t[0] == "switch":
                o = b.origin(t[1])
                if o[0] == "disc" and any(n[0] == "call" and VAL in n[1] for n in walk(o)):
                    decisions.append((g, o))
        n_val += len(direct) + len(clos)
        ok = len(decisions) >= 1
        if ok:
            g, o = decisions[-1]
            sites = {n[5] for n in walk(o) if n[0] == "call" and len(n) > 5}
            aggs = {n[1][1] for n in walk(o) if n[0] == "agg" and len(n[1]) > 1 and isinstance(n[1][1], str)}
            missing = [("call@bb%d %s" % (c.bb, short(c.decl)), c.span.loc) for c in direct if c.bb not in sites] + \
                      [("closure %s" % short(q), F.loc(q)) for q in clos if q not in aggs]
            # a verdict computed on every path to the decision (its call dominates the decision) must be part of the
            # decided value on every path, i.e. of every alternative of the value's phi — not overwritten on some arm
            inner = o[1]
            alts = [a for a in inner[1] if isinstance(a, tuple)] if inner[0] == "phi" else [inner]
            for c in direct:
                if b.dominates(c.bb, g):
                    for a in alts:
                        # ("loop", l): the alternative is computed from the previous value of the same variable
                        # (`verdict = verdict.or_else(..)`), which keeps the earlier verdict
                        if c.bb not in {n[5] for n in walk(a) if n[0] == "call" and len(n) > 5} and not any(n[0] == "loop" for n in walk(a)):
                            missing.append(("call@bb%d %s is dropped on one arm: %s" % (c.bb, short(c.decl), fmt(FX.strip_sites(a), 90)), c.span.loc))
                            break
        else:
            missing = [("no decision on the validation verdict found", F.loc(p))]
        R.ob("VAL-flow", "%s: %d direct validator call(s) and %d validator closure(s) all feed the final verdict" % (short(p), len(direct), len(clos)),
             not missing, True, {"rule": "VAL-flow", "fn": p, "direct_calls": len(direct), "closures": len(clos), "missing": [m[0] for m in missing], "holds": not missing})
        for m, loc in missing:
            R.violation("VAL-flow", "%s/%s" % (p, re.sub(r"@bb\d+", "", m)), "a validator verdict computed in %s does not reach the final accept/reject decision "
                        "(overwritten or dropped): %s — a hop field / segment change that failed validation is accepted" % (short(p), m), loc)
    R.floor("VAL-flow", n_val, 4, "validator calls in advance_{ingress,egress}_with_validator (ingress: 1 direct + 2 closures, egress: 1 direct)")

    # ---- MAC input layout
    mb = F.body(MACFN)
    if mb is None:
        R.anchor_missing(MACFN)
    else:
        R.fn(MACFN)
        tab = mac_layout(mb)
        for prm, (lo, hi) in SPEC_MAC_INPUT.items():
            got = tab.get(prm)
            ok = got is not None and (got[0], got[1]) == (lo, hi) and got[2] and (hi - lo) == PARAM_WIDTH[prm]
            R.ob("TBL-mac-input", "param#%d -> bytes %d..%d big-endian (got %s)" % (prm, lo, hi, got), ok, True)
            if not ok:
                R.violation("TBL-mac-input", "param%d" % prm, "MAC input: parameter #%d is written to %s, spec says bytes %d..%d big-endian" % (prm, got, lo, hi), F.loc(MACFN))
        rngs = sorted((v[0], v[1]) for v in tab.values())
        disjoint = all(rngs[i][1] <= rngs[i + 1][0] for i in range(len(rngs) - 1))
        R.ob("TBL-mac-input", "written ranges pairwise disjoint", disjoint and len(tab) == 5, True)
        if not disjoint or len(tab) != 5:
            R.violation("TBL-mac-input", "disjoint", "MAC input ranges overlap or a parameter is missing: %s" % tab, F.loc(MACFN))
        ups = [c for c in mb.calls if not c.indirect and c.decl.endswith("::update")]
        ok = bool(ups) and all("repeat" in fmt(mb.origin(c.args[1])) or any(n[0] == "repeat" for n in walk(mb.origin(c.args[1]))) for c in ups)
        fin = [c for c in mb.calls if not c.indirect and c.decl.endswith("::finalize")]
        ok = ok and bool(fin)
        # result = first 6 bytes of the tag
        res_ok = False
        for c in mb.calls:
            if not c.indirect and c.decl.endswith("::copy_from_slice"):
                src = mb.origin(c.args[1])
                if any(t.endswith("::finalize") for t in tokens(src)):
                    for n in walk(src):
                        if n[0] == "call" and n[1].endswith("::index") and len(n[2]) == 2:
                            rb = PN.range_bounds(n[2][1])
                            if rb == ("range", 0, 6):
                                res_ok = True
        R.ob("TBL-mac-input", "the array is the CMAC input and the MAC is tag[..6]", ok and res_ok, True)
        if not (ok and res_ok):
            R.violation("TBL-mac-input", "update/result", "the assembled input is not what the CMAC consumes, or the result is not the 6-byte prefix of the tag", F.loc(MACFN))

    # ---- validators
    vals = [p for p, e in F.fns.items() if e.get("trait_item") == "sciparse::proto::dataplane_path::standard::routing::AdvanceValidator::validate_hop"
            and not T.is_test_support(p)]
    n_mac = 0
    for p in vals:
        b = F.body(p)
        cs = b.calls_to(MACFN)
        if not cs:
            continue          # NoValidation
        n_mac += 1
        R.fn(p)
        want = [("::segment_id", 4), ("::timestamp", 4), ("::exp_time", 3), ("::cons_ingress", 3), ("::cons_egress", 3)]
        for c in cs:
            ok = True
            for i, (nm, prm) in enumerate(want):
                o = b.origin(c.args[i])
                ok = ok and o[0] == "call" and o[1].endswith(nm) and ("param:%d" % prm) in tokens(o) and len([t for t in tokens(o) if t.startswith("param:")]) == 1
            R.ob("FLOW-mac-args", "%s: calculate_hop_mac(info.segment_id, info.timestamp, hop.exp_time, hop.cons_ingress, hop.cons_egress)" % short(p), ok, True)
            if not ok:
                R.violation("FLOW-mac-args", p, "validator feeds the MAC with the wrong fields: %s" % [fmt(b.origin(a), 60) for a in c.args[:5]], c.span.loc)
        oks = [bb for (bb, idx, adt, var) in T.result_variant_defs(b) if var == "Ok"]
        def macp(tk, o, g):
            return ("fn:" + MACFN) in tk and any(t.endswith("HopFieldView::mac") for t in tk)
        def macp_or_ignore(tk, o, g):
            return macp(tk, o, g) or "field:ignore_macs" in tk
        ok, info = T.gs_check(b, oks, macp_or_ignore)
        ok2 = bool(T.guard_blocks(b, macp))
        # the controlling comparison must be an exact equality of all six bytes
        for g in T.guard_blocks(b, macp):
            o = b.origin(b.term(g)[1])
            while o[0] == "un" and o[1] == "Not":
                o = o[2]
            exact, how = _exact_equality(F, o)
            R.ob("CMP-mac", "%s: the MAC comparison is an exact equality (%s)" % (short(p), how), exact, True,
                 {"rule": "CMP-mac", "fn": p, "loc": b.term_span(g).loc, "comparison": fmt(o, 120), "how": how, "holds": exact})
            if not exact:
                R.violation("CMP-mac", p + "/comparator", "the hop MAC is compared with something that is not recognised as an exact equality of all "
                            "bytes (%s): tampered hop fields can verify" % how, b.term_span(g).loc)
        okb, whyb = mac_bypass(F, p)
        R.ob("GS-mac-bypass", "%s: no way around the MAC comparison other than ignore_macs (%s)" % (short(p), whyb), okb, True,
             {"rule": "GS-mac-bypass", "fn": p, "detail": whyb, "holds": okb})
        if not okb:
            R.violation("GS-mac-bypass", p, "%s can accept a hop field without verifying its MAC on a path that does not depend on ignore_macs alone: %s" % (short(p), whyb), F.loc(p))
        R.ob("GS-mac", "%s: Ok(()) controlled by mac() == calculate_hop_mac(..)" % short(p), ok and ok2, True)
        if not (ok and ok2):
            R.violation("GS-mac", p, "validator can accept a hop field without comparing its MAC: %s" % info.get("why"), F.loc(p))
    R.floor("GS-mac", n_mac, 2, "validators computing the hop MAC (sciparse HopMacValidator, pocketscion StandardValidator)")
    # beacon side uses the same function
    upd = [p for p in F.fns_named("update_macs") if p.startswith("sciparse::scion::segment")]
    okb = False
    for p in upd:
        reach = F.reachable([p])
        if MACFN in reach:
            okb = True
    R.ob("SIB-mac", "AsEntry::update_macs reaches calculate_hop_mac (single MAC implementation)", okb, True)
    if not okb:
        R.violation("SIB-mac", "update_macs", "the beacon side no longer computes hop MACs with calculate_hop_mac", None)
