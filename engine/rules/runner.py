"""Binds a property id to its rule module, extraction configs and crate set."""
import importlib
import os
import sys
import time

import extract
import facts as FX
from common import Report


def run(pid, tier):
    mod = importlib.import_module(pid.lower())
    cfgs = ["release"]
    if tier == "thorough":
        cfgs = getattr(mod, "THOROUGH_CFGS", ["release", "dev"])
    R = Report(pid, tier, mod.EXPLANATION)
    R.residual = list(getattr(mod, "RESIDUAL", []))
    R.assumptions = list(getattr(mod, "ASSUMPTIONS", []))
    for cfg in cfgs:
        d, tree, secs, cached = extract.extract(cfg)
        R.tree = tree
        R.configs.append({"cfg": cfg, "extract_s": round(secs, 1), "cached": cached})
        try:
            F = FX.Facts(d, mod.CRATES)
        except FileNotFoundError as e:
            R.anchor_missing("fact file %s" % e)
            continue
        for n, c in F.crates.items():
            if c.tree != tree or c.cfg != cfg:
                R.violation("stale-facts", n, "fact file of %s is for tree %s/%s, expected %s/%s" % (n, c.tree, c.cfg, tree, cfg))
        try:
            mod.run(F, R, tier, cfg)
        except FX.AnchorMissing as e:
            R.anchor_missing(str(e))
    if tier == "thorough" and hasattr(mod, "thorough_extra"):
        mod.thorough_extra(R)
    return R.finish()
