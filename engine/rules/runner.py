"""Binds a property id to its rule module, extraction configs and crate set."""
import importlib
import os
import sys
import time

import extract
import facts as FX
from common import Report


def run(pid, tier):
    mod = importlib.import_module(pid.lower())
    cfgs = ["release"]
    if tier == "thorough":
        cfgs = getattr(mod, "THOROUGH_CFGS", ["release", "dev"])
    if os.environ.get("VERIF_CFGS"):          # development aid: explicit configuration list
        cfgs = os.environ["VERIF_CFGS"].split(",")
    R = Report(pid, tier, mod.EXPLANATION)
    R.residual = list(getattr(mod, "RESIDUAL", []))
    R.assumptions = list(getattr(mod, "ASSUMPTIONS", []))
    for cfg in cfgs:
        d, tree, secs, cached = extract.extract(cfg)
        R.tree = tree
        R.configs.append({"cfg": cfg, "extract_s": round(secs, 1), "cached": cached})
        try:
            F = FX.Facts(d, mod.CRATES)
        except FileNotFoundError as e:
            R.anchor_missing("fact file %s" % e)
            continue
        for n, c in F.crates.items():
            if c.tree != tree or c.cfg != cfg:
                R.violation("stale-facts", n, "fact file of %s is for tree %s/%s, expected %s/%s" % (n, c.tree, c.cfg, tree, cfg))
        try:
            mod.run(F, R, tier, cfg)
        except FX.AnchorMissing as e:
            R.anchor_missing(str(e))
    if tier == "thorough" and hasattr(mod, "thorough_extra"):
        mod.thorough_extra(R)
    selftest_failed = False
    if tier == "thorough" and not R.violations_unlisted():
        selftest_failed = selftest(pid, mod, R)
    rc = R.finish()
    if selftest_failed and rc == 0:
        print("CHECKER-SELFTEST-FAILED property=%s: a seeded change this check is recorded to detect is no longer reported "
              "(see evidence coverage.selftest)" % pid)
        return 2
    return rc


def selftest(pid, mod, R):
    """both-ways test of the checker (thorough tier): every change under seeded/<pid>-k that this check is recorded to
    detect is applied to a scratch copy of /repo (outside /repo and /verif, removed afterwards), facts are re-extracted
    from that copy and the same rule module must report at least one violation.  A seed whose patch no longer applies to
    the current tree is skipped and listed.  Returns True when a recorded detection was lost."""
    import glob
    import json
    import shutil
    import subprocess
    import tempfile
    from common import VERIF
    seeds = []
    for d in sorted(glob.glob(os.path.join(VERIF, "seeded", "C*-*"))):
        try:
            meta = json.load(open(os.path.join(d, "meta.json")))
        except Exception:
            continue
        if meta.get("detected_by") == pid:
            seeds.append((os.path.basename(d), d, meta.get("cfg", "release")))
    results = []
    lost = False
    for name, d, scfg in seeds:
        scratch = tempfile.mkdtemp(prefix="verif-scratch.%s." % name, dir="/var/tmp")
        try:
            subprocess.run(["rsync", "-a", "--exclude", "target", "--exclude", ".git", extract.REPO + "/", scratch + "/"], check=True)
            ap = subprocess.run(["patch", "-p1", "-s", "--forward", "-i", os.path.join(d, "patch.diff")], cwd=scratch,
                                stdout=subprocess.PIPE, stderr=subprocess.STDOUT, text=True)
            if ap.returncode != 0:
                results.append({"seed": name, "status": "skipped: patch does not apply to the current tree"})
                continue
            try:
                fd, tree, secs, cached = extract.extract(scfg, repo=scratch, quiet=True)
            except SystemExit as e:
                results.append({"seed": name, "status": "skipped: patched tree does not build (%s)" % e})
                continue
            R2 = Report(pid, "selftest", "")
            try:
                F2 = FX.Facts(fd, mod.CRATES)
                mod.run(F2, R2, "quick", scfg)
            except FX.AnchorMissing as e:
                R2.anchor_missing(str(e))
            vs = [v for v in R2.violations_unlisted() if v["rule"] not in ("stale-facts",)]
            rules = sorted({v["rule"] for v in vs})
            ok = bool(vs)
            results.append({"seed": name, "cfg": scfg, "status": "detected" if ok else "NOT DETECTED", "rules": rules, "violations": len(vs), "extract_s": round(secs, 1)})
            if not ok:
                lost = True
        finally:
            shutil.rmtree(scratch, ignore_errors=True)
    R.extra["selftest"] = {"what": "seeded changes (independent sub-agents, see seeded/*/meta.json) applied to a scratch copy; the check must fire on each",
                           "seeds": results}
    for r in results:
        print("[selftest %s] %s %s" % (r["seed"], r["status"], r.get("rules", "")))
    return lost
