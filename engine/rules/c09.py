"""C09 — the SNAP tunnel carries traffic only for identities authorised at that moment."""
import templates as T
import panic as PN
from facts import tokens, fmt, short, walk, strip_sites

CRATES = ["snap_tun", "snap_control"]

EXPLANATION = (
    "Dominance analysis on the MIR of snap-tun's server and snap-control's identity registry. "
    "(1) Every decrypt/encrypt entry into the WireGuard state machine (Tunn::handle_incoming_packet / "
    "handle_outgoing_packet), every construction of HandleIncomingPacketResult::Forwarded and every insertion into "
    "active_tunnels is dominated by the Some edge of SnapTunAuthorization::is_authorized — locally or, for private "
    "helpers, at every one of their call sites. (2) The identity passed to is_authorized is the tunnel's stored "
    "peer_static or the peer_static_public parsed from the handshake, and the same value flows into Tunn::new and "
    "ActiveTunnel.peer_static. (3) Registry: is_authorized is `expires_at > now` (strict), the session lookup filters "
    "through it, sessions/associations are written only by add_identity/clean_expired, which run only inside "
    "update_state under write_lock; add_identity removes the previous identity of the key and the identity's other "
    "keys before inserting."
)
EXPLANATION_ADD = ' Additions: (LOCK rmw) write_lock dominates the snapshot load and the modifier call, not only the store; (FLOW-now) is_authorized is asked about a fresh instant (Instant::now() in the same call or a parameter), never a stored one.'
EXPLANATION = EXPLANATION + EXPLANATION_ADD
RESIDUAL = ["histories (lapse between handshake and data packets)", "WireGuard session cryptography (ana-gotatun)"]
ASSUMPTIONS = ["ana-gotatun Tunn performs encryption/decryption only via handle_incoming_packet/handle_outgoing_packet"]
TECHNIQUE = "MIR dominance / who-may-call / provenance analysis (GS, WMC, FLOW, LOCK templates)"

IS_AUTH = "snap_tun::server::SnapTunAuthorization::is_authorized"
TUNN_IN = "ana_gotatun::noise::Tunn::handle_incoming_packet"
TUNN_OUT = "ana_gotatun::noise::Tunn::handle_outgoing_packet"


def auth_pred(tk, o, g):
    return o[0] == "disc" and ("fn:" + IS_AUTH) in tk


def in_server(p):
    return p.startswith("snap_tun::server::") and not T.is_test_support(p)


def run(F, R, tier, cfg):
    # ---- (1) authorisation dominates every sink
    sinks = []
    for nm in (TUNN_IN, TUNN_OUT):
        sinks += [(p, c.bb, short(nm), c.span) for (p, c) in T.call_sites(F, nm, crates=["snap_tun"]) if in_server(p)]
    n_tunn = len(sinks)
    fwd = [(p, bb, "construct Forwarded", sp) for (p, bb, si, sp) in
           T.adt_constructions(F, "snap_tun::server::HandleIncomingPacketResult", "Forwarded", crates=["snap_tun"]) if in_server(p)]
    sinks += fwd
    ins = []
    for (p, c) in T.call_sites(F, lambda n: n.endswith("::insert_entry") or n.endswith("HashMap::<K, V, S, A>::insert"), crates=["snap_tun"]):
        if in_server(p):
            tk = set()
            for a in c.args:
                tk |= tokens(F.body(p).origin(a))
            if "field:active_tunnels" in tk or c.decl.endswith("::insert_entry"):
                ins.append((p, c.bb, "active_tunnels insert", c.span))
    sinks += ins
    for (p, bb, what, sp) in sinks:
        R.fn(p)
        ok, why = T.interproc_guarded(F, p, bb, auth_pred, [1])
        R.ob("GS-auth", "%s in %s" % (what, p), ok, True,
             {"rule": "GS-auth", "sink": what, "fn": p, "loc": sp.loc, "guard": why})
        if not ok:
            R.violation("GS-auth", "%s/%s" % (p, what),
                        "%s is reachable without passing the Some edge of is_authorized: %s" % (what, why), sp.loc)
    R.floor("GS-auth/tunn-calls", n_tunn, 2, "Tunn::handle_incoming_packet + handle_outgoing_packet call sites in snap_tun::server")
    R.floor("GS-auth/forwarded", len(fwd), 1, "constructions of HandleIncomingPacketResult::Forwarded")
    R.floor("GS-auth/insert", len(ins), 1, "insertions into active_tunnels")

    # ---- (2) provenance of the identity
    auth_calls = [(p, c) for (p, c) in T.call_sites(F, IS_AUTH, crates=["snap_tun"]) if in_server(p)]
    R.floor("FLOW-identity", len(auth_calls), 3, "is_authorized call sites in snap_tun::server")
    for (p, c) in auth_calls:
        b = F.body(p)
        o = b.origin(c.args[2])
        tk = tokens(o)
        ok = ("field:peer_static" in tk) or ("field:peer_static_public" in tk)
        R.ob("FLOW-identity", "identity argument of is_authorized in %s: %s" % (short(p), fmt(o, 120)), ok, True)
        if not ok:
            R.violation("FLOW-identity", "%s/identity-origin" % p,
                        "identity passed to is_authorized does not originate in the tunnel's peer_static / the handshake's "
                        "peer_static_public: %s" % fmt(o, 200), c.span.loc)
        # FLOW-now: "authorised at that moment" — the instant the registration is checked against is read in this very call
        # (Instant::now()) or handed in by the caller as a parameter; an instant stored in the server (last event, last tick)
        # is stale by the time an outbound payload is handled
        on = PN._peel_refs(strip_sites(b.origin(c.args[1])))
        fresh = (on[0] == "call" and on[1].endswith("Instant::now")) or on[0] == "param"
        R.ob("FLOW-now", "is_authorized in %s is asked about a fresh instant: %s" % (short(p), fmt(on, 60)), fresh, True,
             {"rule": "FLOW-now", "fn": p, "loc": c.span.loc, "instant": fmt(on, 100), "holds": fresh})
        if not fresh:
            R.violation("FLOW-now", "%s/now" % p, "the registration is checked against %s, not against the current time: payloads keep flowing after the "
                        "registration lapsed until the stored instant is refreshed" % fmt(on, 100), c.span.loc)
        if "field:peer_static_public" in tk:
            # handshake path: the same parsed key must reach Tunn::new and ActiveTunnel.peer_static
            src = [n for n in walk(o) if n[0] == "call" and n[1].endswith("parse_handshake_anon")]
            news = b.calls_to("ana_gotatun::noise::Tunn::new")
            ok2 = bool(src) and bool(news)
            for nc in news:
                ot = b.origin(nc.args[1])
                if not src or not any(n[0] == "call" and n[5] == src[0][5] for n in walk(ot)):
                    ok2 = False
            aggs = [s for blk in b.blocks for s in blk["s"] if s[0] == "=" and s[2][0] == "agg" and s[2][1][0] == "adt"
                    and s[2][1][1] == "snap_tun::server::ActiveTunnel"]
            for s in aggs:
                ot = b.origin(s[2][2][0])
                if not src or not any(n[0] == "call" and n[5] == src[0][5] for n in walk(ot)):
                    ok2 = False
            if not aggs:
                ok2 = False
            R.ob("FLOW-attribution", "handshake identity → Tunn::new and ActiveTunnel.peer_static in %s" % short(p), ok2, True)
            if not ok2:
                R.violation("FLOW-attribution", "%s/handshake-identity" % p,
                            "the identity authorised for a new handshake is not the one the tunnel is created with / stored under",
                            c.span.loc)

    # ---- (3) registry
    reg = "snap_control::server::identity_registry::"
    f_isauth = reg + "IdentityRegistration::is_authorized"
    b = F.body(f_isauth)
    if b is None:
        R.anchor_missing(f_isauth)
    else:
        R.fn(f_isauth)
        o = b.local_origin(0)
        calls = [n for n in walk(o) if n[0] == "call"]
        ok = False
        for n in calls:
            if n[1].endswith("::gt") or (n[3] or "").endswith("PartialOrd::gt"):
                a0, a1 = tokens(n[2][0]), tokens(n[2][1])
                if "field:expires_at" in a0 and "param:2" in a1:
                    ok = True
            if n[1].endswith("::lt") or (n[3] or "").endswith("PartialOrd::lt"):
                a0, a1 = tokens(n[2][0]), tokens(n[2][1])
                if "field:expires_at" in a1 and "param:2" in a0:
                    ok = True
        if o[0] == "bin" and o[1] == "Gt" and "field:expires_at" in tokens(o[2]) and "param:2" in tokens(o[3]):
            ok = True
        R.ob("GS-expiry", "IdentityRegistration::is_authorized == (expires_at > now): %s" % fmt(o, 160), ok, True)
        if not ok:
            R.violation("GS-expiry", f_isauth, "registration validity is not the strict comparison expires_at > now: %s" % fmt(o, 200), F.loc(f_isauth))
    f_state = reg + "IdentityRegistryState::is_authorized"
    b = F.body(f_state)
    if b is None:
        R.anchor_missing(f_state)
    else:
        R.fn(f_state)
        o = b.local_origin(0)
        tk = tokens(o)
        closures = [t[8:] for t in tk if t.startswith("closure:")]
        filt = any(t.startswith("fn:") and t.endswith("Option::<T>::filter") for t in tk)
        calls_auth = False
        for cl in closures:
            cb = F.body(cl)
            if cb and cb.calls_to(f_isauth):
                c0 = cb.calls_to(f_isauth)[0]
                # `now` must be the captured parameter
                calls_auth = True
        ok = filt and calls_auth and "field:sessions" in tk and "param:3" in tk
        R.ob("GS-expiry", "session lookup filters through IdentityRegistration::is_authorized: %s" % fmt(o, 200), ok, True)
        if not ok:
            R.violation("GS-expiry", f_state, "IdentityRegistryState::is_authorized no longer filters the session by its expiry: %s" % fmt(o, 240), F.loc(f_state))
    # writers of sessions / associations
    MUTATORS = ("::insert", "::remove", "::retain", "::clear", "::entry", "::append", "::extend", "::pop_first", "::pop_last",
                "::get_mut", "::values_mut", "::iter_mut", "::split_off", "::extract_if", "::first_entry", "::last_entry", "::remove_entry")
    writers = {}
    for p in F.all_body_paths("snap_control"):
        if T.is_test_support(p):
            continue
        pb = F.body(p)
        for c in pb.calls:
            if c.indirect or not any(c.decl.endswith(m) for m in MUTATORS):
                continue
            if "BTreeMap" not in c.decl and "BTreeMap" not in (c.res or ""):
                continue
            tk = tokens(pb.origin(c.args[0])) if c.args else set()
            for fld in ("sessions", "associations"):
                if "field:" + fld in tk:
                    writers.setdefault(p, []).append((fld, short(c.decl), c.span.loc))
        for bi, blk in enumerate(pb.blocks):
            for s in blk["s"]:
                if s[0] == "=" and any(isinstance(x, list) and x[0] == "f" and x[2] in ("sessions", "associations") for x in s[1][1]):
                    ty = pb.local_ty(s[1][0])
                    if "IdentityRegistryState" in ty:
                        writers.setdefault(p, []).append((s[1][1], "store", pb.span_of(s[3]).loc))
    allowed = (reg + "IdentityRegistryState::add_identity", reg + "IdentityRegistryState::clean_expired")
    nw = 0
    for p, ws in writers.items():
        root = F.fns[p].get("root", p) if F.fns[p]["kind"] == "Closure" else p
        ok = root.startswith(allowed[0]) or root.startswith(allowed[1]) or p.startswith(allowed)
        for w in ws:
            nw += 1
            R.ob("WMC-registry", "%s writes %s via %s" % (short(p), w[0], w[1]), ok, True)
            if not ok:
                R.violation("WMC-registry", "%s/%s/%s" % (p, w[0], w[1]),
                            "registry map %s is modified outside add_identity/clean_expired (in %s)" % (w[0], p), w[2])
    R.floor("WMC-registry", nw, 6, "mutating BTreeMap calls on sessions/associations")
    # add_identity / clean_expired only via update_state closures; state.store only in update_state under write_lock
    upd = reg + "IdentityRegistry::update_state"
    for target in allowed:
        for (p, c) in T.call_sites(F, target, crates=["snap_control"]):
            e = F.fns[p]
            ok = False
            if e["kind"] == "Closure":
                root = e["root"]
                rb = F.body(root)
                # the closure must be an argument of update_state in its creator
                for uc in rb.calls_to(upd):
                    if ("closure:" + p) in set().union(*[tokens(rb.origin(a)) for a in uc.args]):
                        ok = True
            R.ob("LOCK-registry", "%s called from %s" % (short(target), short(p)), ok, True)
            if not ok:
                R.violation("LOCK-registry", "%s/caller/%s" % (target, p),
                            "%s is called outside an update_state closure (no write_lock, no copy-on-write publish)" % short(target), c.span.loc)
    ub = F.body(upd)
    if ub is None:
        R.anchor_missing(upd)
    else:
        R.fn(upd)
        stores = ub.calls_to(lambda n: n.endswith("::store") and "ArcSwap" in n)
        locks = ub.calls_to(lambda n: n.endswith("Mutex::<T>::lock"))
        lock_ok = False
        for lk in locks:
            if "field:write_lock" in tokens(ub.origin(lk.args[0])):
                # the lock call dominates the modifier call and the store; guard dropped after the store
                sts = [s for s in stores]
                if sts and all(ub.dominates(lk.bb, s.bb) for s in sts):
                    lock_ok = True
        R.ob("LOCK-registry", "update_state: write_lock.lock() dominates state.store()", lock_ok and bool(stores), True)
        if not (lock_ok and stores):
            R.violation("LOCK-registry", upd + "/lock-dominates-store", "state.store is not dominated by write_lock.lock() in update_state", F.loc(upd))
        # the whole read-modify-write is inside the critical section: the snapshot (state.load()) and the modifier call
        # are taken after the lock — a snapshot taken before it can be stale when published (lost update: a superseded
        # identity is re-instated)
        loads = ub.calls_to(lambda n: n.endswith("::load") and "ArcSwap" in n)
        mods = [c for c in ub.calls if c.decl.endswith("FnOnce::call_once") or c.indirect]
        lks = [lk for lk in locks if "field:write_lock" in tokens(ub.origin(lk.args[0]))]
        rmw_ok = bool(lks) and bool(loads) and all(any(ub.dominates(lk.bb, x.bb) and lk.bb != x.bb for lk in lks) for x in list(loads) + mods)
        R.ob("LOCK-registry", "update_state: write_lock.lock() dominates the snapshot load and the modifier call (%d load, %d modifier call)" % (len(loads), len(mods)),
             rmw_ok, True, {"rule": "LOCK-registry", "fn": upd, "loads": len(loads), "modifier_calls": len(mods), "holds": rmw_ok})
        if not rmw_ok:
            R.violation("LOCK-registry", upd + "/lock-dominates-load", "update_state takes its snapshot of the registry state (or runs the modifier) before "
                        "acquiring write_lock: two concurrent updates can both start from the same snapshot and the later store overwrites the "
                        "earlier one — a superseded or removed identity is authorised again", F.loc(upd))
        others = [(p, c) for (p, c) in T.call_sites(F, lambda n: n.endswith("::store") and "ArcSwap" in n, crates=["snap_control"])
                  if p.startswith(reg) and p != upd]
        for (p, c) in others:
            R.violation("LOCK-registry", p + "/store", "registry state is published outside update_state", c.span.loc)
    # add_identity ordering
    ai = reg + "IdentityRegistryState::add_identity"
    ab = F.body(ai)
    if ab is None:
        R.anchor_missing(ai)
    else:
        R.fn(ai)
        def on(fld, suffix):
            return [c for c in ab.calls if not c.indirect and c.decl.endswith(suffix) and c.args and ("field:" + fld) in tokens(ab.origin(c.args[0]))]
        s_ins = on("sessions", "::insert")
        a_ins = on("associations", "::insert")
        a_ret = on("associations", "::retain")
        s_rem = on("sessions", "::remove")
        ok = bool(s_ins and a_ins and a_ret and s_rem)
        if ok:
            ok = all(ab.dominates(a_ins[0].bb, x.bb) for x in s_ins) and all(ab.dominates(a_ret[0].bb, x.bb) for x in s_ins)
            # the removed session is the previous identity returned by associations.insert
            ro = ab.origin(s_rem[0].args[1])
            ok = ok and any(n[0] == "call" and n[1].endswith("::insert") and "field:associations" in tokens(n[2][0]) for n in walk(ro))
            # and the removal happens before the insert on every path that reaches it
            ok = ok and s_ins[0].bb in ab.reach([s_rem[0].bb])
        # no exit bypasses the key→identity update: every return passes associations.insert, or a branch that
        # inspects the associations map (a refresh fast path is only sound when it has checked that this key
        # already maps to this identity)
        rets = [x for x in ab.live_blocks() if ab.term(x)[0] == "ret"]
        assoc_tests = [g for g in ab.live_blocks() if ab.term(g)[0] == "switch" and "field:associations" in tokens(ab.origin(ab.term(g)[1]))]
        if a_ins:
            mp, bad = T.must_pass(ab, rets, [a_ins[0].bb] + assoc_tests)
            R.ob("FLOW-one-identity-per-key", "add_identity: no return bypasses the key association update", mp, True)
            if not mp:
                R.violation("FLOW-one-identity-per-key", ai + "/bypass",
                            "add_identity can return without updating (or inspecting) the key→identity association: an identity "
                            "superseded under its key stays registered, and an identity can end up under two keys", F.loc(ai))
        R.ob("FLOW-one-identity-per-key", "add_identity: associations.insert → remove previous session → retain other keys → sessions.insert", ok, True)
        if not ok:
            R.violation("FLOW-one-identity-per-key", ai, "add_identity no longer removes the previous identity of the key and the identity's other keys before inserting", F.loc(ai))
