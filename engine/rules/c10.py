"""C10 — a SNAP token is accepted exactly when authentic, for SNAP, and within lifetime."""
import re
import templates as T
import panic as PN
from facts import tokens, fmt, short, walk, strip_sites

CRATES = ["snap_control", "snap_tokens", "scion_sdk_token_validator"]

EXPLANATION = (
    "Configuration-typestate and provenance analysis on MIR. (V1) The jsonwebtoken::Validation that reaches decode() is "
    "built only by build_validation: all operations applied to it between construction and use form a set that is compared "
    "with tables/jwt_validation.toml — required {new(Algorithm::EdDSA), set_required_spec_claims(AnyClaims::required_claims()), "
    "set_audience([\"snap\"]), validate_nbf=true}; forbidden {any other field store, insecure_disable_signature_validation, "
    "dangerous::*}. (V2) the verifier's validation field is only initialised from build_validation(). (V3) claims are only "
    "produced by decode::<AnyClaims>(token, key, &self.validation) with key = JWKS lookup of the header kid or the static key; "
    "an unknown kid returns Err. (V4) AuthMiddleware forwards the request and inserts the claims only on the verifier's Ok "
    "edge. (V5) the router returned by nest_crpc_api is wrapped in AuthMiddlewareLayer before it is merged. (V6) the "
    "registration lifetime is exp_time(claims).duration_since(now) and nothing else, its Err returning an error."
)
EXPLANATION_ADD = " Additions: (FLOW-lifetime spine) only value-preserving steps between duration_since and the register argument; (REQ-claims) the derived deserializers require every non-optional claims field; (PAIR-jwks) a JWKS refresh overwrites an entry's jwk only together with its decoding_key."
EXPLANATION = EXPLANATION + EXPLANATION_ADD
RESIDUAL = ["jsonwebtoken / ed25519 internals (trusted base)", "base64 variants accepted by the JWT library",
            "that jsonwebtoken's validate_nbf defaults to false is read from the vendored crate source (10.4.0), not from MIR"]
ASSUMPTIONS = ["jsonwebtoken::decode enforces exactly what the Validation object describes",
               "axum layers wrap only routes registered before .layer()"]
TECHNIQUE = "configuration typestate (operation-set vs spec table), provenance and guarded-success on MIR"

BV = "snap_control::server::token_verifier::build_validation"
VERIFY = "snap_control::server::token_verifier::SnapTokenVerifier::verify::{closure#0}"

REQUIRED_CALLS = {
    "Validation::new": lambda tk: any(t.startswith("adt:jsonwebtoken::") and t.endswith("Algorithm::EdDSA") for t in tk),
    "Validation::set_required_spec_claims": lambda tk: any(t.endswith("::required_claims") for t in tk),
    "Validation::set_audience": lambda tk: "lit:str:snap" in tk,
}
ALLOWED_CALLS = set(REQUIRED_CALLS) | {"Validation::set_issuer"}


def _vname(decl):
    return "::".join(decl.split("::")[-2:])
REQUIRED_STORES = {"validate_nbf": 1}
FORBIDDEN_ANYWHERE = ("insecure_disable_signature_validation", "jsonwebtoken::dangerous", "insecure_decode", "dangerous_insecure_decode")


def run(F, R, tier, cfg):
    b = F.body(BV)
    if b is None:
        R.anchor_missing(BV)
    else:
        R.fn(BV)
        # the Validation local: destination of Validation::new
        news = b.calls_to(lambda n: n.startswith("jsonwebtoken::") and n.endswith("Validation::new"))
        ops_seen = {}
        for c in b.calls:
            if c.indirect or not c.decl.startswith("jsonwebtoken::"):
                continue
            tk = set()
            for a in c.args[(0 if c.decl.endswith("::new") else 1):]:
                tk |= tokens(b.origin(a))
            ops_seen.setdefault(_vname(c.decl), []).append((tk, c.span.loc))
        for name, pred in REQUIRED_CALLS.items():
            ok = name in ops_seen and all(pred(tk) for tk, _ in ops_seen[name])
            R.ob("CFGV-required", "%s with the required argument" % short(name), ok, True)
            if not ok:
                R.violation("CFGV-required", name, "validation profile lacks %s with the required argument (EdDSA / required claims / audience \"snap\")" % short(name), F.loc(BV))
        for name in ops_seen:
            if name not in ALLOWED_CALLS:
                R.ob("CFGV-forbidden", "no unexpected operation %s" % name, False, True)
                R.violation("CFGV-forbidden", name, "validation profile applies an operation outside the reviewed table: %s" % name, ops_seen[name][0][1])
        # field stores on the Validation local
        vlocals = {c.dest[0] for c in news}
        for l in range(len(b.locals)):
            if b.local_ty(l).startswith("jsonwebtoken::") and b.local_ty(l).endswith("::Validation"):
                vlocals.add(l)
        stores = {}
        for bi in sorted(b.live_blocks()):
            for s in b.stmts(bi):
                if s[0] == "=" and s[1][0] in vlocals and s[1][1]:
                    fld = [p[2] for p in s[1][1] if isinstance(p, list) and p[0] == "f"]
                    val = b._rvalue_origin(s[2], 8, frozenset())
                    stores[fld[0] if fld else "?"] = (val, b.span_of(s[3]).loc)
        for fld, want in REQUIRED_STORES.items():
            ok = fld in stores and stores[fld][0][0] == "lit" and stores[fld][0][1] in (want, bool(want))
            R.ob("CFGV-required", "Validation.%s = %s" % (fld, bool(want)), ok, True)
            if not ok:
                R.violation("CFGV-required", "Validation." + fld,
                            "validation profile never sets %s = true: jsonwebtoken's default is false, so a token whose not-before "
                            "time lies in the future is accepted" % fld, F.loc(BV))
        for fld, (val, loc) in stores.items():
            if fld not in REQUIRED_STORES:
                R.ob("CFGV-forbidden", "no store to Validation.%s" % fld, False, True)
                R.violation("CFGV-forbidden", "Validation." + fld, "validation profile overrides %s (= %s), outside the reviewed table" % (fld, fmt(val, 60)), loc)
        # returned object is the configured one
        o = b.local_origin(0)
        R.ob("CFGV-required", "build_validation returns the configured object", any(t.startswith("fn:jsonwebtoken::") and t.endswith("Validation::new") for t in tokens(o)), False)
    # forbidden anywhere in the token crates
    bad = []
    for p in F.all_body_paths():
        if T.is_test_support(p) or F.fns[p]["_crate"] not in ("snap_control", "snap_tokens", "scion_sdk_token_validator"):
            continue
        for c in F.body(p).calls:
            if not c.indirect and any(x in c.decl for x in FORBIDDEN_ANYWHERE):
                bad.append((p, c))
    R.ob("CFGV-forbidden", "no insecure/dangerous jsonwebtoken API used in snap-control/snap-tokens/token-validator", not bad, True)
    for (p, c) in bad:
        R.violation("CFGV-forbidden", p + "/" + short(c.decl), "insecure JWT API %s is used" % c.decl, c.span.loc)

    # ---- V2: where does SnapTokenVerifier.validation come from
    cons = T.adt_constructions(F, "snap_control::server::token_verifier::SnapTokenVerifier", crates=["snap_control"])
    R.floor("FLOW-validation-field", len(cons), 1, "constructions of SnapTokenVerifier")
    for (p, bi, si, sp) in cons:
        pb = F.body(p)
        s = pb.stmts(bi)[si]
        names = s[2][1][4] if len(s[2][1]) > 4 else []
        idx = names.index("validation") if "validation" in names else None
        ok = False
        if idx is not None:
            o = pb.origin(s[2][2][idx])
            ok = o[0] == "call" and o[1] == BV
            if o[0] == "call" and o[1].endswith("Clone>::clone") and "field:validation" in tokens(o[2][0]) and "param:1" in tokens(o[2][0]):
                ok = True      # #[derive(Clone)]: copy of an existing verifier's profile
        R.ob("FLOW-validation-field", "SnapTokenVerifier.validation initialised from build_validation() in %s" % short(p), ok, True)
        if not ok:
            R.violation("FLOW-validation-field", p, "a verifier is constructed with a validation profile that does not come from build_validation", sp.loc)
    for p in F.all_body_paths("snap_control"):
        if T.is_test_support(p):
            continue
        pb = F.body(p)
        for bi, blk in enumerate(pb.blocks):
            for s in blk["s"]:
                if s[0] == "=" and s[1][1] and any(isinstance(x, list) and x[0] == "f" and x[2] == "validation" for x in s[1][1]) \
                        and "SnapTokenVerifier" in pb.local_ty(s[1][0]):
                    R.violation("FLOW-validation-field", p + "/store", "the verifier's validation profile is overwritten after construction", pb.span_of(s[3]).loc)

    # ---- V3: verify()
    vb = F.body(VERIFY)
    if vb is None:
        R.anchor_missing(VERIFY)
    else:
        R.fn(VERIFY)
        decs = vb.calls_to(lambda n: n.startswith("jsonwebtoken::") and n.endswith("::decode"))
        R.floor("GS-decode", len(decs), 1, "jsonwebtoken::decode call in verify")
        oks = [bb for (bb, idx, adt, var) in T.result_variant_defs(vb) if var == "Ok"]
        for c in decs:
            ok = bool(c.ga) and c.ga[0] == "snap_tokens::AnyClaims"
            ok = ok and "field:validation" in tokens(vb.origin(c.args[2])) and "env" in tokens(vb.origin(c.args[2]))
            ko = vb.origin(c.args[1])
            ko = ko[2] if ko[0] == "ref" else ko
            alts = ko[1] if ko[0] == "phi" else (ko,)
            for a in alts:
                tk = tokens(a)
                if "field:static_key" in tk and any(t.endswith("Clone>::clone") for t in tk):
                    continue
                if any(t.endswith("JwksKeyStore::await_key") or t.endswith("await_key::{closure#0}") for t in tk):
                    aw = vb.calls_to(lambda n: n.endswith("JwksKeyStore::await_key"))
                    if aw and all("field:kid" in tokens(vb.origin(x.args[1])) and any(t.startswith("fn:jsonwebtoken::") and t.endswith("::decode_header") for t in tokens(vb.origin(x.args[1]))) for x in aw):
                        continue
                ok = False
            R.ob("GS-decode", "decode::<AnyClaims>(token, jwks[kid] | static_key, &self.validation)", ok, True,
                 {"rule": "GS-decode", "key_origin": fmt(ko, 300), "holds": ok})
            if not ok:
                R.violation("GS-decode", VERIFY + "/decode-args", "token is decoded with an unexpected key / validation / claims type: key=%s" % fmt(ko, 200), c.span.loc)
        # Ok payload is the decoded claims
        okp = True
        for d in vb.defs.get(0, ()):
            if d[0] == "assign" and d[4][0] == "agg" and d[4][1][0] == "adt" and d[4][1][2] == "Ok":
                tk = tokens(vb.origin(d[4][2][0]))
                if not (any(t.startswith("fn:jsonwebtoken::") and t.endswith("::decode") for t in tk) and "field:claims" in tk):
                    okp = False
        def dp(tk, o, g):
            return o[0] == "disc" and any(t.startswith("fn:jsonwebtoken::") and t.endswith("::decode") for t in tk)
        okg, info = T.gs_check(vb, oks, dp)
        R.ob("GS-decode", "verify: Ok(claims) only from a successful decode", okp and okg, True)
        if not (okp and okg):
            R.violation("GS-decode", VERIFY + "/ok-exit", "verify can return claims that did not pass decode(): %s" % info.get("why"), F.loc(VERIFY.replace("::{closure#0}", "")))
        # unknown kid -> Err
        def kp(tk, o, g):
            return o[0] == "disc" and any(t.endswith("await_key::{closure#0}") or t.endswith("JwksKeyStore::await_key") for t in tk)
        gs = T.guard_blocks(vb, kp)
        okk = False
        for g in gs:
            none_t = T.pass_targets(vb, g, [0])
            r = vb.reach(list(none_t), avoid=[g])
            if not any(c.bb in r for c in decs) and not any(x in r for x in oks):
                okk = True
        R.ob("GS-decode", "unknown kid never reaches decode()/Ok", okk, True)
        if not okk:
            R.violation("GS-decode", VERIFY + "/unknown-kid", "a token naming an unknown kid is not refused before decoding", F.loc(VERIFY.replace("::{closure#0}", "")))

    # ---- V4: middleware
    mids = [p for p in F.all_body_paths("snap_control") if "auth::" in p and "AuthMiddleware" in p and "::call::{closure#" in p and not T.is_test_support(p)]
    n = 0
    for p in mids:
        pb = F.body(p)
        sinks = [c for c in pb.calls if not c.indirect and (c.decl.endswith("Service::call") or c.decl.endswith("Extensions::insert"))]
        if not sinks:
            continue
        R.fn(p)
        def vp(tk, o, g):
            return o[0] == "disc" and any(t.endswith("SnapTokenVerifier::verify") or t.endswith("verify::{closure#0}") for t in tk)
        for c in sinks:
            n += 1
            ok, g = T.guarded_by(pb, c.bb, vp, [0])
            R.ob("GS-middleware", "%s only on the verifier's Ok edge" % short(c.decl), ok, True)
            if not ok:
                R.violation("GS-middleware", p + "/" + short(c.decl), "the request is forwarded / claims are attached without a successful token verification", c.span.loc)
    R.floor("GS-middleware", n, 2, "inner.call + extensions.insert in AuthMiddleware::call")

    # ---- V5: layering
    br = [p for p in F.fns_named("build_router") if p.startswith("snap_control::server")]
    if not br:
        R.anchor_missing("snap_control::server::build_router")
    for p in br:
        pb = F.body(p)
        R.fn(p)
        nests = pb.calls_to(lambda n: n.endswith("crpc::nest_crpc_api"))
        R.floor("FLOW-layer", len(nests), 1, "nest_crpc_api call in build_router")
        merges = [c for c in pb.calls if not c.indirect and c.decl.endswith("Router::<S>::merge")]
        ok = bool(nests) and bool(merges)
        found = False
        for c in merges:
            for a in c.args:
                tk = tokens(pb.origin(a))
                if any(t.endswith("crpc::nest_crpc_api") for t in tk):
                    found = True
                    if not any(t.endswith("AuthMiddlewareLayer::new") for t in tk):
                        ok = False
        # every use of the nest result goes through .layer(AuthMiddlewareLayer)
        for c in pb.calls:
            if c.indirect or c in merges:
                continue
            if c.decl.endswith("Router::<S>::layer"):
                continue
        ok = ok and found
        R.ob("FLOW-layer", "the CRPC router is wrapped in AuthMiddlewareLayer before being merged", ok, True)
        if not ok:
            R.violation("FLOW-layer", p, "the authenticated API router is merged without the auth middleware layer", F.loc(p))

    # ---- V6: lifetime
    hs = [p for p in F.all_body_paths("snap_control") if p.endswith("register_snaptun_identity_handler::{closure#0}")]
    if not hs:
        R.anchor_missing("register_snaptun_identity_handler")
    for p in hs:
        pb = F.body(p)
        R.fn(p)
        regs = [c for c in pb.calls if not c.indirect and c.decl.endswith("SnapTunIdentityRegistry::register")]
        R.floor("FLOW-lifetime", len(regs), 1, "SnapTunIdentityRegistry::register call")
        for c in regs:
            o = pb.origin(c.args[5])
            tk = tokens(o)
            ok = o[0] != "phi" and any(t.endswith("SystemTime::duration_since") for t in tk) and any(t.endswith("::exp_time") for t in tk) \
                and any(t.endswith("SystemTime::now") for t in tk) and not any(t.startswith("op:") for t in tk)
            # shape: Continue payload of `?` on map_err(duration_since(exp_time(claims), now))
            ds = [n for n in walk(o) if n[0] == "call" and n[1].endswith("SystemTime::duration_since")]
            if ds:
                ok = ok and any(t.endswith("::exp_time") for t in tokens(ds[0][2][0])) and any(t.endswith("SystemTime::now") for t in tokens(ds[0][2][1]))
            # spine: from the register argument down to duration_since only value-preserving steps (`?`, map_err, projections);
            # or_else / unwrap_or / map / and_then can substitute or alter the duration
            x, spine_ok, spine = o, False, []
            for _ in range(12):
                if x[0] in ("field", "downcast", "deref"):
                    x = x[1]
                elif x[0] == "ref":
                    x = x[2]
                elif x[0] == "call":
                    spine.append(short(x[1]))
                    if x[1].endswith("SystemTime::duration_since"):
                        spine_ok = True
                        break
                    if re.search(r"::(branch|map_err)$", x[1]) and x[2]:
                        x = x[2][0]
                    else:
                        break
                else:
                    break
            ok = ok and spine_ok
            R.ob("FLOW-lifetime", "lifetime = exp_time(claims).duration_since(now)? : %s" % fmt(o, 200), ok, True,
                 {"rule": "FLOW-lifetime", "fn": p, "spine": spine, "holds": ok})
            if not ok:
                R.violation("FLOW-lifetime", p + "/lifetime", "the registration lifetime is not (only) the token's remaining lifetime: %s" % fmt(o, 240), c.span.loc)

    version_dispatch(F, R)
    required_claims_rule(F, R)
    jwks_pair_rule(F, R)


DESER = "<snap_tokens::AnyClaims as serde_core::de::Deserialize<'de>>::deserialize"


def version_dispatch(F, R):
    """V7 — claims-version dispatch: AnyClaims::V0 (the legacy claims, which carry no iss/aud/nbf/iat) is
    constructed only when the `ver` claim is absent — on the None edge of a switch on the Option returned
    by Value::get(_, "ver") itself, not on a value derived from it — and AnyClaims::V1 only under the
    `as_u64() == 1` arm.  A `ver` that is present but not the number 1 must not fall through to V0."""
    b = F.body(DESER)
    if b is None:
        R.anchor_missing(DESER)
        return
    R.fn(DESER)
    cons = {}
    for bi in sorted(b.live_blocks()):
        for st in b.stmts(bi):
            if st[0] == "=" and st[2][0] == "agg" and st[2][1][0] == "adt" and st[2][1][1] == "snap_tokens::AnyClaims":
                cons.setdefault(st[2][1][2], []).append((bi, b.span_of(st[3])))
    R.floor("TBL-version", len(cons.get("V0", [])) + len(cons.get("V1", [])), 2, "constructions of AnyClaims::V0 / ::V1 in Deserialize")

    def is_get_ver(o):
        x = o[1] if o[0] == "disc" else None
        while isinstance(x, tuple) and x and x[0] in ("ref", "deref"):
            x = x[2] if x[0] == "ref" else x[1]
        return bool(x) and x[0] == "call" and x[1] == "serde_json::value::Value::get" and len(x[2]) == 2 and x[2][1] == ("lit", "str:ver", "&str")

    for (bi, sp) in cons.get("V0", []):
        ok, g = T.guarded_by(b, bi, lambda tk, o, g: is_get_ver(o), [0])
        R.ob("TBL-version", "AnyClaims::V0 only when Value::get(\"ver\") is None", ok, True, {"rule": "TBL-version", "loc": sp.loc, "guard_block": g, "holds": ok})
        if not ok:
            R.violation("TBL-version", DESER + "/V0", "legacy V0 claims (no iss/aud/nbf) can be produced although a `ver` claim is present: the V0 "
                        "construction is not on the None edge of Value::get(\"ver\")", sp.loc)
    for (bi, sp) in cons.get("V1", []):
        def p1(tk, o, g):
            return b.term(g)[4] == "u64" and any(t.endswith("Value::as_u64") for t in tk) and any(t.endswith("Value::get") for t in tk)
        ok, g = T.guarded_by(b, bi, p1, [1])
        R.ob("TBL-version", "AnyClaims::V1 only when ver.as_u64() == 1", ok, True, {"rule": "TBL-version", "loc": sp.loc, "guard_block": g, "holds": ok})
        if not ok:
            R.violation("TBL-version", DESER + "/V1", "V1 claims can be produced for a `ver` other than the number 1", sp.loc)
    other = [k for k in cons if k not in ("V0", "V1")]
    R.extra["claims_versions_constructed"] = sorted(cons)


def required_claims_rule(F, R):
    """REQ-claims: a token is 'within lifetime' only if it says when it starts and ends.  For both claim versions the derived
    Deserialize must *require* every non-optional field of the claims struct: for each field whose type is not Option<_> (and
    that is not the flattened map of private claims) the generated visit_map contains `Error::missing_field("<name>")`.
    `#[serde(default)]` on exp/nbf/iat silently turns an absent claim into 0."""
    n = 0
    for ver in ("v0", "v1"):
        adt = F.adts.get("snap_tokens::%s::SnapTokenClaims" % ver)
        vm = [p for p in F.all_body_paths("snap_tokens") if ("for snap_tokens::%s::SnapTokenClaims>" % ver) in p and p.endswith("visit_map")]
        if adt is None or not vm:
            R.anchor_missing("snap_tokens::%s::SnapTokenClaims / its derived visit_map" % ver)
            continue
        b = F.body(vm[0])
        R.fn(vm[0])
        req = set()
        for c in b.calls:
            if not c.indirect and c.decl.endswith("missing_field") and c.bb in b.live_blocks():
                m = re.search(r"str:(\w+)", fmt(strip_sites(b.origin(c.args[0])), 60))
                if m:
                    req.add(m.group(1))
        want = {f[0] for f in adt["variants"][0][2] if not f[1].startswith("core::option::Option") and "BTreeMap" not in f[1] and "HashMap" not in f[1]}
        n += 1
        missing = sorted(want - req)
        ok = not missing and bool(want)
        R.ob("REQ-claims", "%s claims: every non-optional field is required by the deserializer (%s)" % (ver, sorted(want)), ok, True,
             {"rule": "REQ-claims", "version": ver, "non_optional_fields": sorted(want), "required_by_deserializer": sorted(req), "holds": ok})
        if not ok:
            R.violation("REQ-claims", "%s/%s" % (ver, "+".join(missing)), "%s SnapTokenClaims: the deserializer does not require %s — a signed token without those claims "
                        "is accepted with the field defaulted (nbf/iat/exp = 0)" % (ver, missing), F.loc(vm[0]))
    R.floor("REQ-claims", n, 2, "claims versions (v0, v1)")


JWKS_FETCH = "snap_control::server::jwks_key_store::JwksKeyStore::do_fetch"


def jwks_pair_rule(F, R):
    """PAIR-jwks: 'authentic' is decided with the cached DecodingKey; the cache entry also stores the JWK it was derived from.
    Wherever a refresh overwrites an entry's `jwk` it must overwrite its `decoding_key` under the same conditions (or build a
    whole new KeyEntry) — otherwise a rotated key keeps verifying with the old material."""
    ps = [p for p in F.all_body_paths("snap_control") if p.startswith(JWKS_FETCH)]
    if not ps:
        R.anchor_missing(JWKS_FETCH)
        return
    n = 0
    for p in ps:
        b = F.body(p)
        stores = {"jwk": [], "decoding_key": []}
        for bb in sorted(b.live_blocks()):
            for st in b.stmts(bb):
                if st[0] == "=" and st[1][1] and isinstance(st[1][1][-1], list) and st[1][1][-1][0] == "f" and st[1][1][-1][2] in stores:
                    stores[st[1][1][-1][2]].append(bb)
            t = b.term(bb)
            if t[0] == "drop":
                pass
        # drop-and-replace of a field shows up as an assignment after a drop of the old value: both are `=` statements here
        if not stores["jwk"] and not stores["decoding_key"]:
            continue
        R.fn(p)
        for bb in stores["jwk"]:
            n += 1
            gj = sorted((g, pol) for g, cond, pol in PN._cmp_guards(b, bb))
            ok = any(sorted((g, pol) for g, cond, pol in PN._cmp_guards(b, d0)) == gj or b.dominates(d0, bb) or b.dominates(bb, d0) for d0 in stores["decoding_key"])
            R.ob("PAIR-jwks", "%s: entry.jwk overwritten together with entry.decoding_key" % short(p), ok, True,
                 {"rule": "PAIR-jwks", "fn": p, "jwk_store_block": bb, "decoding_key_store_blocks": stores["decoding_key"], "holds": ok})
            if not ok:
                R.violation("PAIR-jwks", p, "a JWKS refresh replaces a cache entry's `jwk` without replacing its `decoding_key`: after a key rotation under the same "
                            "kid, tokens signed with the replaced key keep verifying and tokens signed with the new key are refused", b.term_span(bb).loc)
    R.floor("PAIR-jwks", n, 1, "overwrites of a cached entry's jwk in JwksKeyStore::do_fetch")
