"""Fact base loader and generic program analyses over scifacts output.

Everything here works on the type-checked program dumped by the driver
(pre-lowering MIR, resolved callees, evaluated constants).  No scion-sdk code is
executed.  Python stdlib only.
"""
import json
import os
import re
import sys
from collections import defaultdict, deque

TOP = ("top",)
DEPTH = 40      # default expansion budget of origin trees

# --------------------------------------------------------------------------
# helpers on raw JSON encodings


def op_place(op):
    """operand -> place or None"""
    if op[0] in ("c", "m"):
        return op[1]
    return None


def op_const(op):
    if op[0] == "k":
        return op[1]
    return None


def const_int(op):
    """integer value of a constant operand, else None"""
    k = op_const(op)
    if k is None:
        return None
    v = k.get("v")
    if isinstance(v, int) and not isinstance(v, bool):
        return v
    return None


def is_fn_const(op):
    k = op_const(op)
    return k is not None and "fn" in k


class Span:
    __slots__ = ("file", "line", "col", "mac", "ifile", "iline")

    def __init__(self, crate, raw):
        self.file = crate.files[raw[0]]
        self.line = raw[1]
        self.col = raw[2]
        self.mac = crate.macs[raw[3]]
        if len(raw) > 4:
            self.ifile = crate.files[raw[4]]
            self.iline = raw[5]
        else:
            self.ifile = None
            self.iline = None

    @property
    def loc(self):
        return "%s:%d" % (self.file, self.line)

    def external_macro(self, crate_name):
        """True when the code comes from a macro defined outside the workspace
        crate (tracing, derive, format machinery…)."""
        if not self.mac:
            return False
        inner = self.mac.split(">")[0]
        return not inner.startswith(crate_name + "::")

    def __repr__(self):
        return self.loc + (" [%s]" % self.mac if self.mac else "")


# --------------------------------------------------------------------------
# Body


class Call:
    __slots__ = ("bb", "fn", "decl", "res", "rk", "args", "dest", "target", "unwind",
                 "span", "raw", "indirect", "ga", "trait", "selfty", "unsafe", "full")

    def __repr__(self):
        return "Call(bb%d %s)" % (self.bb, self.callee)

    @property
    def callee(self):
        """best known callee path (resolved impl method if known)"""
        if self.res and self.rk in ("item", "closure_once", "intrinsic", "reify", "vtable", "fnptr"):
            return self.res
        return self.decl

    def names(self):
        s = set()
        if self.decl:
            s.add(self.decl)
        if self.res:
            s.add(self.res)
        return s


class Body:
    def __init__(self, facts, crate, path, raw):
        self.facts = facts
        self.crate = crate
        self.path = path
        self.raw = raw
        self.argc = raw["argc"]
        self.locals = raw["locals"]
        self.blocks = raw["blocks"]
        self.upvars = raw.get("upvars")
        self.n = len(self.blocks)
        self._succ = None
        self._pred = None
        self._dom = None
        self._pdom = None
        self._defs = None
        self._calls = None
        self._omemo = {}
        self._constlocals = None
        self._pbodies = {}

    # ---------------- basic structure
    def term(self, b):
        return self.blocks[b]["t"]

    def stmts(self, b):
        return self.blocks[b]["s"]

    def is_cleanup(self, b):
        return bool(self.blocks[b].get("cleanup"))

    def span_of(self, raw):
        return Span(self.crate, raw)

    def term_span(self, b):
        return Span(self.crate, self.term(b)[-1])

    def local_ty(self, l):
        return self.locals[l][0]

    def local_name(self, l):
        return self.locals[l][1]

    def succs_of(self, b, unwind=False):
        t = self.term(b)
        k = t[0]
        out = []
        if k == "goto":
            out = [t[1]]
        elif k == "switch":
            cv = const_int(t[1])
            if cv is None:
                cv = self._const_local(t[1])
            if cv is not None:
                # constant condition (e.g. cfg!(debug_assertions)): only the taken edge exists
                out = [t[3]]
                for v, tgt in t[2]:
                    if v == cv:
                        out = [tgt]
                        break
            else:
                out = [a[1] for a in t[2]] + [t[3]]
        elif k in ("ret", "unreachable", "resume", "abort", "codrop", "tailcall"):
            out = []
        elif k == "drop":
            out = [t[2]]
            if unwind and t[3] is not None:
                out.append(t[3])
        elif k == "call":
            if t[4] is not None:
                out = [t[4]]
            if unwind and t[5] is not None:
                out.append(t[5])
        elif k == "assert":
            out = [t[5]]
            if unwind and t[6] is not None:
                out.append(t[6])
        elif k == "yield":
            out = [t[2]]
            if unwind and t[3] is not None:
                out.append(t[3])
        elif k == "falseedge":
            out = [t[1]]
        elif k == "falseunwind":
            out = [t[1]]
        elif k == "asm":
            out = []
        # dedupe, keep order
        seen = set()
        res = []
        for x in out:
            if x not in seen:
                seen.add(x)
                res.append(x)
        return res

    def _const_local(self, op):
        """value of a place operand whose local has a single definition `= const`"""
        pl = op_place(op)
        if pl is None or pl[1]:
            return None
        if self._constlocals is None:
            cnt = {}
            val = {}
            for blk in self.blocks:
                for s in blk["s"]:
                    if s[0] in ("=", "sd"):
                        l = s[1][0]
                        cnt[l] = cnt.get(l, 0) + 1
                        if s[0] == "=" and not s[1][1] and s[2][0] == "use":
                            v = const_int(s[2][1])
                            if v is not None:
                                val[l] = v
                t = blk["t"]
                if t[0] == "call":
                    cnt[t[3][0]] = cnt.get(t[3][0], 0) + 1
            self._constlocals = {l: v for l, v in val.items() if cnt.get(l) == 1 and not (1 <= l <= self.argc)}
        return self._constlocals.get(pl[0])

    @property
    def succ(self):
        if self._succ is None:
            self._succ = [self.succs_of(b) for b in range(self.n)]
        return self._succ

    @property
    def pred(self):
        if self._pred is None:
            p = [[] for _ in range(self.n)]
            for b, ss in enumerate(self.succ):
                for s in ss:
                    p[s].append(b)
            self._pred = p
        return self._pred

    def reach(self, starts, avoid=(), succ=None):
        """blocks reachable from `starts` (inclusive) never entering `avoid`."""
        succ = succ or self.succ
        avoid = set(avoid)
        seen = set()
        st = [s for s in starts if s not in avoid]
        seen.update(st)
        while st:
            b = st.pop()
            for s in succ[b]:
                if s not in seen and s not in avoid:
                    seen.add(s)
                    st.append(s)
        return seen

    def live_blocks(self):
        return self.reach([0])

    def reaches_backward(self, targets, avoid=()):
        """blocks from which some block in targets is reachable, not passing through avoid"""
        avoid = set(avoid)
        seen = set(t for t in targets if t not in avoid)
        st = list(seen)
        while st:
            b = st.pop()
            for p in self.pred[b]:
                if p not in seen and p not in avoid:
                    seen.add(p)
                    st.append(p)
        return seen

    @property
    def dom(self):
        """dom[b] = set of blocks dominating b (normal edges)."""
        if self._dom is None:
            self._dom = self._dominators(self.succ, self.pred, [0])
        return self._dom

    def _dominators(self, succ, pred, roots):
        n = self.n
        live = self.reach(roots, succ=succ)
        allb = set(live)
        dom = {b: set(allb) for b in live}
        for r in roots:
            dom[r] = {r}
        # reverse post order
        order = []
        seen = set()

        def dfs(r):
            stack = [(r, iter(succ[r]))]
            seen.add(r)
            while stack:
                b, it = stack[-1]
                adv = False
                for s in it:
                    if s not in seen:
                        seen.add(s)
                        stack.append((s, iter(succ[s])))
                        adv = True
                        break
                if not adv:
                    order.append(b)
                    stack.pop()

        for r in roots:
            if r not in seen:
                dfs(r)
        order.reverse()
        changed = True
        while changed:
            changed = False
            for b in order:
                if b in roots:
                    continue
                ps = [p for p in pred[b] if p in dom]
                if not ps:
                    continue
                new = set.intersection(*[dom[p] for p in ps]) | {b}
                if new != dom[b]:
                    dom[b] = new
                    changed = True
        return dom

    @property
    def pdom(self):
        """post-dominators w.r.t. normal `ret` exits: pdom[b] = blocks on every path b → return."""
        if self._pdom is None:
            exits = [b for b in range(self.n) if self.term(b)[0] == "ret"]
            # reversed graph; virtual root handled by multi-root intersection
            rsucc = self.pred
            rpred = self.succ
            if len(exits) == 1:
                self._pdom = self._dominators(rsucc, rpred, exits)
            else:
                # add virtual exit
                n = self.n
                rs = [list(x) for x in rsucc] + [list(exits)]
                rp = [list(x) for x in rpred] + [[]]
                for e in exits:
                    rp[e] = rp[e] + [n]
                old_n = self.n
                self.n = n + 1
                try:
                    d = self._dominators(rs, rp, [n])
                finally:
                    self.n = old_n
                self._pdom = {b: (s - {n}) for b, s in d.items() if b != n}
        return self._pdom

    def dominates(self, a, b):
        return b in self.dom and a in self.dom[b]

    # ---------------- calls
    @property
    def calls(self):
        if self._calls is None:
            out = []
            for b in range(self.n):
                t = self.term(b)
                if t[0] not in ("call", "tailcall"):
                    continue
                c = Call()
                c.bb = b
                c.raw = t
                c.fn = t[1]
                k = op_const(t[1])
                c.indirect = not (k is not None and "fn" in k)
                if not c.indirect:
                    c.decl = k["fn"]
                    c.res = k.get("res")
                    c.rk = k.get("rk")
                    c.ga = k.get("ga", [])
                    c.trait = k.get("trait")
                    c.selfty = k.get("self")
                    c.unsafe = bool(k.get("unsafe"))
                    c.full = k.get("full")
                else:
                    c.decl = None
                    c.res = None
                    c.rk = None
                    c.ga = []
                    c.trait = None
                    c.selfty = None
                    c.unsafe = False
                    c.full = None
                c.args = t[2]
                if t[0] == "call":
                    c.dest = t[3]
                    c.target = t[4]
                    c.unwind = t[5]
                else:
                    c.dest = None
                    c.target = None
                    c.unwind = None
                c.span = Span(self.crate, t[-1])
                out.append(c)
            self._calls = out
        return self._calls

    def calls_to(self, pred):
        """calls whose decl/resolved name satisfies pred (str -> bool) or equals a string/in a set."""
        if isinstance(pred, str):
            want = {pred}
            f = lambda n: n in want
        elif isinstance(pred, (set, frozenset, list, tuple)):
            want = set(pred)
            f = lambda n: n in want
        else:
            f = pred
        return [c for c in self.calls if any(f(n) for n in c.names())]

    # ---------------- definitions (def-use)
    @property
    def defs(self):
        """local -> list of defs; def = ("assign", bb, idx, proj, rvalue, span)
        | ("call", bb, proj, Call) | ("yield", bb, proj)"""
        if self._defs is None:
            d = defaultdict(list)
            calls_by_bb = {c.bb: c for c in self.calls}
            for b in range(self.n):
                for i, s in enumerate(self.stmts(b)):
                    if s[0] == "=":
                        pl = s[1]
                        d[pl[0]].append(("assign", b, i, pl[1], s[2], s[3]))
                    elif s[0] == "sd":
                        pl = s[1]
                        d[pl[0]].append(("setdisc", b, i, pl[1], s[2], s[3]))
                t = self.term(b)
                if t[0] == "call":
                    pl = t[3]
                    d[pl[0]].append(("call", b, None, pl[1], calls_by_bb[b], t[-1]))
                elif t[0] == "yield":
                    pass
            self._defs = d
        return self._defs

    # ---------------- origin trees
    def origin(self, op, depth=DEPTH):
        """origin tree of an operand."""
        k = op[0]
        if k == "k":
            return self._const_origin(op[1])
        return self.place_origin(op[1], depth)

    def _const_origin(self, k):
        if "fn" in k:
            return ("fnref", k.get("res") or k["fn"], k["fn"])
        if "u" in k and k.get("promoted") is not None:
            pr = self.raw.get("promoted")
            idx = k["promoted"]
            if pr and idx < len(pr) and not getattr(self, "_is_promoted", False):
                pb = self._pbodies.get(idx)
                if pb is None:
                    pb = Body(self.facts, self.crate, self.path + "::promoted[%d]" % idx, pr[idx])
                    pb._is_promoted = True
                    pb.raw = dict(pr[idx])
                    pb.raw["promoted"] = pr
                    self._pbodies[idx] = pb
                return ("promoted", pb.local_origin(0))
            return ("lit", None, k.get("ty"))
        if "u" in k:
            return ("const", k["u"], k.get("v"), k.get("ty"))
        if "v" in k:
            return ("lit", k["v"], k.get("ty"))
        return ("lit", None, k.get("ty"))

    def place_origin(self, pl, depth=DEPTH):
        l, proj = pl[0], pl[1]
        base = self.local_origin(l, depth)
        return self._apply_proj(base, proj, l)

    def _apply_proj(self, base, proj, l=None):
        cur = base
        for p in proj:
            if p == "*":
                if cur[0] == "ref":
                    cur = cur[2]
                elif cur[0] == "phi":
                    alts = []
                    for a in cur[1]:
                        alts.append(a[2] if a[0] == "ref" else ("deref", a))
                    cur = ("phi", tuple(alts))
                else:
                    cur = ("deref", cur)
            elif isinstance(p, list) and p[0] == "f":
                idx, name = p[1], p[2]
                if cur[0] == "agg" and cur[1][0] in ("tuple", "adt", "closure", "coroutine") and idx < len(cur[2]):
                    cur = cur[2][idx]
                else:
                    cur = ("field", cur, name)
            elif isinstance(p, list) and p[0] == "i":
                cur = ("index", cur, self.local_origin(p[1], 8))
            elif isinstance(p, list) and p[0] == "ci":
                cur = ("index", cur, ("lit", p[1], "usize"))
            elif isinstance(p, list) and p[0] == "ss":
                cur = ("subslice", cur, p[1], p[2], p[3])
            elif isinstance(p, list) and p[0] == "dc":
                if cur[0] == "agg" and cur[1][0] == "adt" and cur[1][1] == p[1]:
                    pass  # downcast to the variant it was built as
                else:
                    cur = ("downcast", cur, p[1])
            else:
                cur = ("proj?", cur)
        return cur

    def local_origin(self, l, depth=DEPTH, _seen=None):
        # the cache is only consulted (and filled) by top-level, full-depth queries: a nested expansion that picked up
        # a cached full-depth subtree would make trees depend on the order of earlier queries
        if not _seen and depth >= DEPTH and l in self._omemo:
            return self._omemo[l]
        if _seen is None:
            _seen = frozenset()
        if depth <= 0:
            return TOP
        if l in _seen:
            return ("loop", l)
        seen2 = _seen | {l}
        alts = []
        if 1 <= l <= self.argc:
            if self.upvars is not None and l == 1:
                alts.append(("env",))
            else:
                alts.append(("param", l))
        for d in self.defs.get(l, ()):
            kind = d[0]
            proj = d[3]
            if kind == "assign":
                val = self._rvalue_origin(d[4], depth - 1, seen2)
                if proj:
                    alts.append(("partial", self._projkey(proj), val))
                else:
                    alts.append(val)
            elif kind == "call":
                c = d[4]
                if c.indirect:
                    fo = self._op_origin(c.fn, depth - 1, seen2)
                    val = ("icall", fo, tuple(self._op_origin(a, depth - 1, seen2) for a in c.args))
                else:
                    val = ("call", c.callee, tuple(self._op_origin(a, depth - 1, seen2) for a in c.args), c.decl,
                           self.local_ty(l) if not proj else None, c.bb)
                if proj:
                    alts.append(("partial", self._projkey(proj), val))
                else:
                    alts.append(val)
            elif kind == "setdisc":
                alts.append(("partial", "disc", ("lit", d[4], "variant")))
        if not alts:
            res = ("undef", l)
        elif len(alts) == 1:
            res = alts[0]
        else:
            # dedupe
            uniq = []
            for a in alts:
                if a not in uniq:
                    uniq.append(a)
            res = uniq[0] if len(uniq) == 1 else ("phi", tuple(uniq))
        if not _seen and depth >= DEPTH:
            # only full-depth results are cached: a tree computed under a smaller budget may be truncated
            self._omemo[l] = res
        return res

    def _projkey(self, proj):
        out = []
        for p in proj:
            if p == "*":
                out.append("*")
            elif isinstance(p, list) and p[0] == "f":
                out.append("." + str(p[2]))
            elif isinstance(p, list) and p[0] == "dc":
                out.append("as " + p[1])
            else:
                out.append("[]")
        return "".join(out)

    def _op_origin(self, op, depth, seen):
        if op[0] == "k":
            return self._const_origin(op[1])
        pl = op[1]
        base = self.local_origin(pl[0], depth, seen)
        return self._apply_proj(base, pl[1], pl[0])

    def _rvalue_origin(self, rv, depth, seen):
        k = rv[0]
        if k == "use":
            return self._op_origin(rv[1], depth, seen)
        if k == "ref":
            pl = rv[2]
            base = self.local_origin(pl[0], depth, seen)
            inner = self._apply_proj(base, pl[1], pl[0])
            # &*x == x when x is a reference
            if pl[1] and pl[1][-1] == "*" and inner[0] != "deref":
                pass
            return ("ref", rv[1], inner)
        if k == "raw":
            pl = rv[2]
            base = self.local_origin(pl[0], depth, seen)
            return ("ref", "raw", self._apply_proj(base, pl[1], pl[0]))
        if k == "bin":
            return ("bin", rv[1], self._op_origin(rv[2], depth, seen), self._op_origin(rv[3], depth, seen))
        if k == "un":
            return ("un", rv[1], self._op_origin(rv[2], depth, seen))
        if k == "cast":
            return ("cast", rv[1], self._op_origin(rv[2], depth, seen), rv[3], rv[4])
        if k == "agg":
            kind = rv[1]
            kt = (kind[0], kind[1], kind[2], kind[3]) if kind[0] == "adt" else tuple(kind)
            return ("agg", kt, tuple(self._op_origin(o, depth, seen) for o in rv[2]))
        if k == "disc":
            pl = rv[1]
            base = self.local_origin(pl[0], depth, seen)
            return ("disc", self._apply_proj(base, pl[1], pl[0]))
        if k == "repeat":
            return ("repeat", self._op_origin(rv[1], depth, seen), rv[2])
        return ("other", k)


def call_site_of(node):
    """basic block of the call terminator a ("call",…) origin node stems from"""
    return node[5] if node[0] == "call" and len(node) > 5 else None


def strip_sites(tree):
    """structural copy of an origin tree without call-site ids / return types
    (for comparing expressions across functions)"""
    if not isinstance(tree, tuple):
        return tree
    if tree and tree[0] == "call":
        return ("call", tree[1], tuple(strip_sites(a) for a in tree[2]), tree[3])
    return tuple(strip_sites(x) if isinstance(x, tuple) else x for x in tree)


def cut(t, d):
    """origin tree truncated at depth d (uniform comparison of trees that hit the depth limit at different places)"""
    if not isinstance(t, tuple):
        return t
    if d <= 0:
        return ("…",)
    return tuple(cut(x, d - 1) if isinstance(x, tuple) else x for x in t)


def walk(tree):
    """pre-order iterator over all nodes of an origin tree"""
    st = [tree]
    n = 0
    while st:
        t = st.pop()
        if not isinstance(t, tuple):
            continue
        yield t
        n += 1
        if n > 20000:
            yield TOP
            return
        for x in t[1:]:
            if isinstance(x, tuple):
                if x and isinstance(x[0], str):
                    st.append(x)
                else:
                    for y in x:
                        if isinstance(y, tuple):
                            st.append(y)


def tokens(tree):
    """set of leaf/def tokens of an origin tree:
    fn:<path> (callee, both resolved and declared), const:<path>, lit:<v>,
    param:<i>, field:<name>, top, loop, env, op:<binop>"""
    out = set()
    for t in walk(tree):
        k = t[0]
        if k == "call":
            out.add("fn:" + t[1])
            if len(t) > 3 and t[3]:
                out.add("fn:" + t[3])
        elif k == "fnref":
            out.add("fn:" + t[1])
            out.add("fn:" + t[2])
        elif k == "const":
            out.add("const:" + t[1])
        elif k == "lit":
            out.add("lit:%s" % (t[1],))
        elif k == "param":
            out.add("param:%d" % t[1])
        elif k == "field":
            out.add("field:" + str(t[2]))
        elif k == "partial":
            out.add("field:" + str(t[1]).lstrip("."))
        elif k == "top":
            out.add("top")
        elif k == "loop":
            out.add("loop")
        elif k == "env":
            out.add("env")
        elif k == "bin":
            out.add("op:" + t[1])
        elif k == "un":
            out.add("op:" + t[1])
        elif k == "icall":
            out.add("icall")
        elif k == "undef":
            out.add("undef")
        elif k == "agg":
            kk = t[1]
            if kk and kk[0] == "adt":
                out.add("adt:%s::%s" % (kk[1], kk[2]))
            elif kk and kk[0] in ("closure", "coroutine"):
                out.add("closure:" + kk[1])
    return out


def fmt(tree, maxlen=400):
    """compact human rendering of an origin tree"""
    def r(t, d):
        if not isinstance(t, tuple) or not t:
            return str(t)
        if d > 10:
            return "…"
        k = t[0]
        if k == "param":
            return "param#%d" % t[1]
        if k == "lit":
            return "%s" % (t[1],)
        if k == "const":
            return t[1].split("::")[-2] + "::" + t[1].split("::")[-1] if "::" in t[1] else t[1]
        if k == "call":
            return "%s(%s)" % (short(t[1]), ", ".join(r(a, d + 1) for a in t[2]))
        if k == "icall":
            return "(*%s)(%s)" % (r(t[1], d + 1), ", ".join(r(a, d + 1) for a in t[2]))
        if k == "bin":
            return "(%s %s %s)" % (r(t[2], d + 1), t[1], r(t[3], d + 1))
        if k == "un":
            return "%s(%s)" % (t[1], r(t[2], d + 1))
        if k == "cast":
            return "(%s as %s)" % (r(t[2], d + 1), t[4])
        if k == "field":
            return "%s.%s" % (r(t[1], d + 1), t[2])
        if k == "deref":
            return "*%s" % r(t[1], d + 1)
        if k == "ref":
            return "&%s" % r(t[2], d + 1)
        if k == "index":
            return "%s[%s]" % (r(t[1], d + 1), r(t[2], d + 1))
        if k == "phi":
            return "φ(%s)" % " | ".join(r(a, d + 1) for a in t[1])
        if k == "agg":
            kk = t[1]
            nm = kk[0] if kk[0] != "adt" else short(kk[1]) + "::" + kk[2]
            if kk[0] in ("closure", "coroutine"):
                nm = "closure " + short(kk[1])
            return "%s{%s}" % (nm, ", ".join(r(a, d + 1) for a in t[2]))
        if k == "disc":
            return "disc(%s)" % r(t[1], d + 1)
        if k == "downcast":
            return "(%s as %s)" % (r(t[1], d + 1), t[2])
        if k == "partial":
            return "{%s := %s}" % (t[1], r(t[2], d + 1))
        if k == "fnref":
            return "fn " + short(t[1])
        if k == "promoted":
            return "const{%s}" % r(t[1], d + 1)
        if k == "subslice":
            return "%s[%s..%s%s]" % (r(t[1], d + 1), t[2], "-" if t[4] else "", t[3])
        return k

    s = r(tree, 0)
    return s if len(s) <= maxlen else s[:maxlen] + "…"


def short(path):
    """last two segments of a def path"""
    # strip generic impl noise
    parts = split_path(path)
    return "::".join(parts[-2:]) if len(parts) >= 2 else path


def split_path(path):
    """split a def path on '::' outside <...>"""
    parts = []
    depth = 0
    cur = []
    i = 0
    while i < len(path):
        ch = path[i]
        if ch == "<":
            depth += 1
        elif ch == ">" and (i == 0 or path[i - 1] != "-"):
            depth = max(0, depth - 1)
        if depth == 0 and path.startswith("::", i):
            parts.append("".join(cur))
            cur = []
            i += 2
            continue
        cur.append(ch)
        i += 1
    parts.append("".join(cur))
    return parts


# --------------------------------------------------------------------------
# Crate / Facts



_BARE_PARAM = re.compile(r"^[A-Z][A-Za-z0-9]*$")
_PRIMS = {"u8", "u16", "u32", "u64", "u128", "usize", "i8", "i16", "i32", "i64", "i128", "isize", "bool", "char",
          "str", "f32", "f64", "mut", "const", "dyn", "fn", "unsafe", "extern"}
_LIFETIME = re.compile(r"'[A-Za-z_][A-Za-z0-9_]*\s*")
_IDENT = re.compile(r"(?<![A-Za-z0-9_:])([A-Za-z_][A-Za-z0-9_]*)(?!\s*::|[A-Za-z0-9_])")


def _norm_ty(ty):
    return _LIFETIME.sub("", ty).replace(" ", "")


def _strip_generics(t):
    out, d = [], 0
    for ch in t:
        if ch == "<":
            d += 1
        elif ch == ">":
            d -= 1
        elif d == 0:
            out.append(ch)
    return "".join(out)


def _ty_clash(a, b):
    """two printed concrete types that cannot be the same type (differences confined to generic
    argument lists are not trusted: defaulted parameters may be elided by the printer)"""
    na, nb = _norm_ty(a), _norm_ty(b)
    return na != nb and _strip_generics(na) != _strip_generics(nb)


def _is_concrete_ty(ty):
    """no type parameter, `Self`, projection, placeholder or opaque type inside the printed type"""
    if not ty:
        return False
    t = _LIFETIME.sub("", ty)
    if " as " in t or "impl " in t or "_" == t.strip() or "{" in t:
        return False
    for m in _IDENT.finditer(t):
        w = m.group(1)
        # last path segment of a def path is preceded by '::' and excluded by the look-behind
        if w in _PRIMS or w.isdigit():
            continue
        return False
    return True


def _subst_ty(ty, sub):
    if not ty or not sub:
        return ty
    def r(m):
        return sub.get(m.group(1), m.group(1))
    return _IDENT.sub(r, ty)


class Crate:
    def __init__(self, name, raw):
        self.name = name
        self.files = raw["files"]
        self.macs = raw["macs"]
        self.tree = raw.get("tree")
        self.cfg = raw.get("cfg")
        self.raw = raw


class Facts:
    def __init__(self, directory, crates=None):
        self.dir = directory
        self.crates = {}
        self.fns = {}        # path -> entry (dict) with "_crate"
        self.decls = {}
        self._bodies_raw = {}
        self._bodies = {}
        self.consts = {}
        self.adts = {}
        self.impls = []
        self.traits = {}
        self.trait_impls = defaultdict(list)   # trait item path -> [impl fn path]
        names = crates
        if names is None:
            names = sorted(f[:-5] for f in os.listdir(directory) if f.endswith(".json"))
        for n in names:
            p = os.path.join(directory, n + ".json")
            with open(p) as f:
                raw = json.load(f)
            c = Crate(n, raw)
            self.crates[n] = c
            for k, v in raw["fns"].items():
                v["_crate"] = n
                self.fns[k] = v
                ti = v.get("trait_item")
                if ti:
                    self.trait_impls[ti].append(k)
            for k, v in raw["decls"].items():
                v["_crate"] = n
                self.decls[k] = v
            for k, v in raw["bodies"].items():
                self._bodies_raw[k] = (c, v)
            for k, v in raw["consts"].items():
                v["_crate"] = n
                self.consts[k] = v
            for k, v in raw["adts"].items():
                v["_crate"] = n
                self.adts[k] = v
            for v in raw["impls"]:
                v["_crate"] = n
                self.impls.append(v)
            for k, v in raw["traits"].items():
                v["_crate"] = n
                self.traits[k] = v
        self._cg = None
        self._rcg = None

    def tree_hashes(self):
        return {n: c.tree for n, c in self.crates.items()}

    def body(self, path):
        b = self._bodies.get(path)
        if b is None:
            r = self._bodies_raw.get(path)
            if r is None:
                return None
            b = Body(self, r[0], path, r[1])
            self._bodies[path] = b
        return b

    def has_body(self, path):
        return path in self._bodies_raw

    def all_body_paths(self, crate=None):
        if crate is None:
            return list(self._bodies_raw)
        return [p for p, (c, _) in self._bodies_raw.items() if c.name == crate]

    def fn_span(self, path):
        e = self.fns.get(path) or self.decls.get(path)
        if not e:
            return None
        return Span(self.crates[e["_crate"]], e["span"])

    def loc(self, path):
        s = self.fn_span(path)
        return s.loc if s else "?"

    def find_fns(self, pred):
        return sorted(p for p in self.fns if pred(p))

    def fns_named(self, suffix):
        """all fns whose path ends with ::suffix (suffix may contain ::)"""
        s = "::" + suffix
        return sorted(p for p in self.fns if p.endswith(s))

    def one_fn(self, suffix):
        r = self.fns_named(suffix)
        if len(r) != 1:
            raise AnchorMissing("expected exactly one function '%s', found %d: %s" % (suffix, len(r), r[:5]))
        return r[0]

    def const_value(self, path):
        c = self.consts.get(path)
        return None if c is None else c["v"]

    def bitrange(self, path):
        """(start,end) of a BitRange-typed const"""
        c = self.consts.get(path)
        if c is None:
            return None
        v = c["v"]
        if isinstance(v, str) and v.startswith("0x") and len(v) == 2 + 32:
            b = bytes.fromhex(v[2:])
            return (int.from_bytes(b[:8], "little"), int.from_bytes(b[8:], "little"))
        return None

    # ---------------- call graph
    def closure_children(self, path):
        b = self.body(path)
        out = []
        if b is None:
            return out
        for blk in b.blocks:
            for s in blk["s"]:
                if s[0] == "=" and s[2][0] == "agg" and s[2][1][0] in ("closure", "coroutine", "coroutine_closure"):
                    out.append(s[2][1][1])
        return out

    def callees_of_call(self, c):
        """set of workspace body paths a Call may transfer control to (CHA for
        unresolved trait methods); external callees are returned as their path too."""
        out = set()
        if c.indirect:
            return out
        if c.res and c.rk in ("item", "closure_once", "reify", "fnptr"):
            out.add(c.res)
            # resolved to a trait default method or an impl — done
            return out
        out.add(c.decl)
        if c.trait:
            for impl_fn in self.trait_impls.get(c.decl, ()):
                out.add(impl_fn)
        return out

    @property
    def callgraph(self):
        if self._cg is None:
            cg = {}
            for p in self._bodies_raw:
                b = self.body(p)
                s = set()
                for c in b.calls:
                    s |= self.callees_of_call(c)
                    # function items / closures passed as arguments may be called by the callee
                    for a in c.args:
                        k = op_const(a)
                        if k is not None and "fn" in k:
                            s.add(k.get("res") or k["fn"])
                            if k.get("trait"):
                                for impl_fn in self.trait_impls.get(k["fn"], ()):
                                    s.add(impl_fn)
                for ch in self.closure_children(p):
                    s.add(ch)
                # fn items mentioned as values elsewhere
                cg[p] = s
            self._cg = cg
        return self._cg

    @property
    def rcallgraph(self):
        if self._rcg is None:
            r = defaultdict(set)
            for a, bs in self.callgraph.items():
                for b in bs:
                    r[b].add(a)
            self._rcg = r
        return self._rcg

    def reachable(self, entries, stop=None):
        """workspace-body functions reachable from entries; returns dict fn -> parent (for call paths)"""
        parent = {}
        dq = deque()
        for e in entries:
            if e not in parent:
                parent[e] = None
                dq.append(e)
        while dq:
            f = dq.popleft()
            if stop and stop(f):
                continue
            for g in self.callgraph.get(f, ()):
                if g not in parent:
                    parent[g] = f
                    if g in self._bodies_raw:
                        dq.append(g)
        return parent

    # ---------------- context-sensitive reachability (Self / blanket-impl parameter binding)
    def _concrete(self, ty):
        return _is_concrete_ty(ty)

    def _entry_bind(self, callee, selfty):
        """binding of the callee's `Self` (trait default method) or blanket-impl parameter"""
        e = self.fns.get(callee)
        if e is None or selfty is None or not _is_concrete_ty(selfty):
            return ()
        if e.get("in_trait"):
            return (("Self", _norm_ty(selfty)),)
        st = e.get("self_ty")
        if st and _BARE_PARAM.match(st):
            return ((st, _norm_ty(selfty)),)
        return ()

    def callees_ctx(self, body, c, bind):
        """[(callee, bind')] for one call under a caller binding.  Resolved calls go to their
        resolution; an unresolved trait-method call is narrowed, soundly, (1) to the impls for the
        concrete Self type when the caller's binding makes the receiver type concrete and such an
        impl exists, else (2) by dropping impls whose declared parameter types are concrete and
        differ from the (substituted) argument types at the call; anything else is plain CHA."""
        if c.indirect:
            return []
        sub = dict(bind)
        selfty = _subst_ty(c.selfty, sub) if c.selfty else None
        if c.res and c.rk in ("item", "closure_once", "reify", "fnptr"):
            return [(c.res, self._entry_bind(c.res, selfty))]
        out = []
        if not c.trait:
            return [(c.decl, ())]
        cands = list(self.trait_impls.get(c.decl, ()))
        narrowed = None
        if selfty and _is_concrete_ty(selfty):
            ns = _norm_ty(selfty)
            exact = [i for i in cands if _norm_ty(self.fns[i].get("self_ty") or "") == ns]
            blanket = [i for i in cands if _BARE_PARAM.match(self.fns[i].get("self_ty") or "")]
            if exact:
                narrowed = exact + blanket
        if narrowed is None:
            argtys = []
            for a in c.args:
                pl = op_place(a)
                if pl is not None and not pl[1]:
                    argtys.append(_subst_ty(body.local_ty(pl[0]), sub))
                else:
                    argtys.append(None)
            keep = []
            for i in cands:
                ins = self.fns[i].get("inputs") or []
                clash = False
                for at, it in zip(argtys, ins):
                    if at and it and _is_concrete_ty(at) and _is_concrete_ty(it) and _ty_clash(at, it):
                        clash = True
                        break
                if not clash:
                    keep.append(i)
            narrowed = keep
            out.append((c.decl, self._entry_bind(c.decl, selfty)))   # trait default body, if any
        elif c.decl in self._bodies_raw:
            # an impl for the concrete type exists and overrides this very item
            pass
        for i in narrowed:
            out.append((i, self._entry_bind(i, selfty)))
        return out

    def reachable_ctx(self, entries, stop=None):
        """like reachable(), but follows calls per (function, binding) context; returns fn -> parent"""
        parent = {}
        seen = set()
        dq = deque()
        for e in entries:
            if (e, ()) not in seen:
                seen.add((e, ()))
                parent.setdefault(e, None)
                dq.append((e, ()))
        while dq:
            f, bind = dq.popleft()
            if stop and stop(f):
                continue
            b = self.body(f)
            if b is None:
                continue
            nxt = []
            for c in b.calls:
                nxt.extend(self.callees_ctx(b, c, bind))
                for a in c.args:
                    k = op_const(a)
                    if k is not None and "fn" in k:
                        nxt.append((k.get("res") or k["fn"], ()))
                        if k.get("trait") and not k.get("res"):
                            for impl_fn in self.trait_impls.get(k["fn"], ()):
                                nxt.append((impl_fn, ()))
            for ch in self.closure_children(f):
                nxt.append((ch, bind))
            for g, gb in nxt:
                if g not in parent:
                    parent[g] = f
                if (g, gb) not in seen:
                    seen.add((g, gb))
                    if g in self._bodies_raw:
                        dq.append((g, gb))
        return parent

    def call_path(self, parent, f):
        out = [f]
        while parent.get(f) is not None:
            f = parent[f]
            out.append(f)
        out.reverse()
        return out

    def callers_of(self, name_pred):
        """[(caller path, Call)] for all calls matching pred over all loaded bodies"""
        res = []
        for p in self._bodies_raw:
            b = self.body(p)
            for c in b.calls_to(name_pred):
                res.append((p, c))
        return res


class AnchorMissing(Exception):
    pass


# --------------------------------------------------------------------------
# switch helpers


def switch_info(body, b):
    """for a switch block: (discr operand, {target: set(values)|'otherwise'}, ty)"""
    t = body.term(b)
    assert t[0] == "switch"
    m = defaultdict(set)
    for v, tgt in t[2]:
        m[tgt].add(v)
    return t[1], dict(m), t[3], t[4]


def cond_origin(body, b):
    t = body.term(b)
    if t[0] == "switch":
        return body.origin(t[1])
    if t[0] == "assert":
        return body.origin(t[1])
    return None


def bool_edges(body, b):
    """for `switch bool` returns (true_target, false_target) else None"""
    t = body.term(b)
    if t[0] != "switch" or t[4] != "bool":
        return None
    arms = t[2]
    if len(arms) == 1 and arms[0][0] == 0:
        return (t[3], arms[0][1])
    if len(arms) == 1 and arms[0][0] == 1:
        return (arms[0][1], t[3])
    return None
