"""Report / evidence / known-findings plumbing shared by all property checks."""
import json
import os
import sys
import time

VERIF = os.path.dirname(os.path.dirname(os.path.dirname(os.path.abspath(__file__))))
EVIDENCE_DIR = os.path.join(VERIF, "evidence")
KNOWN = os.path.join(VERIF, "known_findings.json")


def load_known():
    if not os.path.exists(KNOWN):
        return []
    with open(KNOWN) as f:
        return json.load(f)["findings"]


class Report:
    """Collects, for one property run: rule instances, obligations, violations."""

    def __init__(self, pid, tier, explanation):
        self.pid = pid
        self.tier = tier
        self.explanation = explanation
        self.t0 = time.time()
        self.violations = []       # dict(key, rule, msg, loc, detail)
        self.obligations = 0
        self.discharged = 0
        self.nontrivial = set()
        self.samples = []
        self.rule_instances = {}   # rule -> dict(count, floor)
        self.functions = set()
        self.call_sites = 0
        self.assumptions = []
        self.residual = []
        self.configs = []
        self.tree = None
        self.extra = {}
        self.reviewed = []         # table entries relied on (reviewed-invariant class)

    # --- recording
    def fn(self, path):
        self.functions.add(path)

    def ob(self, rule, desc, ok=True, nontrivial=True, sample=None):
        """one obligation examined; ok=False must be accompanied by violation()"""
        self.obligations += 1
        if ok:
            self.discharged += 1
        if nontrivial:
            self.nontrivial.add((rule, desc))
        if sample is not None and len(self.samples) < 40:
            self.samples.append(sample)
        elif len(self.samples) < 14:
            self.samples.append({"rule": rule, "obligation": desc, "discharged": ok})

    def violation(self, rule, key, msg, loc=None, detail=None):
        self.violations.append({"rule": rule, "key": "%s/%s" % (rule, key), "msg": msg,
                                "loc": loc, "detail": detail})

    def floor(self, rule, count, floor, what=""):
        """instance-count floor: a rule that matches fewer instances than were
        confirmed by hand fails closed."""
        self.rule_instances[rule] = {"count": count, "floor": floor, "what": what}
        if count < floor:
            self.violation("floor", rule, "rule %s matched %d instance(s), fewer than the %d confirmed by "
                           "reading (%s): anchors moved or the rule went vacuous" % (rule, count, floor, what))

    def anchor_missing(self, what):
        self.violation("anchor-missing", what, "anchor not found: %s" % what)

    def violations_unlisted(self):
        """violations that are not open known findings"""
        open_keys = {k["key"] for k in load_known() if k["property"] == self.pid and k.get("status") == "open"}
        return [v for v in self.violations if v["key"] not in open_keys]

    # --- finishing
    def finish(self):
        known = [k for k in load_known() if k["property"] == self.pid]
        open_keys = {k["key"]: k for k in known if k.get("status") == "open"}
        matched = []
        real = []
        seen_keys = set()
        for v in self.violations:
            if v["key"] in seen_keys:
                continue
            seen_keys.add(v["key"])
            if v["key"] in open_keys:
                matched.append(v)
            else:
                real.append(v)
        os.makedirs(os.path.join(EVIDENCE_DIR, "replay"), exist_ok=True)
        # stale replay files of this property
        for f in os.listdir(os.path.join(EVIDENCE_DIR, "replay")):
            if f.startswith(self.pid + "-"):
                os.unlink(os.path.join(EVIDENCE_DIR, "replay", f))
        for v in matched:
            print("KNOWN-FINDING: property=%s %s [%s] %s" % (self.pid, open_keys[v["key"]]["what"], v["key"], v.get("loc") or ""))
        lines = []
        for i, v in enumerate(real):
            rp = os.path.join("evidence", "replay", "%s-%d.json" % (self.pid, i))
            with open(os.path.join(VERIF, rp), "w") as f:
                json.dump(v, f, indent=1)
            print("  %s: %s: %s  (key %s)" % (v.get("loc") or "-", v["rule"], v["msg"], v["key"]))
            lines.append("VIOLATION property=%s replay=%s" % (self.pid, rp))
        wall = time.time() - self.t0
        cov = {
            "explanation": self.explanation,
            "rule": "every rule instance discovered in the type-checked program of /repo's current tree is one "
                    "obligation; non-trivial = distinct obligation whose discharge needed a guard/dominance/"
                    "dataflow argument (constant-index and similar trivially safe sites are counted in "
                    "evaluations only)",
            "evaluations": max(self.obligations, 1),
            "distinct_nontrivial": len(self.nontrivial),
            "obligations": self.obligations,
            "discharged": self.discharged,
            "functions_analysed": len(self.functions),
            "call_sites": self.call_sites,
            "rule_instances": self.rule_instances,
            "samples": self.samples[:40] or [{"note": "no obligations"}],
            "residual_not_decided": self.residual,
            "configs": self.configs,
            "tree": self.tree,
            "known_findings_matched": [v["key"] for v in matched],
            "reviewed_invariants_relied_on": self.reviewed,
            "checker_cmd": "./check %s --tier %s" % (self.pid, self.tier),
            "trusted_base": ["rustc nightly front end + MIR construction", "reviewed tables under engine/tables"],
            "exhaustive": True,
        }
        cov.update(self.extra)
        ev = {
            "property_id": self.pid,
            "tier": self.tier,
            "seed": int(os.environ.get("VERIF_SEED", "0") or 0),
            "level": "other",
            "coverage": cov,
            "assumptions": self.assumptions,
            "wall_s": round(wall, 2),
            "violations": len(real),
        }
        os.makedirs(EVIDENCE_DIR, exist_ok=True)
        with open(os.path.join(EVIDENCE_DIR, self.pid + ".json"), "w") as f:
            json.dump(ev, f, indent=1, default=str)
        for l in lines:
            print(l)
        print("[%s] %s tier=%s obligations=%d discharged=%d nontrivial=%d functions=%d violations=%d known=%d wall=%.1fs" % (
            self.pid, "FAIL" if real else "ok", self.tier, self.obligations, self.discharged,
            len(self.nontrivial), len(self.functions), len(real), len(matched), wall))
        return 1 if real else 0
