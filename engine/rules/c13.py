"""C13 — simulated dataplane enforces SCION forwarding rules (side clauses)."""
import templates as T
import facts as FX
from facts import tokens, fmt, short, walk, const_int

CRATES = ["pocketscion", "sciparse"]

EXPLANATION = (
    "Side clauses decided on the MIR of pocketscion's routing spec. (TBL) the (in_link_type, out_link_type) match in "
    "StandardValidator::validate_segment_change is evaluated abstractly over the full product of AsRoutingLinkType "
    "discriminants (decision-table extraction from the switch structure) and must equal tables/segment_change.toml (the five "
    "valley-free/peering combinations of the SCION dataplane spec). (WMC) pocketscion never calls the unvalidated "
    "advance_ingress/advance_egress, and the validator handed to the *_with_validator calls is StandardValidator. "
    "(GS) StandardValidator::validate_hop's Ok exit is controlled by the interface comparison, timestamp()>now, "
    "expiry_timestamp()<now and the MAC equality (unless ignore_macs); handle_standard_path reaches the egress step only "
    "when the egress interface is known and up; SpecRoutingLogic::route's ForwardLocal result passes the local_as != dst_ia "
    "test."
)
EXPLANATION_ADD = " Additions: (GS-mac-bypass) as in C11 for the simulator's validator; (FLOW-err-dir) interface errors carry the construction-direction flag of the segment their hop field belongs to."
EXPLANATION = EXPLANATION + EXPLANATION_ADD
RESIDUAL = ["verdict equality with an independently written router", "bounded number of AS steps",
            "the known over-rejection of shortcut/peering paths (ingress check on the second hop field of a crossover) is a value decision"]
ASSUMPTIONS = ["link-type semantics of AsRoutingLinkType variants are as named"]
TECHNIQUE = "decision-table extraction from MIR switch structure vs spec table; who-may-call; guarded success"

STD = "pocketscion::network::scion::routing::spec::standard::"
LT = "pocketscion::network::scion::routing::AsRoutingLinkType"
# spec: accepted (in, out) link-type pairs at a segment change (SCION dataplane: core->down, up->core, up->down, up->peer, peer->down)
SPEC_ACCEPT = {("LinkToCore", "LinkToChild"), ("LinkToChild", "LinkToCore"), ("LinkToChild", "LinkToChild"),
               ("LinkToChild", "LinkToPeer"), ("LinkToPeer", "LinkToChild")}


def eval_decision(b, start, tuple_local, values, discr, elems, lt):
    """abstract execution from `start` for a concrete (v0, v1) assignment of the two link types:
    follows switches whose operand evaluates under the assignment (discriminants of the tuple fields,
    constants, derived PartialEq::eq/ne between link types, bool locals assigned on the path) until the
    return place receives Result::Ok / Result::Err.  Returns True (Ok), False (Err) or None (undecided)."""
    env = {}

    def resolve_tree(t):
        t = _peel(t)
        st = FX.strip_sites(t)
        if st == elems[0] and elems[0] != elems[1]:
            return values[0]
        if st == elems[1] and elems[0] != elems[1]:
            return values[1]
        if t[0] == "agg" and t[1][0] == "adt" and t[1][1] == lt and not t[2]:
            return discr.get(t[1][2])
        if t[0] == "lit" and isinstance(t[1], int):
            return t[1]
        return None

    def resolve_op(op):
        k = FX.op_const(op)
        if k is not None:
            v = k.get("v")
            return v if isinstance(v, int) else None
        pl = FX.op_place(op)
        if pl is None:
            return None
        if not pl[1] and pl[0] in env:
            return env[pl[0]]
        if pl[0] == tuple_local and len(pl[1]) == 1 and isinstance(pl[1][0], list) and pl[1][0][0] == "f":
            return values[pl[1][0][1]]
        return resolve_tree(b.origin(op))

    cur = start
    steps = 0
    seen = set()
    while steps < 400:
        steps += 1
        if cur in seen:
            return None
        seen.add(cur)
        for s in b.stmts(cur):
            if s[0] != "=":
                continue
            l, proj = s[1]
            if proj:
                continue
            rv = s[2]
            if l == 0 and rv[0] == "agg" and rv[1][0] == "adt" and rv[1][1] == "core::result::Result":
                return rv[1][2] == "Ok"
            v = None
            if rv[0] == "use":
                v = resolve_op(rv[1])
            elif rv[0] == "disc":
                pl = rv[1]
                if pl[0] == tuple_local and len(pl[1]) == 1 and isinstance(pl[1][0], list) and pl[1][0][0] == "f":
                    v = values[pl[1][0][1]]
                else:
                    v = resolve_op(["c", pl])
            elif rv[0] == "bin" and rv[1] in ("Eq", "Ne"):
                a, c = resolve_op(rv[2]), resolve_op(rv[3])
                if a is not None and c is not None:
                    v = int((a == c) == (rv[1] == "Eq"))
            elif rv[0] == "un" and rv[1] == "Not":
                a = resolve_op(rv[2])
                if a is not None:
                    v = int(not a)
            if v is None:
                env.pop(l, None)
            else:
                env[l] = v
        t = b.term(cur)
        if t[0] in ("goto", "falseedge", "falseunwind"):
            cur = t[1]
            continue
        if t[0] == "drop":
            cur = t[2]
            continue
        if t[0] == "call":
            k = FX.op_const(t[1]) or {}
            fn = k.get("fn") or ""
            dest = t[3]
            v = None
            if fn in ("core::cmp::PartialEq::eq", "core::cmp::PartialEq::ne") and len(t[2]) == 2 and (k.get("self") or "").endswith("AsRoutingLinkType"):
                a, c = resolve_op(t[2][0]), resolve_op(t[2][1])
                if a is not None and c is not None:
                    v = int((a == c) == fn.endswith("::eq"))
            if not dest[1]:
                if v is None:
                    env.pop(dest[0], None)
                else:
                    env[dest[0]] = v
            if t[4] is None:
                return None
            cur = t[4]
            continue
        if t[0] == "switch":
            v = resolve_op(t[1])
            if v is None:
                return None
            arms = {a: tg for a, tg in t[2]}
            cur = arms.get(v, t[3])
            continue
        if t[0] == "ret":
            return None
        return None
    return None


def _peel(t):
    while isinstance(t, tuple) and t and t[0] in ("ref", "deref", "promoted"):
        t = t[2] if t[0] == "ref" else t[1]
    return t


def run(F, R, tier, cfg):
    error_dir_rule(F, R)
    # ---- hop fields are authenticated: the simulator's validator compares the MAC unless ignore_macs is configured
    import c11
    vh = [p for p, e in F.fns.items() if (e.get("trait_item") or "").endswith("AdvanceValidator::validate_hop") and p.startswith("<" + STD)]
    R.floor("GS-mac-bypass", len(vh), 1, "StandardValidator::validate_hop")
    for p in vh:
        R.fn(p)
        okb, whyb = c11.mac_bypass(F, p)
        R.ob("GS-mac-bypass", "%s: no way around the MAC comparison other than ignore_macs (%s)" % (short(p), whyb), okb, True,
             {"rule": "GS-mac-bypass", "fn": p, "detail": whyb, "holds": okb})
        if not okb:
            R.violation("GS-mac-bypass", p, "the simulated router can forward/deliver on a hop field whose MAC was not verified: %s" % whyb, F.loc(p))
    # ---- TBL: segment-change table
    vs = [p for p, e in F.fns.items() if (e.get("trait_item") or "").endswith("AdvanceValidator::validate_segment_change") and p.startswith("<" + STD)]
    adt = F.adts.get(LT)
    if not vs:
        R.anchor_missing("StandardValidator::validate_segment_change")
    if not adt:
        R.anchor_missing(LT)
    for p in vs:
        if not adt:
            break
        b = F.body(p)
        R.fn(p)
        discr = {v[0]: v[1] for v in adt["variants"]}
        # the tuple (in_link_type, out_link_type)
        tl = None
        for bi in sorted(b.live_blocks()):
            for s in b.stmts(bi):
                if s[0] == "=" and s[2][0] == "agg" and s[2][1][0] == "tuple" and len(s[2][2]) == 2 and LT in b.local_ty(s[1][0]):
                    ok2 = all("field:link_type" in tokens(b.origin(o)) for o in s[2][2])
                    if ok2:
                        tl = (s[1][0], bi)
        if tl is None:
            R.anchor_missing("(in_link_type, out_link_type) tuple in validate_segment_change")
            continue
        tstmt = [st for st in b.stmts(tl[1]) if st[0] == "=" and st[1][0] == tl[0] and st[2][0] == "agg"][0]
        elems = tuple(FX.strip_sites(_peel(b.origin(o))) for o in tstmt[2][2])
        in_o = b.origin(b.stmts(tl[1])[[i for i, s in enumerate(b.stmts(tl[1])) if s[0] == "=" and s[1][0] == tl[0]][0]][2][2][0])
        # in = lookup(current hop ingress), out = lookup(next hop egress)
        okio = any(t.endswith("::ingress_interface") for t in tokens(in_o))
        table = set()
        undecided = []
        for n0, d0 in discr.items():
            for n1, d1 in discr.items():
                r = eval_decision(b, tl[1], tl[0], (d0, d1), discr, elems, LT)
                if r is None:
                    undecided.append((n0, n1))
                elif r:
                    table.add((n0, n1))
        ok = not undecided and table == SPEC_ACCEPT and okio
        R.ob("TBL-segment-change", "accepted (in,out) link types over %dx%d product = %s" % (len(discr), len(discr), sorted(table)), ok, True,
             {"rule": "TBL-segment-change", "accepted": sorted(table), "spec": sorted(SPEC_ACCEPT), "product": len(discr) ** 2, "holds": ok})
        R.extra["segment_change_table_cells"] = len(discr) ** 2
        if undecided:
            R.violation("TBL-segment-change", "undecided", "decision table could not be evaluated for %s" % undecided[:4], F.loc(p))
        elif table != SPEC_ACCEPT:
            R.violation("TBL-segment-change", "table", "segment-change table differs from the spec: extra %s, missing %s" % (sorted(table - SPEC_ACCEPT), sorted(SPEC_ACCEPT - table)), F.loc(p))
        elif not okio:
            R.violation("TBL-segment-change", "operands", "the table is no longer indexed by (link of current hop ingress, link of next hop egress)", F.loc(p))

    # ---- WMC: only validated advance, with StandardValidator
    bad = T.call_sites(F, lambda n: n.endswith("StandardPathView>::advance_ingress") or n.endswith("StandardPathView>::advance_egress"), crates=["pocketscion"])
    R.ob("WMC-validated-advance", "pocketscion never calls the unvalidated advance_ingress/advance_egress", not bad, True)
    for (p, c) in bad:
        R.violation("WMC-validated-advance", p + "/" + short(c.decl), "the simulator advances a path without validation", c.span.loc)
    withv = T.call_sites(F, lambda n: n.endswith("::advance_ingress_with_validator") or n.endswith("::advance_egress_with_validator"), crates=["pocketscion"])
    R.floor("WMC-validated-advance", len(withv), 2, "advance_*_with_validator call sites in pocketscion")
    for (p, c) in withv:
        pb = F.body(p)
        o = pb.origin(c.args[1])
        ok = any(t.startswith("adt:" + STD + "StandardValidator") for t in tokens(o))
        R.ob("WMC-validated-advance", "%s in %s uses StandardValidator" % (short(c.decl), short(p)), ok, True)
        if not ok:
            R.violation("WMC-validated-advance", p + "/validator", "the simulator advances with a validator other than StandardValidator: %s" % fmt(o, 120), c.span.loc)

    # ---- GS: validate_hop
    vh = [p for p, e in F.fns.items() if (e.get("trait_item") or "").endswith("AdvanceValidator::validate_hop") and p.startswith("<" + STD)]
    if not vh:
        R.anchor_missing("StandardValidator::validate_hop")
    for p in vh:
        b = F.body(p)
        R.fn(p)
        oks = [bb for (bb, idx, adtn, var) in T.result_variant_defs(b) if var == "Ok"]
        checks = [
            ("ingress interface", lambda tk, o, g: "field:current_interface_id" in tk and any(t.endswith("::ingress_interface") for t in tk)),
            ("egress interface", lambda tk, o, g: "field:current_interface_id" in tk and any(t.endswith("::egress_interface") for t in tk)),
            ("future timestamp", lambda tk, o, g: any(t.endswith("InfoFieldView::timestamp") for t in tk) and any(t.endswith("::timestamp_secs") for t in tk) and not any(t.endswith("::expiry_timestamp") for t in tk)),
            ("expiry", lambda tk, o, g: any(t.endswith("::expiry_timestamp") for t in tk) and any(t.endswith("::timestamp_secs") for t in tk)),
        ]
        for name, pred in checks:
            gs = T.guard_blocks(b, pred)
            # each check controls the Ok exit: one of its edges cannot reach Ok without passing another guard of the same kind
            ok = False
            for g in gs:
                pss, fl = T.controlling_edges(b, g, oks, gs)
                if fl:
                    ok = True
            # ingress/egress comparisons are on alternative arms of `match self.ingress`: together they must be unavoidable
            R.ob("GS-validate-hop", "validate_hop: Ok exit controlled by the %s check" % name, ok, True)
            if not ok:
                R.violation("GS-validate-hop", p + "/" + name, "validate_hop no longer rejects on the %s check" % name, F.loc(p))
        both = T.guard_blocks(b, lambda tk, o, g: "field:current_interface_id" in tk)
        ok, bad2 = T.must_pass(b, oks, both)
        R.ob("GS-validate-hop", "every path to Ok passes an interface comparison", ok, True)
        if not ok:
            R.violation("GS-validate-hop", p + "/interface-unavoidable", "validate_hop can accept without comparing the interface", F.loc(p))
        for name, pred in checks[2:]:
            gs = T.guard_blocks(b, pred)
            ok, bad2 = T.must_pass(b, oks, gs)
            R.ob("GS-validate-hop", "every path to Ok passes the %s check" % name, ok and bool(gs), True)
            if not (ok and gs):
                R.violation("GS-validate-hop", p + "/" + name + "-unavoidable", "validate_hop can accept without the %s check" % name, F.loc(p))

    # ---- GS: egress interface known and up
    hs = STD + "StdRoutingLogic::handle_standard_path"
    b = F.body(hs)
    if b is None:
        R.anchor_missing(hs)
    else:
        R.fn(hs)
        eg = b.calls_to(STD + "StdRoutingLogic::standard_path_egress")
        R.floor("GS-egress-up", len(eg), 1, "standard_path_egress call in handle_standard_path")
        for c in eg:
            def lk(tk, o, g):
                return o[0] == "disc" and "param:6" in tk and ("icall" in tk or any(t.endswith("function::Fn::call") for t in tk))
            ok1, g1 = T.guarded_by(b, c.bb, lk, [1])
            def up(tk, o, g):
                return "field:is_up" in tk
            gs = T.guard_blocks(b, up)
            ok2 = False
            for g in gs:
                e = FX.bool_edges(b, g)
                if e and b.dominates(g, c.bb):
                    # is_up is negated in source (`if !is_up {return Err}`): the call must be unreachable from one edge
                    for tgt in e:
                        if c.bb not in b.reach([tgt], avoid=[g]):
                            ok2 = True
            R.ob("GS-egress-up", "egress step only when the egress interface is known (Some) and is_up", ok1 and ok2, True)
            if not (ok1 and ok2):
                R.violation("GS-egress-up", hs, "a packet can be forwarded over an unknown or down egress interface", c.span.loc)

    # ---- GS: local delivery only in the destination AS
    rt = [p for p, e in F.fns.items() if (e.get("trait_item") or "").endswith("RoutingLogic::route") and "SpecRoutingLogic" in p]
    if not rt:
        R.anchor_missing("SpecRoutingLogic::route")
    for p in rt:
        b = F.body(p)
        R.fn(p)
        def dst(tk, o, g):
            return any(t.endswith("::dst_ia") for t in tk) and "param:1" in tk
        gs = T.guard_blocks(b, dst)
        # the guard is itself entered only for ForwardLocal; the Ok(action) exit after it must be controlled
        oks = [bb for (bb, idx, adtn, var) in T.result_variant_defs(b) if var == "Ok"]
        ok = False
        for g in gs:
            pss, fl = T.controlling_edges(b, g, oks, gs)
            if pss and fl:
                ok = True
        # and the ForwardLocal discriminant test leads into that guard
        R.ob("GS-local-delivery", "route: ForwardLocal result passes the local_as != dst_ia test", ok, True)
        if not ok:
            R.violation("GS-local-delivery", p, "a packet can be delivered locally in an AS that is not its destination", F.loc(p))


def error_dir_rule(F, R):
    """FLOW-err-dir: "its verdict (… error class …) equals that of a router following the SCION rules".  The SCMP code of an
    unknown-interface error depends on the construction-direction flag of the segment the offending hop field belongs to.
    In StandardValidator::validate_segment_change every StandardRoutingError carrying (if_id, cons_dir) takes both from the
    same (hop field, info field) pair: an interface id derived from the *next* hop field goes with the *next* info field's
    flag, one from the current hop field with the current info field's."""
    vs = [p for p, e in F.fns.items() if (e.get("trait_item") or "").endswith("AdvanceValidator::validate_segment_change") and p.startswith("<" + STD)]
    n = 0
    for p in vs:
        b = F.body(p)
        R.fn(p)
        pairs = {"param:3": "param:4", "param:5": "param:6"}      # (current_hop_field, current_info_field), (next_hop_field, next_info_field)
        for bb in sorted(b.live_blocks()):
            for st in b.stmts(bb):
                if not (st[0] == "=" and st[2][0] == "agg" and st[2][1][0] == "adt" and st[2][1][1].endswith("StandardRoutingError")):
                    continue
                names = st[2][1][4] if len(st[2][1]) > 4 else []
                if "if_id" not in names or "cons_dir" not in names:
                    continue
                ops = dict(zip(names, st[2][2]))
                ti, tc = tokens(b.origin(ops["if_id"])), tokens(b.origin(ops["cons_dir"]))
                hop = [h for h in pairs if h in ti]
                n += 1
                ok = len(hop) == 1 and pairs[hop[0]] in tc and not any(o in tc for h, o in pairs.items() if h != hop[0])
                R.ob("FLOW-err-dir", "%s{if_id from %s, cons_dir from %s}" % (st[2][1][2], hop, sorted(t for t in tc if t.startswith("param:"))), ok, True,
                     {"rule": "FLOW-err-dir", "variant": st[2][1][2], "if_id_from": hop, "cons_dir_from": sorted(t for t in tc if t.startswith("param:")), "holds": ok})
                if not ok:
                    R.violation("FLOW-err-dir", "%s/%s" % (p, st[2][1][2]), "%s reports interface %s with the construction-direction flag of %s: the SCMP code "
                                "(cons-ingress vs cons-egress interface unknown) is the wrong one for crossovers between segments of different direction"
                                % (st[2][1][2], hop, sorted(t for t in tc if t.startswith("param:"))), b.span_of(st[3]).loc)
    R.floor("FLOW-err-dir", n, 2, "interface errors built in StandardValidator::validate_segment_change")
