"""C12 — views and models agree; a failed operation leaves its operand untouched.

Decided here (DESIGN.md §5 C12): failure atomicity (FA) of every fallible
in-place operation on path / packet views and models, discovered by signature;
totality (PANIC) of those operations and of the view↔model conversions.
Not decided: equality of answers between view and model, involution of reversal.
"""
import re

import templates as T
import panic as PN
from facts import fmt as _fmt, tokens


def FX_fmt(o):
    return _fmt(o, 160)

# thorough tier: release configuration only — the dev-configuration pass (debug assertions on) still reports 16 debug_assert!/index sites that are not triaged; not registered until they are (DESIGN.md 12.1)
CRATES = ["sciparse"]

EXPLANATION = (
    "Static failure-atomicity analysis on rustc MIR: for every `fn(&mut operand,..) -> Result` (and by-value "
    "`fn(operand) -> Result<operand,(operand,E)>`) on sciparse path/packet views and models, discovered by "
    "signature, a forward may-write dataflow (stores through operand-derived pointers, calls passing operand-"
    "derived &mut to callees whose bottom-up summary may write; atomic callees taint only their Ok edge) shows "
    "that no block building an Err/`?` return is reachable after the operand may have been written. "
    "Totality: every potential panic site (explicit panic, unwrap/expect, slice/array indexing, division, "
    "arithmetic in dev config) in the call graph of those operations and of the view/model conversions must be "
    "discharged by a dominating guard, a constant argument, or a reviewed table entry. "
    "This decides the 'failed operation leaves operand untouched and never panics' clause on all paths of the "
    "code, not the view/model agreement of values."
)
EXPLANATION_ADD = ' Additions: (SIB-expiry) view and model compute the expiry per segment; (SIB-reverse-index) both mirror the current hop/info index as (count - current) - 1; armed subtraction underflow in StandardPathView::try_reverse (dev).'
EXPLANATION = EXPLANATION + EXPLANATION_ADD
EXPLANATION_ADD6 = ' Round-6 addition: (SIB-onehop-guard) the three reversals of a one-hop path (view try_reverse, model try_reverse, model try_into_reversed_standard_path) refuse an incomplete path by testing the same raw field of the same hop, so view and model agree on Ok/Err.'
EXPLANATION = EXPLANATION + EXPLANATION_ADD6
RESIDUAL = [
    "equality of view and model answers at every position (value property) — decided only through the sibling rules SIB-expiry and SIB-reverse-index (same structure of the computation on both sides)",
    "reversal is an involution (value property)",
]
ASSUMPTIONS = [
    "external (std/tinyvec) callees not in the reviewed pure-plumbing table are assumed to write through &mut arguments",
    "no interior mutability behind shared references in sciparse views/models (plain byte arrays)",
]

OPERAND_TY = re.compile(r"^&mut (sciparse::proto::(dataplane_path|packet|header)::[^ ]*|sciparse::scion::path::ScionPath|Self)$")
BYVALUE_MODS = ("sciparse::proto::dataplane_path", "sciparse::proto::packet", "sciparse::scion::path::ScionPath")

FA_FLOOR = 14          # counted by hand on 342f2d4 (see DESIGN.md §5 C12)
FA_BYVALUE_FLOOR = 2   # ScionDpPathViewExtMut::try_into_reversed, ScionPath::try_into_reversed


def fa_instances(F):
    refs, byval = [], []
    for p, e in sorted(F.fns.items()):
        if e["kind"] not in ("AssocFn", "Fn") or T.is_test_support(p):
            continue
        ins = e.get("inputs") or []
        out = e.get("output", "")
        if not ins or "Result<" not in out:
            continue
        if "::policy::" in p or "::combinator::" in p:
            continue
        if OPERAND_TY.match(ins[0]):
            if ins[0] == "&mut Self" and not p.startswith("sciparse::proto::dataplane_path"):
                continue
            refs.append(p)
        elif not ins[0].startswith("&") and p.startswith(BYVALUE_MODS) and ("(%s, " % ins[0]) in out and e.get("argnames", [None])[0] == "self":
            byval.append(p)
    return refs, byval


EXPIRY_SIBS = ("sciparse::proto::dataplane_path::standard::model::StandardPath::expiration",
               "sciparse::proto::dataplane_path::standard::view::StandardPathView::expiration")


def expiry_sibling_rule(F, R):
    """SIB-expiry: view and model compute a path's expiry the same way — per segment `timestamp(seg) + lifetime(min ExpTime
    over seg's hop fields)`, minimised over segments.  Decided structurally in both siblings: the two operands of the
    saturating_add derive from the *same* iteration element (same Iterator::next call site), the first through the info
    field's timestamp, the second through exp_time_to_duration of a min() over that element's hop fields, and the sum feeds
    an Ord::min accumulation.  A model that adds the globally oldest timestamp to the globally shortest lifetime agrees with
    the view only on single-segment paths."""
    from facts import walk, tokens, strip_sites
    n = 0
    for p in EXPIRY_SIBS:
        b = F.body(p)
        if b is None:
            R.anchor_missing(p)
            continue
        R.fn(p)
        adds = [c for c in b.calls if not c.indirect and c.decl.endswith("::saturating_add") and c.bb in b.live_blocks()]
        ok, why = bool(adds), "no saturating_add of timestamp and lifetime"
        for c in adds:
            n += 1
            oa, ob = b.origin(c.args[0]), b.origin(c.args[1])
            ta, tb = tokens(oa), tokens(ob)
            if not any(t.endswith("exp_time_to_duration") for t in tb) and any(t.endswith("exp_time_to_duration") for t in ta):
                oa, ob, ta, tb = ob, oa, tb, ta
            nexts = lambda o: {x[5] for x in walk(o) if x[0] == "call" and len(x) > 5 and x[1].endswith("Iterator>::next")}
            has_ts = any("timestamp" in t for t in ta)
            has_life = any(t.endswith("exp_time_to_duration") for t in tb) and any(t.endswith("Iterator::min") or t.endswith("::min") for t in tb)
            common = nexts(oa) & nexts(ob)
            feeds_min = any(cc.decl.endswith("Ord::min") or cc.decl.endswith("::min") for cc in b.calls if not cc.indirect and
                            any(x[0] == "call" and len(x) > 5 and x[5] == c.bb for a in cc.args for x in walk(b.origin(a))))
            ok = has_ts and has_life and bool(common) and feeds_min
            why = "timestamp operand: %s; lifetime operand: %s; same segment element: %s; minimised over segments: %s" % (has_ts, has_life, bool(common), feeds_min)
        R.ob("SIB-expiry", "%s: expiry = min over segments of (segment timestamp + lifetime of its shortest-lived hop)" % _short(p), ok, True,
             {"rule": "SIB-expiry", "fn": p, "detail": why, "holds": ok})
        if not ok:
            R.violation("SIB-expiry", p, "%s does not compute the expiry per segment (%s): view and model disagree on multi-segment paths whose "
                        "oldest segment is not the one with the shortest-lived hop field" % (_short(p), why), F.loc(p))
    R.floor("SIB-expiry", n, 2, "timestamp + lifetime additions in StandardPath::expiration / StandardPathView::expiration")


def _short(p):
    return "::".join(p.split("::")[-2:])


def onehop_reverse_guard_rule(F, R):
    """SIB-onehop-guard: the three reversals of a one-hop path (view try_reverse, model try_reverse, model
    try_into_reversed_standard_path) refuse an incomplete path by the same test — one field of hop 1 compared with 0.  They
    must read the same raw field of the same hop: a view that tests a direction-normalised accessor while the model tests the
    raw field makes view and model disagree on Ok/Err (and on the bytes) for the same path."""
    import facts as FX
    sites = (("sciparse::proto::dataplane_path::onehop::view::OneHopPathView::try_reverse", "view"),
             ("sciparse::proto::dataplane_path::onehop::model::OneHopPath::try_reverse", "model"),
             ("sciparse::proto::dataplane_path::onehop::model::OneHopPath::try_into_reversed_standard_path", "model"))
    got = {}
    for p, kind in sites:
        b = F.body(p)
        if b is None:
            R.anchor_missing(p)
            continue
        R.fn(p)
        for g in sorted(b.live_blocks()):
            t = b.term(g)
            if t[0] != "switch":
                continue
            o = FX.strip_sites(b.origin(t[1]))
            if not (o[0] == "bin" and o[1] in ("Eq", "Ne")):
                continue
            txt = _fmt(o, 2000)
            if not re.search(r" (Eq|Ne) 0\)$", txt):
                continue
            m = re.search(r"HopFieldView::(\w+)\(&\*OneHopPathView::hop_fields\(&\*param#1\)\[(\d+)\]", txt) if kind == "view" else None
            if m:
                got[p] = (m.group(1), int(m.group(2)), txt)
            else:
                m = re.search(r"param#1\.hops\[(\d+)\]\.(\w+)", txt)
                if m:
                    got[p] = (m.group(2), int(m.group(1)), txt)
                else:
                    m = re.search(r"(?:HopFieldView|HopField)::(\w+)\(", txt)
                    if m:
                        got[p] = (m.group(1), None, txt)
            break
    R.floor("SIB-onehop-guard", len(got), 3, "one-hop reversals with a recognised completeness guard")
    keys = {(v[0], v[1]) for v in got.values()}
    names = {v[0] for v in got.values()}
    idxs = {v[1] for v in got.values() if v[1] is not None}
    ok = len(names) == 1 and len(idxs) <= 1 and len(got) == 3        # an unrecognised index form is not a disagreement
    R.ob("SIB-onehop-guard", "view and model reversals of a one-hop path test the same field of the same hop: %s" % sorted(keys, key=str), ok or len(got) < 3, len(got) == 3,
         {"rule": "SIB-onehop-guard", "guards": {k: list(v[:2]) for k, v in got.items()}})
    if len(got) == 3 and not ok:
        major = max(keys, key=lambda k: sum(1 for v in got.values() if (v[0], v[1]) == k))
        for p, v in sorted(got.items()):
            if v[0] != major[0] or (v[1] is not None and major[1] is not None and v[1] != major[1]):
                R.violation("SIB-onehop-guard", p + "/guard", "%s refuses an incomplete one-hop path by testing %s of hop %s while its siblings test %s of hop %s: "
                            "view and model disagree on Ok/Err for the same path (guard: %s)" % (p.rsplit("::", 2)[-2] + "::" + p.rsplit("::", 1)[-1], v[0], v[1], major[0], major[1], v[2][:160]), F.loc(p))


def run(F, R, tier, cfg):
    expiry_sibling_rule(F, R)
    reverse_index_sibling_rule(F, R)
    onehop_reverse_guard_rule(F, R)
    fa = T.FA(F)
    refs, byval = fa_instances(F)
    for p in refs:
        R.fn(p)
        ok, findings = fa.check(p, 1, False)
        desc = "FA %s" % p
        R.ob("FA", desc, ok, True, {"rule": "FA", "fn": p, "loc": F.loc(p), "atomic": ok,
                                    "mutation_points": len(fa.mutation_points(F.body(p), 1)),
                                    "err_exits": len(fa.err_exits(F.body(p)))})
        for f in findings:
            R.violation("FA", "%s/%s after %s" % (p, f.get("err"), f.get("why")),
                        "operation can return an error after its operand was modified: %s at %s is reachable after %s (%s)"
                        % (f.get("err"), f.get("err_loc"), f.get("mut_loc"), f.get("why")),
                        f.get("err_loc"), f)
    for p in byval:
        R.fn(p)
        ok, findings = fa.check(p, 1, True)
        R.ob("FA-byvalue", "FA(by value) %s" % p, ok, True)
        for f in findings:
            R.violation("FA", "%s/%s after %s" % (p, f.get("err"), f.get("why")),
                        "by-value operation returns its operand in Err after modifying it: %s" % f, f.get("err_loc"), f)
    R.floor("FA", len(refs), FA_FLOOR, "fallible &mut operations on path/packet views and models")
    R.floor("FA-byvalue", len(byval), FA_BYVALUE_FLOOR, "by-value fallible reversals returning the operand on error")
    R.extra.setdefault("fa_instances", refs + byval)
    R.extra["fa_unknown_externals_assumed_writing"] = sorted(fa.unknown_externals)

    # totality of the same operations and of the conversions
    entries = list(refs) + list(byval)
    for suffix in ("expiration", "segments", "calculate_segment_index", "to_model"):
        for p in F.fns_named(suffix):
            if p.startswith("sciparse::proto::dataplane_path") and not T.is_test_support(p):
                entries.append(p)
    for p, e in F.fns.items():
        if e.get("trait_item") in ("sciparse::core::convert::FromView::from_view", "sciparse::core::convert::TryFromView::try_from_view") \
                and not T.is_test_support(p) and p.startswith("sciparse::proto::dataplane_path"):
            entries.append(p)
    PN.check_entries(F, R, "C12", sorted(set(entries)), cfg, underflow_armed=r"view::StandardPathView::try_reverse$")
    lane_contract(F, R)


LANE_FNS = ("sciparse::core::read::unchecked_bit_range_be_read", "sciparse::core::write::unchecked_bit_range_be_write")
LANE_FLOOR = 25   # 31 call sites counted on 8998145; the floor guards against the rule going vacuous, with room for refactors


def lane_contract(F, R):
    """LANE: the two unsafe bit-lane helpers index a 16-byte lane with `16 - range.size_bytes()`;
    the panic table relies on size_bytes <= 16.  Checked here: every call site in the functions
    analysed for C12 passes a compile-time constant BitRange (possibly byte-shifted with
    BitRange::shift, which preserves the size) whose containing byte range is <= 16 bytes."""
    for f in LANE_FNS:
        if f not in F.fns:
            R.anchor_missing("LANE helper %s" % f)
    n = 0
    for p in sorted(R.functions):
        b = F.body(p)
        if b is None:
            continue
        for c in b.calls_to(set(LANE_FNS)):
            n += 1
            o = b.origin(c.args[1])
            br = PN._const_bitrange(F, o)
            if br is None and o[0] == "call" and o[1].endswith("::BitRange::shift") and len(o[2]) == 2:
                br = PN._const_bitrange(F, o[2][0])
            ok = br is not None and br[0] <= br[1] and (-(-br[1] // 8) - br[0] // 8) <= 16
            R.ob("LANE", "%s@%s" % (p, c.span.loc), ok, True,
                 {"rule": "LANE", "fn": p, "loc": c.span.loc, "bit_range": br, "discharged": ok})
            if not ok:
                R.violation("LANE", "%s/%s" % (p, FX_fmt(o)),
                            "call of %s passes a bit range that is not a constant of <= 16 bytes (%s): the 16-byte lane "
                            "index in the helper can panic" % (c.decl.split("::")[-1], FX_fmt(o)), c.span.loc,
                            {"fn": p, "range_origin": FX_fmt(o), "bit_range": br})
    R.floor("LANE", n, LANE_FLOOR, "calls of unchecked_bit_range_be_read/write in the C12 call graph")


REV_MODEL = "sciparse::proto::dataplane_path::standard::model::StandardPath::try_reverse"
REV_VIEW = "sciparse::proto::dataplane_path::standard::view::StandardPathView::try_reverse"


def _plain(t):
    t = PN.strip_casts(t)
    if t[0] == "field" and t[2] == "0" and isinstance(t[1], tuple) and t[1][0] == "bin" and t[1][1].endswith("WithOverflow"):
        t = ("bin", t[1][1].replace("WithOverflow", ""), t[1][2], t[1][3])
    return t


def _mirror(t, cur_tokens):
    """t == (N - cur) - 1 with cur naming the current index; returns description or None"""
    t = _plain(t)
    if t[0] == "bin" and t[1].startswith("Sub") and PN.const_eval(t[3]) == 1:
        inner = _plain(t[2])
        if inner[0] == "bin" and inner[1].startswith("Sub"):
            tk = tokens(inner[3])
            if any(c in tk or any(x.endswith(c) for x in tk) for c in cur_tokens):
                return "(%s - current) - 1" % _fmt(inner[2], 50)
    return None


def reverse_index_sibling_rule(F, R):
    """SIB-reverse-index: "reversal preserves the logical position" on view and model alike: after reversing, both set
    current hop index = (total hops - current hop) - 1 and current info index = (segment count - current info) - 1.
    Decided structurally on the value each sibling stores; a sibling that derives one index differently (e.g. from the hop
    index) agrees with the other only on well-formed positions."""
    from facts import strip_sites
    n = 0
    found = {}
    b = F.body(REV_MODEL)
    if b is None:
        R.anchor_missing(REV_MODEL)
    else:
        R.fn(REV_MODEL)
        for bb in sorted(b.live_blocks()):
            for st in b.stmts(bb):
                if st[0] == "=" and st[1][1] and isinstance(st[1][1][-1], list) and st[1][1][-1][0] == "f" and st[1][1][-1][2] in ("current_hop_field", "current_info_field"):
                    fld = st[1][1][-1][2]
                    o = strip_sites(b._rvalue_origin(st[2], 40, None))
                    found[("model", fld)] = (_mirror(o, ["field:" + fld]), _fmt(o, 100), b.span_of(st[3]).loc)
    b = F.body(REV_VIEW)
    if b is None:
        R.anchor_missing(REV_VIEW)
    else:
        R.fn(REV_VIEW)
        for c in b.calls:
            if c.indirect or c.bb not in b.live_blocks():
                continue
            m = re.search(r"::set_curr_(hop|info)_field$", c.decl)
            if m:
                o = strip_sites(b.origin(c.args[1]))
                cur = "::curr_%s_field_idx" % m.group(1)
                found[("view", "current_%s_field" % m.group(1))] = (_mirror(o, [cur]), _fmt(o, 100), c.span.loc)
    for key in (("model", "current_hop_field"), ("model", "current_info_field"), ("view", "current_hop_field"), ("view", "current_info_field")):
        n += 1
        how, txt, loc = found.get(key, (None, "assignment not found", None))
        ok = how is not None
        R.ob("SIB-reverse-index", "%s try_reverse: new %s = %s" % (key[0], key[1], how or txt), ok, True,
             {"rule": "SIB-reverse-index", "sibling": key[0], "index": key[1], "value": txt, "holds": ok})
        if not ok:
            R.violation("SIB-reverse-index", "%s/%s" % key, "%s try_reverse does not mirror %s as (count - current) - 1 (%s): view and model disagree on the "
                        "position after reversal for some paths" % (key[0], key[1], txt), loc)
    R.floor("SIB-reverse-index", len(found), 4, "index updates in StandardPath::try_reverse and StandardPathView::try_reverse")
