"""NIBBLE — the address type/length nibble tables (shared by C08, C02, C03).

SCION packs host address type T (2 bits) and length L (2 bits) into one nibble; the address occupies (L + 1) * 4
bytes whatever T is.  WireHostAddrType::from(u8), ::size() and From<WireHostAddrType> for u8 are three tables written
as code.  Extracted over all 256 byte values (absint) and required to satisfy
  N1  size(from(n)) == ((n & 3) + 1) * 4      — the header layout derives every later offset from this size
  N2  u8::from(from(n)) == n  for n < 16       — decode/encode of the nibble is the identity (no aliasing)
"""
import absint as AI
from facts import short

HT = "sciparse::scion::address::host_addr::WireHostAddrType"
FROM_U8 = "<sciparse::scion::address::host_addr::WireHostAddrType as core::convert::From<u8>>::from"
TO_U8 = "sciparse::scion::address::host_addr::<impl core::convert::From<sciparse::scion::address::host_addr::WireHostAddrType> for u8>::from"
SIZE = HT + "::size"


def nibble_rules(F, R):
    for fn in (FROM_U8, SIZE, TO_U8):
        if not F.has_body(fn):
            R.anchor_missing(fn)
            return
        R.fn(fn)
    bad1, bad2, unk = [], [], []
    table = {}
    for n in range(256):
        v = AI.eval_fn(F, FROM_U8, [n])
        if not isinstance(v, AI.Agg):
            unk.append(n)
            continue
        sz = AI.eval_fn(F, SIZE, [v])
        table[n] = (v.variant, sz)
        if not isinstance(sz, int):
            unk.append(n)
            continue
        if n < 16 and sz != ((n & 3) + 1) * 4:
            bad1.append((n, repr(v), sz))
        if n < 16:
            back = AI.eval_fn(F, TO_U8, [v])
            if not isinstance(back, int):
                unk.append(n)
            elif back != n:
                bad2.append((n, repr(v), back))
    R.extra["host_addr_nibble_table"] = {format(n, "04b"): list(table[n]) for n in range(16) if n in table}
    ok = not unk
    R.ob("TBL-nibble", "WireHostAddrType::from / size / into<u8> evaluated over all byte values (%d undecided)" % len(unk), ok, True)
    if unk:
        R.violation("TBL-nibble", "undecided", "address type tables could not be evaluated for values %s" % unk[:8], F.loc(FROM_U8))
    R.ob("TBL-nibble", "N1 size(from(n)) == ((n & 3) + 1) * 4 for all 16 nibbles", not bad1, True,
         {"rule": "TBL-nibble", "table": {format(n, "04b"): list(table[n]) for n in range(16) if n in table}, "holds": not bad1})
    for (n, v, sz) in bad1[:4]:
        R.violation("TBL-nibble", "size/%s" % format(n, "04b"), "address nibble %s decodes to %s with size %s, but the wire length for L=%d is %d bytes: "
                    "every header offset after this address is computed from the wrong size (address fields alias)" % (format(n, "04b"), v, sz, n & 3, ((n & 3) + 1) * 4), F.loc(FROM_U8))
    R.ob("TBL-nibble", "N2 u8::from(from(n)) == n for all 16 nibbles", not bad2, True)
    for (n, v, back) in bad2[:4]:
        R.violation("TBL-nibble", "roundtrip/%s" % format(n, "04b"), "address nibble %s decodes to %s which encodes back as %s" % (format(n, "04b"), v, format(back, "04b")), F.loc(TO_U8))
