"""PANIC template — panic-free reachability.

From an entry set, enumerate every potential panic site in the reachable
workspace functions (resolved call graph, CHA for unresolved trait calls) and
require each to be discharged:
  auto   constant index below constant length; comparison guard that dominates
         the site and implies the bound; unwrap of a value built as Some/Ok on
         every path; bounded index expression (mask / modulo / narrow type);
  table  an entry of engine/tables/panic_guards.toml naming the function, the
         site tokens and EITHER guard tokens (the checker then verifies that a
         branch whose condition mentions those functions/constants dominates the
         site and controls it) OR a reviewed invariant (counted separately and
         listed in the evidence as relied-on, unchecked).
A site with no discharge is a violation naming the entry and the call path; a
table guard that no longer dominates its site re-opens the obligation.
"""
import os
import re
import tomllib

import facts as FX
from facts import tokens, fmt, walk, op_place, op_const, const_int, short, strip_sites
import templates as T

TABLE = os.path.join(os.path.dirname(os.path.dirname(os.path.abspath(__file__))), "tables", "panic_guards.toml")

# ---- reviewed list of callees with panicking preconditions -----------------
# (regex on declared or resolved callee path) -> class
PANIC_CALLEES = [
    (r"^(core|std)::panicking::(panic|panic_fmt|panic_display|panic_str|panic_nounwind|unreachable_display|panic_explicit|assert_failed|assert_matches_failed|panic_const::.*|panic_bounds_check|panic_in_cleanup|begin_panic)$", "explicit"),
    (r"^std::rt::(begin_panic|panic_fmt)$", "explicit"),
    (r"^core::option::Option::<T>::(unwrap|expect)$", "unwrap"),
    (r"^core::(option|result)::(unwrap_failed|expect_failed)$", "explicit"),
    (r"^core::result::Result::<T, E>::(unwrap|expect|unwrap_err|expect_err)$", "unwrap"),
    (r"ops::index::(Index|IndexMut)(<.*>)?(>)?::(index|index_mut)$", "index"),
    (r"<impl core::ops::index::(Index|IndexMut)<I> for .*>::(index|index_mut)$", "index"),
    (r"^core::slice::<impl \[T\]>::(split_at|split_at_mut|copy_from_slice|clone_from_slice|swap|copy_within|rotate_left|rotate_right|chunks|chunks_mut|chunks_exact|chunks_exact_mut|windows|rchunks|select_nth_unstable|as_chunks)$", "index"),
    (r"^core::str::<impl str>::(split_at|split_at_mut)$", "index"),
    (r"^alloc::vec::Vec::<T, A>::(remove|insert|swap_remove|drain|split_off|extend_from_within|splice)$", "index"),
    (r"^alloc::collections::vec_deque::VecDeque::<T, A>::(remove|insert|swap|drain|split_off|range|range_mut)$", "index"),
    (r"^alloc::string::String::(remove|insert|insert_str|drain|split_off|replace_range|truncate)$", "index"),
    (r"^tinyvec::arrayvec::ArrayVec::<A>::(push|insert|remove|swap_remove|drain|split_off|extend_from_slice|set_len|resize|resize_with|splice|from_array_len)$", "index"),
    (r"^tinyvec::tinyvec::TinyVec::<A>::(remove|swap_remove|drain|split_off|insert|splice)$", "index"),
    (r"^<tinyvec::arrayvec::ArrayVec<A> as core::iter::traits::collect::(FromIterator|Extend)<.*>>::(from_iter|extend)$", "index"),
    (r"iter::traits::iterator::Iterator(>)?::step_by$", "div"),
    (r"^core::char::(from_digit)$", "explicit"),
    (r"^core::num::<impl [a-z0-9]+>::(from_str_radix|pow|abs|div_euclid|rem_euclid|ilog|ilog2|ilog10|next_power_of_two|div_ceil|next_multiple_of|strict_.*)$", "arith"),
    (r"^<std::time::(Instant|SystemTime) as core::ops::arith::(Add|Sub|AddAssign|SubAssign)<core::time::Duration>>::.*$", "time"),
    (r"^<std::time::Instant as core::ops::arith::Sub>::sub$", "time"),
    (r"^<core::time::Duration as core::ops::arith::(Add|Sub|Mul<u32>|Div<u32>|AddAssign|SubAssign)>::.*$", "time"),
    (r"^core::time::Duration::(from_secs_f32|from_secs_f64|mul_f32|mul_f64|div_f32|div_f64|new)$", "time"),
    (r"^<chrono::.* as core::ops::arith::(Add|Sub)<.*>>::(add|sub)$", "time"),
    (r"^core::cell::RefCell::<T>::(borrow|borrow_mut)$", "borrow"),
    (r"^std::collections::hash::map::HashMap::<K, V, S, A>::(get_many_mut|get_disjoint_mut)$", "index"),
]
_PANIC_RE = [(re.compile(p), c) for p, c in PANIC_CALLEES]

EXCLUDED_CLASSES = {"none", "alloc", "borrow"}


def classify_callee(name):
    for r, c in _PANIC_RE:
        if r.search(name):
            return c
    return None


class Site:
    __slots__ = ("fn", "bb", "cls", "kind", "ops", "span", "body", "sig", "toks", "call", "msg", "opsr", "optoks")

    def key(self):
        return "%s/%s/%s" % (self.fn, self.cls, self.sig)


def strip_casts(t):
    while isinstance(t, tuple) and t and t[0] == "cast" and t[1] in ("IntToInt",):
        t = t[2]
    return t


def upper_bound(t, depth=0):
    """constant upper bound of an integer origin tree, or None"""
    if depth > 12 or not isinstance(t, tuple):
        return None
    k = t[0]
    if k == "lit" and isinstance(t[1], int):
        return t[1]
    if k == "const" and isinstance(t[2], int):
        return t[2]
    if k == "cast" and t[1] == "IntToInt":
        inner = upper_bound(t[2], depth + 1)
        src = {"u8": 255, "u16": 65535, "u32": 2 ** 32 - 1, "bool": 1}.get(t[3])
        dst = {"u8": 255, "u16": 65535, "u32": 2 ** 32 - 1, "usize": 2 ** 64 - 1, "u64": 2 ** 64 - 1, "u128": 2 ** 128 - 1}.get(t[4])
        if dst is None:
            return None
        cands = [x for x in (inner, src) if x is not None]
        if not cands:
            return None
        b = min(cands)
        if inner is None and src is None:
            return None
        # truncating cast keeps value ≤ dst max; widening keeps the bound
        return min(b, dst)
    if k == "bin":
        op, a, b = t[1], t[2], t[3]
        ua, ub = upper_bound(a, depth + 1), upper_bound(b, depth + 1)
        if op == "BitAnd":
            c = [x for x in (ua, ub) if x is not None]
            return min(c) if c else None
        if op == "Rem" and ub is not None and ub > 0:
            return ub - 1
        if op == "Shr" and ua is not None:
            lb = b[1] if b[0] == "lit" and isinstance(b[1], int) else 0
            return ua >> lb
        if op == "Div" and ua is not None:
            lb = b[1] if b[0] == "lit" and isinstance(b[1], int) and b[1] > 0 else 1
            return ua // lb
        if op in ("Add", "AddUnchecked", "AddWithOverflow") and ua is not None and ub is not None:
            return ua + ub
        if op in ("Mul", "MulUnchecked", "MulWithOverflow") and ua is not None and ub is not None:
            return ua * ub
        if op in ("SubUnchecked", "SubWithOverflow") and ua is not None:
            # plain `Sub` is excluded: with overflow checks off it wraps, so a - b is not bounded by a
            return ua
        if op in ("Lt", "Le", "Gt", "Ge", "Eq", "Ne"):
            return 1
        return None
    if k == "field" and t[2] == "0" and isinstance(t[1], tuple) and t[1][0] == "bin" and t[1][1].endswith("WithOverflow"):
        return upper_bound(("bin", t[1][1].replace("WithOverflow", ""), t[1][2], t[1][3]), depth + 1)
    if k == "phi":
        bs = [upper_bound(a, depth + 1) for a in t[1]]
        if all(b is not None for b in bs) and bs:
            return max(bs)
        return None
    if k == "call":
        nm = t[1]
        if nm.endswith("::min") or "::cmp::min" in nm:
            bs = [upper_bound(a, depth + 1) for a in t[2]]
            c = [x for x in bs if x is not None]
            return min(c) if c else None
        if nm.endswith("::count_ones") or nm.endswith("::leading_zeros") or nm.endswith("::trailing_zeros"):
            return 128
    return None


_ARR = re.compile(r"\[[^;\[\]]+; (\d+)\]$")


def _ty_len(ty):
    if not ty:
        return None
    ty = ty.strip()
    for pre in ("&mut ", "&"):
        if ty.startswith(pre):
            ty = ty[len(pre):]
    m = _ARR.search(ty)
    if m and ty.startswith("["):
        return int(m.group(1))
    return None


def range_bounds(t):
    """(lo, hi) constants of a Range-like aggregate origin; hi None = open"""
    if t[0] == "agg" and t[1][0] == "adt":
        nm = t[1][1]
        vals = [upper_bound(x) if x[0] in ("lit", "const") else None for x in t[2]]
        if nm.endswith("::Range") and len(vals) == 2:
            return ("range", vals[0], vals[1])
        if nm.endswith("::RangeTo") and len(vals) == 1:
            return ("range", 0, vals[0])
        if nm.endswith("::RangeFrom") and len(vals) == 1:
            return ("from", vals[0], None)
        if nm.endswith("::RangeInclusive"):
            return None
    return None


def const_len(t, depth=0):
    """constant length of a slice/array-valued origin tree, else None"""
    if depth > 10 or not isinstance(t, tuple):
        return None
    k = t[0]
    if k in ("ref",):
        return const_len(t[2], depth + 1)
    if k == "deref":
        return const_len(t[1], depth + 1)
    if k == "cast":
        n = _ty_len(t[3])
        if n is not None:
            return n
        return const_len(t[2], depth + 1)
    if k == "agg" and t[1][0] == "array":
        return len(t[2])
    if k == "repeat":
        m = re.search(r"(\d+)", str(t[2]))
        return int(m.group(1)) if m else None
    if k == "lit":
        return _ty_len(t[2])
    if k == "call":
        nm = t[1]
        if re.search(r"::(index|index_mut|get_unchecked|get_unchecked_mut)$", nm) and len(t[2]) == 2:
            ix = t[2][1]
            if ix[0] == "call" and re.search(r"::BitRange::(aligned_byte_range|containing_byte_range)$", ix[1]) and len(ix[2]) == 1:
                br = _const_bitrange(None, ix[2][0])
                if br is not None and br[0] <= br[1]:
                    return -(-br[1] // 8) - br[0] // 8
            rb = range_bounds(t[2][1])
            if rb and rb[0] == "range" and rb[1] is not None and rb[2] is not None:
                return rb[2] - rb[1]
            if rb and rb[0] == "from" and rb[1] is not None:
                base = const_len(t[2][0], depth + 1)
                return base - rb[1] if base is not None and base >= rb[1] else None
        n = _ty_len(t[4]) if len(t) > 4 else None
        if n is not None:
            return n
    if k == "phi":
        ls = [const_len(a, depth + 1) for a in t[1] if a[0] not in ("partial",)]
        if ls and all(x is not None and x == ls[0] for x in ls):
            return ls[0]
    return None


def enumerate_sites(F, fn, cfg):
    """all potential panic sites of one body"""
    body = F.body(fn)
    if body is None:
        return []
    out = []
    live = body.live_blocks()
    crate = F.fns[fn]["_crate"]
    for b in sorted(live):
        if body.is_cleanup(b):
            continue
        t = body.term(b)
        if t[0] == "assert":
            kind = t[3]
            s = Site()
            s.fn, s.bb, s.body, s.call, s.msg = fn, b, body, None, None
            s.span = body.term_span(b)
            s.ops = t[4]
            if kind == "BoundsCheck":
                s.cls, s.kind = "index", "BoundsCheck"
            elif kind.startswith("Overflow"):
                s.cls, s.kind = "overflow", kind
            elif kind in ("DivisionByZero", "RemainderByZero"):
                s.cls, s.kind = "div", kind
            elif kind.startswith("ResumedAfter") or kind in ("MisalignedPointerDereference", "NullPointerDereference", "InvalidEnumConstruction"):
                continue
            else:
                s.cls, s.kind = "explicit", kind
            out.append(s)
        elif t[0] == "call":
            c = [c for c in body.calls if c.bb == b][0]
            if c.indirect:
                continue
            cls = None
            for n in (c.decl, c.res):
                if n:
                    cls = classify_callee(n)
                    if cls:
                        break
            if cls is None or cls in EXCLUDED_CLASSES:
                continue
            s = Site()
            s.fn, s.bb, s.body, s.call = fn, b, body, c
            s.span = c.span
            s.cls = cls
            s.kind = short(c.decl)
            s.ops = c.args
            s.msg = None
            out.append(s)
    # signatures
    for s in out:
        body = s.body
        trees = [body.origin(o) for o in s.ops]
        s.toks = set()
        for tr in trees:
            s.toks |= tokens(tr)
        if s.call is not None and s.call.selfty:
            s.toks.add("self:" + s.call.selfty)
        rendered = "; ".join(fmt(tr, 160) for tr in trees[:3])
        s.opsr = [fmt(tr, 400) for tr in trees]
        s.optoks = [tokens(tr) for tr in trees]
        if s.cls == "explicit" or s.cls == "unwrap":
            # message string literal if any (stable, human meaningful)
            for tr in trees:
                for n in walk(tr):
                    if n[0] == "lit" and isinstance(n[1], str) and n[1].startswith("str:"):
                        s.msg = n[1][4:]
        s.sig = "%s(%s)" % (s.kind, rendered)
    return out


# ---------------------------------------------------------------------------
# auto discharge


def _cmp_guards(body, site_bb, start=0):
    """bool-switch blocks lying on every path start→site with the edge taken towards the site:
    yields (block, cond_origin, polarity) where polarity True = site only reachable via the true edge"""
    key = (site_bb, start)
    memo = body.__dict__.setdefault("_cmpg_memo", {})
    if key in memo:
        return memo[key]
    out = []
    if start == 0:
        cands = body.dom.get(site_bb, set())
    else:
        r0 = body.reach([start])
        cands = r0 if site_bb in r0 else set()
    for g in cands:
        if g == site_bb:
            continue
        e = FX.bool_edges(body, g)
        if e is None:
            continue
        tt, ff = e
        # which edge leads to the site exclusively?
        succ = [list(s) for s in body.succ]
        succ[g] = [ff]
        via_false = site_bb in body.reach([start], succ=succ)
        succ[g] = [tt]
        via_true = site_bb in body.reach([start], succ=succ)
        if g == start:
            via_false = site_bb in body.reach([ff], avoid=[g]) or ff == site_bb
            via_true = site_bb in body.reach([tt], avoid=[g]) or tt == site_bb
        if via_true and not via_false:
            out.append((g, body.origin(body.term(g)[1]), True))
        elif via_false and not via_true:
            out.append((g, body.origin(body.term(g)[1]), False))
    memo[key] = out
    return out


_NEG = {"Lt": "Ge", "Le": "Gt", "Gt": "Le", "Ge": "Lt", "Eq": "Ne", "Ne": "Eq"}


def _norm_cmp(cond, pol):
    """(op, a, b) of a comparison origin under the polarity of the edge taken, else None"""
    c, p = cond, pol
    while c[0] == "un" and c[1] == "Not":
        c, p = c[2], not p
    if c[0] != "bin" or c[1] not in _NEG:
        return None
    op = c[1] if p else _NEG[c[1]]
    return op, c[2], c[3]


def const_eval(t, depth=0):
    """value of a compile-time constant integer expression tree, else None"""
    if depth > 10 or not isinstance(t, tuple):
        return None
    k = t[0]
    if k == "lit":
        return t[1] if isinstance(t[1], int) and not isinstance(t[1], bool) else None
    if k == "const":
        return t[2] if isinstance(t[2], int) and not isinstance(t[2], bool) else None
    if k == "cast" and t[1] == "IntToInt":
        return const_eval(t[2], depth + 1)
    if k == "field" and t[2] == "0" and isinstance(t[1], tuple) and t[1][0] == "bin" and t[1][1].endswith("WithOverflow"):
        return const_eval(("bin", t[1][1].replace("WithOverflow", ""), t[1][2], t[1][3]), depth + 1)
    if k == "bin":
        a, b = const_eval(t[2], depth + 1), const_eval(t[3], depth + 1)
        if a is None or b is None:
            return None
        op = t[1].replace("Unchecked", "")
        try:
            return {"Add": a + b, "Sub": a - b, "Mul": a * b, "Div": a // b if b else None, "Rem": a % b if b else None,
                    "Shl": a << b if 0 <= b < 128 else None, "Shr": a >> b if 0 <= b < 128 else None,
                    "BitAnd": a & b, "BitOr": a | b}.get(op)
        except Exception:
            return None
    return None


def _stable(t):
    """an origin tree that denotes one value on every path (no merge of different definitions)"""
    for n in walk(t):
        if n[0] in ("phi", "loop", "top", "partial", "undef"):
            return False
    return True


def guard_ub(body, site_bb, val, start=0):
    """largest constant U such that the guards on every path start→site imply val <= U"""
    if not _stable(val):
        return None
    best = None
    for g, cond, pol in _cmp_guards(body, site_bb, start):
        n = _norm_cmp(cond, pol)
        if not n:
            continue
        op, a, b = n
        u = None
        if _eq_mod_casts(a, val):
            cb = const_eval(b)
            if cb is not None:
                u = {"Lt": cb - 1, "Le": cb, "Eq": cb}.get(op)
        elif _eq_mod_casts(b, val):
            ca = const_eval(a)
            if ca is not None:
                u = {"Gt": ca - 1, "Ge": ca, "Eq": ca}.get(op)
        if u is not None:
            best = u if best is None else min(best, u)
    return best


def _unsigned_tree(t):
    """the tree is syntactically of an unsigned integer type (a cast to one)"""
    return t[0] == "cast" and len(t) >= 5 and str(t[4]) in ("usize", "u8", "u16", "u32", "u64", "u128")


def guard_lb(body, site_bb, val, start=0):
    """smallest constant L such that the guards on every path start→site imply val >= L"""
    if not _stable(val):
        return None
    best = None
    for g, cond, pol in _cmp_guards(body, site_bb, start):
        n = _norm_cmp(cond, pol)
        if not n:
            continue
        op, a, b = n
        l = None
        if _eq_mod_casts(a, val):
            cb = const_eval(b)
            if cb is not None:
                l = {"Gt": cb + 1, "Ge": cb, "Eq": cb}.get(op)
                if op == "Ne" and cb == 0:
                    l = 1
            elif op == "Gt" and _unsigned_tree(b):
                l = 1                      # val > (some unsigned value) implies val >= 1
        elif _eq_mod_casts(b, val):
            ca = const_eval(a)
            if ca is not None:
                l = {"Lt": ca + 1, "Le": ca, "Eq": ca}.get(op)
                if op == "Ne" and ca == 0:
                    l = 1
            elif op == "Lt" and _unsigned_tree(a):
                l = 1
        if l is not None:
            best = l if best is None else max(best, l)
    return best


# upper bounds of struct fields proven by a property-specific FIELD-UB rule (set by the rule module for its run)
FIELD_UB = {}


def tree_ub_at(body, site_bb, t, start=0, depth=0):
    """inclusive constant upper bound of a (stable) value tree at a site: constants, arithmetic,
    field invariants, and guards on every path to the site"""
    if depth > 10 or not isinstance(t, tuple):
        return None
    c = const_eval(t)
    if c is not None:
        return c
    g = guard_ub(body, site_bb, t, start)
    k = t[0]
    u = None
    if k == "cast" and t[1] == "IntToInt":
        inner = tree_ub_at(body, site_bb, t[2], start, depth + 1)
        src = {"u8": 255, "u16": 65535, "u32": 2 ** 32 - 1, "bool": 1}.get(t[3])
        dst = {"u8": 255, "u16": 65535, "u32": 2 ** 32 - 1, "usize": 2 ** 64 - 1, "u64": 2 ** 64 - 1, "u128": 2 ** 128 - 1}.get(t[4])
        c2 = [x for x in (inner, src) if x is not None]
        if c2 and dst is not None:
            u = min(min(c2), dst)
    elif k == "bin":
        op = t[1].replace("Unchecked", "").replace("WithOverflow", "")
        a = tree_ub_at(body, site_bb, t[2], start, depth + 1)
        b = tree_ub_at(body, site_bb, t[3], start, depth + 1)
        cb = const_eval(t[3])
        if op == "Div" and a is not None and cb:
            u = a // cb
        elif op == "Div" and a is not None:
            u = a
        elif op == "Rem" and cb:
            u = cb - 1
        elif op == "BitAnd":
            c2 = [x for x in (a, b) if x is not None]
            u = min(c2) if c2 else None
        elif op == "Shr" and a is not None:
            u = a >> (cb if cb is not None and 0 <= cb < 128 else 0)
        elif op in ("Add",) and a is not None and b is not None and a + b < 2 ** 64:
            u = a + b
        elif op in ("Mul",) and a is not None and b is not None and a * b < 2 ** 64:
            u = a * b
        elif op in ("Lt", "Le", "Gt", "Ge", "Eq", "Ne"):
            u = 1
    elif k == "field" and t[2] == "0" and isinstance(t[1], tuple) and t[1][0] == "bin" and t[1][1].endswith("WithOverflow"):
        u = tree_ub_at(body, site_bb, ("bin", t[1][1].replace("WithOverflow", ""), t[1][2], t[1][3]), start, depth + 1)
    elif k == "field" and t[2] in FIELD_UB:
        u = FIELD_UB[t[2]]
    elif k in ("field", "downcast") and isinstance(t[1], tuple):
        # payload of an Option-typed field with a proven bound:  (x.f as Some).0
        inner = t[1]
        while isinstance(inner, tuple) and inner and inner[0] in ("downcast", "field") and not (inner[0] == "field" and inner[2] in FIELD_UB):
            inner = inner[1] if isinstance(inner[1], tuple) else None
            if inner is None:
                break
        if isinstance(inner, tuple) and inner and inner[0] == "field" and inner[2] in FIELD_UB:
            u = FIELD_UB[inner[2]]
    elif k == "call":
        nm = t[1]
        if nm.endswith("::min") or "::cmp::min" in nm:
            c2 = [x for x in (tree_ub_at(body, site_bb, a, start, depth + 1) for a in t[2]) if x is not None]
            u = min(c2) if c2 else None
        elif nm.endswith("Option::<T>::unwrap_or") and len(t[2]) == 2:
            o, d = t[2]
            du = tree_ub_at(body, site_bb, d, start, depth + 1)
            ou = None
            if isinstance(o, tuple) and o and o[0] == "field" and o[2] in FIELD_UB:
                ou = FIELD_UB[o[2]]
            if du is not None and ou is not None:
                u = max(du, ou)
    c2 = [x for x in (g, u) if x is not None]
    return min(c2) if c2 else None


def place_ub_at(body, site_bb, op, depth=0, _vis=None):
    """inclusive upper bound of an operand at a site, path-sensitive over the definitions of a
    multiply-assigned local: each definition must be bounded by a constant, by arithmetic over
    bounded values, or by a guard that all paths from that definition to the site pass"""
    k = op_const(op)
    if k is not None:
        v = k.get("v")
        return v if isinstance(v, int) and not isinstance(v, bool) else None
    pl = op_place(op)
    if pl is None or pl[1] or depth > 8:
        return tree_ub_at(body, site_bb, body.origin(op)) if pl is not None else None
    l = pl[0]
    _vis = _vis or frozenset()
    if l in _vis or 1 <= l <= body.argc:
        return None
    defs = body.defs.get(l, ())
    if not defs:
        return None
    ubs = []
    for d in defs:
        if d[3]:
            return None
        B = d[1]
        if site_bb not in body.reach([B]) and B != site_bb:
            continue
        if d[0] != "assign":
            t = body.local_origin(l)
            u = tree_ub_at(body, site_bb, t) if len(defs) == 1 else None
            if u is None:
                return None
            ubs.append(u)
            continue
        rv = d[4]
        u = None
        t = body._rvalue_origin(rv, 12, frozenset())
        if _stable(t):
            c2 = [x for x in (tree_ub_at(body, B, t, 0), tree_ub_at(body, site_bb, t, B)) if x is not None]
            u = min(c2) if c2 else None
        if u is None and rv[0] == "use":
            u = place_ub_at(body, B, rv[1], depth + 1, _vis | {l})
        if u is None and rv[0] == "bin":
            op2 = rv[1].replace("Unchecked", "")
            a = place_ub_at(body, B, rv[2], depth + 1, _vis | {l})
            cb = const_int(rv[3])
            if op2 == "Div" and a is not None and cb:
                u = a // cb
            elif op2 == "Rem" and cb:
                u = cb - 1
        if u is None and rv[0] == "cast" and rv[1] == "IntToInt":
            u = place_ub_at(body, B, rv[2], depth + 1, _vis | {l})
        if u is None:
            return None
        ubs.append(u)
    return max(ubs) if ubs else None


_PURE_CALL = re.compile(r"(<impl \[T\]>|Vec::<T, A>|<impl str>|String|VecDeque::<T, A>|ArrayVec::<A>|TinyVec::<A>)::(len|is_empty|as_slice|as_str|as_bytes)$"
                        r"|sciparse::core::view::View::as_slice$|ops::deref::Deref(>)?::deref$|convert::(From|Into)(<.*>)?(>)?::(from|into)$|convert::AsRef(<.*>)?(>)?::as_ref$"
                        r"|core::num::<impl [a-z0-9]+>::(from_be_bytes|from_le_bytes|to_be|to_le|swap_bytes|is_multiple_of|min|max|saturating_sub|saturating_add|wrapping_add|wrapping_sub)$")


def _pure_tree(t):
    """every call in the tree is a pure accessor of its arguments (same arguments ⇒ same value)"""
    for n in walk(t):
        if n[0] == "call" and not (_PURE_CALL.search(n[1]) or (len(n) > 3 and n[3] and _PURE_CALL.search(n[3]))):
            return False
        if n[0] in ("icall", "top", "loop", "phi", "partial", "undef"):
            return False
    return True


def _canon_len(t):
    """rewrite slice-length reads into one form: len(&*x) and PtrMetadata(x) both become ("len", x)"""
    if not isinstance(t, tuple):
        return t
    if t and t[0] == "call" and len(t) > 2 and len(t[2]) == 1 and re.search(r"(<impl \[T\]>|Vec::<T, A>|<impl str>)::len$", t[1]):
        return ("len", _canon_len(_peel_refs(t[2][0])))
    if t and t[0] == "un" and t[1] == "PtrMetadata":
        return ("len", _canon_len(_peel_refs(t[2])))
    return tuple(_canon_len(x) if isinstance(x, tuple) else x for x in t)


def _eq_mod_casts(a, b):
    a, b = strip_casts(a), strip_casts(b)
    if a == b:
        return True
    if FX.strip_sites(a) == FX.strip_sites(b) and _pure_tree(a):
        return True
    ca, cb = _canon_len(FX.strip_sites(a)), _canon_len(FX.strip_sites(b))
    return ca == cb and _pure_tree(a) and _pure_tree(b)


def implies_lt(cond, pol, idx, length):
    """does (cond == pol) imply idx < length ?  cond is an origin tree of a bool."""
    c = cond
    if c[0] == "un" and c[1] == "Not":
        return implies_lt(c[2], not pol, idx, length)
    if c[0] != "bin":
        return False
    op, a, b = c[1], c[2], c[3]
    # normalise to  a OP b  under polarity
    if not pol:
        op = {"Lt": "Ge", "Le": "Gt", "Gt": "Le", "Ge": "Lt", "Eq": "Ne", "Ne": "Eq"}.get(op)
        if op is None:
            return False
    if op == "Lt" and _eq_mod_casts(a, idx) and _eq_mod_casts(b, length):
        return True
    if op == "Gt" and _eq_mod_casts(b, idx) and _eq_mod_casts(a, length):
        return True
    return False


def implies_le(cond, pol, end, length):
    c = cond
    if c[0] == "un" and c[1] == "Not":
        return implies_le(c[2], not pol, end, length)
    if c[0] != "bin":
        return False
    op, a, b = c[1], c[2], c[3]
    if not pol:
        op = {"Lt": "Ge", "Le": "Gt", "Gt": "Le", "Ge": "Lt"}.get(op)
        if op is None:
            return False
    if op in ("Le", "Lt") and _eq_mod_casts(a, end) and _eq_mod_casts(b, length):
        return True
    if op in ("Ge", "Gt") and _eq_mod_casts(b, end) and _eq_mod_casts(a, length):
        return True
    return False


def implies_len_ge_const(cond, pol, ln, k):
    """does (cond == pol) imply  len >= k  for a constant k?  handles len == c, len != c, len >= c, len > c, len < c"""
    n = _norm_cmp(cond, pol)
    if not n:
        return False
    op, a, b = n
    if _eq_mod_casts(a, ln):
        c = const_eval(b)
        if c is None:
            return False
        return (op == "Eq" and c >= k) or (op == "Ge" and c >= k) or (op == "Gt" and c + 1 >= k)
    if _eq_mod_casts(b, ln):
        c = const_eval(a)
        if c is None:
            return False
        return (op == "Eq" and c >= k) or (op == "Le" and c >= k) or (op == "Lt" and c + 1 >= k)
    return False



def _peel_refs(t):
    while isinstance(t, tuple) and t and t[0] in ("ref", "deref"):
        t = t[2] if t[0] == "ref" else t[1]
    return t


def _const_bitrange(F, t):
    """(start, end) if t is (a reference to / copy of) a BitRange-typed constant"""
    t = _peel_refs(t)
    if isinstance(t, tuple) and t and t[0] == "promoted":
        t = _peel_refs(t[1])
    if isinstance(t, tuple) and t and t[0] == "const" and len(t) > 3 and str(t[3]).endswith("::BitRange"):
        v = t[2]
        if isinstance(v, str) and v.startswith("0x") and len(v) == 34:
            b = bytes.fromhex(v[2:])
            return int.from_bytes(b[:8], "little"), int.from_bytes(b[8:], "little")
    return None


def _bitrange_index(F, s, base):
    """array[CONST_BITRANGE.aligned_byte_range()/containing_byte_range()] on a fixed-size array"""
    n = _ty_len(s.call.selfty) if s.call.selfty else None
    if n is None:
        n = const_len(base)
    ix = s.body.origin(s.ops[1])
    if n is None or ix[0] != "call" or not re.search(r"::BitRange::(aligned_byte_range|containing_byte_range)$", ix[1]) or len(ix[2]) != 1:
        return None
    br = _const_bitrange(F, ix[2][0])
    if br is None:
        return None
    lo, hi = br[0] // 8, -(-br[1] // 8)
    if lo <= hi <= n:
        return "constant BitRange %d..%d bits = bytes %d..%d within array length %d" % (br[0], br[1], lo, hi, n)
    return None


def _is_len_of(t, base):
    t = strip_casts(t)
    b = _peel_refs(base)
    if t[0] == "call" and re.search(r"(<impl \[T\]>|Vec::<T, A>|<impl str>)::len$", t[1]) and len(t[2]) == 1:
        return _peel_refs(t[2][0]) == b
    if t[0] == "un" and t[1] == "PtrMetadata":
        return _peel_refs(t[2]) == b
    return False


def _guarded_range_index(body, s, base):
    """s[x..] / s[..x] / s[a..x] where a dominating comparison implies x <= s.len()
    (for a..x additionally a is a constant 0 or the same guard form holds for a <= x is not
    attempted: only RangeFrom and RangeTo are discharged here)"""
    ix = body.origin(s.ops[1])
    if not (ix[0] == "agg" and ix[1][0] == "adt" and re.search(r"::(RangeFrom|RangeTo)$", ix[1][1]) and len(ix[2]) == 1):
        return None
    x = ix[2][0]
    xc = const_eval(x)
    for g, cond, pol in _cmp_guards(body, s.bb):
        c, p = cond, pol
        while c[0] == "un" and c[1] == "Not":
            c, p = c[2], not p
        if c[0] != "bin":
            continue
        for ln in (c[2], c[3]):
            if _is_len_of(ln, base) and implies_le(c, p, x, ln):
                return "guard %s (%s edge) at bb%d implies bound <= len" % (fmt(cond, 100), pol, g)
            if xc is not None and _is_len_of(ln, base) and implies_len_ge_const(c, p, ln, xc):
                return "guard %s (%s edge) at bb%d implies len >= %d" % (fmt(cond, 100), pol, g, xc)
    return None


def _len_relative_range(body, s, base):
    return None


def _first_split_item(body, s):
    """unwrap/expect of the FIRST next() on a fresh str::split / splitn(n >= 1) / rsplit iterator: these
    iterators always yield at least one item"""
    o = body.origin(s.ops[0])
    if not (o[0] == "call" and o[1].endswith("::next") and len(o[2]) == 1):
        return None
    it = _peel_refs(o[2][0])
    if not (it[0] == "call" and re.search(r"<impl str>::(split|splitn|rsplit|rsplitn|split_inclusive)$", it[1])):
        return None
    if re.search(r"::r?splitn$", it[1]):
        n = const_eval(it[2][1]) if len(it[2]) > 1 else None
        if n is None or n < 1:
            return None
    # the iterator local: receiver of the next() call; no other next() on it may precede this one
    nb = o[5] if len(o) > 5 else None
    nc = [c for c in body.calls if c.bb == nb]
    if not nc:
        return None
    rl = op_place(nc[0].args[0])
    if rl is None:
        return None
    roots = {rl[0]}
    for d in body.defs.get(rl[0], ()):
        if d[0] == "assign" and d[4][0] == "ref":
            roots.add(d[4][2][0])
    for c in body.calls:
        if c is nc[0] or c.indirect or not c.decl.endswith("::next") or not c.args:
            continue
        pl = op_place(c.args[0])
        if pl is None:
            continue
        r2 = {pl[0]}
        for d in body.defs.get(pl[0], ()):
            if d[0] == "assign" and d[4][0] == "ref":
                r2.add(d[4][2][0])
        if (r2 & roots) - {rl[0], pl[0]} and (nb in body.reach(body.succ[c.bb])):
            return None
    return "first item of a fresh %s iterator (always yields at least one item)" % it[1].split("::")[-1]


def _array_try_into(body, s):
    """unwrap/expect of <&[T] as TryInto<[T; N]>>::try_into(x) where x has constant length N"""
    o = body.origin(s.ops[0])
    if not (o[0] == "call" and (o[1].endswith("::try_into") or o[1].endswith("::try_from")) and len(o[2]) == 1):
        return None
    n = _ty_len(re.sub(r"^core::result::Result<(.*), [^,]*>$", r"\1", str(o[4]) if len(o) > 4 and o[4] else ""))
    src = const_len(o[2][0])
    if n is not None and src is not None and n == src:
        return "try_into::<[_; %d]> of a slice of constant length %d" % (n, src)
    return None


def _len_tree_of(t):
    """S if t is len(S) / PtrMetadata(S) (modulo casts)"""
    t = strip_casts(t)
    if t[0] == "call" and re.search(r"(<impl \[T\]>|Vec::<T, A>|<impl str>)::len$", t[1]) and len(t[2]) == 1:
        return _peel_refs(t[2][0])
    if t[0] == "un" and t[1] == "PtrMetadata":
        return _peel_refs(t[2])
    return None


def _guarded_array_range(body, s, n):
    """arr[a..b] / arr[..b] on a fixed-size array of length n where the guards on every path imply
    b <= n, and a <= b because b is literally a + len(x) with a small a (no wrap-around)"""
    if n is None:
        return None
    ix = body.origin(s.ops[1])
    if not (ix[0] == "agg" and ix[1][0] == "adt"):
        return None
    nm = ix[1][1]
    if nm.endswith("::RangeTo") and len(ix[2]) == 1:
        u = tree_ub_at(body, s.bb, ix[2][0])
        if u is not None and u <= n:
            return "range end <= %d <= array length %d (guards / field invariant)" % (u, n)
        return None
    if nm.endswith("::Range") and len(ix[2]) == 2:
        a, b = ix[2]
        u = tree_ub_at(body, s.bb, b)
        if u is None or u > n:
            return None
        bb = strip_casts(b)
        if bb[0] == "field" and bb[2] == "0" and bb[1][0] == "bin":
            bb = ("bin", bb[1][1].replace("WithOverflow", ""), bb[1][2], bb[1][3])
        if bb[0] == "bin" and bb[1] in ("Add", "AddUnchecked") and _eq_mod_casts(bb[2], a) and _len_tree_of(bb[3]) is not None:
            au = tree_ub_at(body, s.bb, a)
            if au is not None and au < 2 ** 62:
                return "range %s..%s: end <= %d <= array length %d by guard, start <= end since end = start + len(..)" % (fmt(a, 40), fmt(b, 60), u, n)
    return None


def _copy_same_len(body, s):
    """dst[a..a+len(S)].copy_from_slice(S): equal lengths by construction"""
    dst, src = _peel_refs(body.origin(s.ops[0])), _peel_refs(body.origin(s.ops[1]))
    if dst[0] != "call" or not re.search(r"::(index_mut|get_unchecked_mut|index)$", dst[1]) or len(dst[2]) != 2:
        return None
    ix = dst[2][1]
    if ix[0] == "agg" and ix[1][0] == "adt" and ix[1][1].endswith("::RangeTo") and len(ix[2]) == 1:
        S = _len_tree_of(ix[2][0])
        if S is not None and FX.strip_sites(S) == FX.strip_sites(src) and _pure_tree(S):
            return "destination is x[..len(src)]: lengths equal by construction"
    if not (ix[0] == "agg" and ix[1][0] == "adt" and ix[1][1].endswith("::Range") and len(ix[2]) == 2):
        return None
    a, b = ix[2]
    bb = strip_casts(b)
    if bb[0] == "field" and bb[2] == "0" and bb[1][0] == "bin":
        bb = ("bin", bb[1][1].replace("WithOverflow", ""), bb[1][2], bb[1][3])
    if bb[0] == "bin" and bb[1] in ("Add", "AddUnchecked") and _eq_mod_casts(bb[2], a):
        S = _len_tree_of(bb[3])
        if S is not None and FX.strip_sites(S) == FX.strip_sites(src):
            return "destination range is start..start+len(src): lengths equal by construction"
    return None


def _str_prefix_guard(body, s, base):
    """s[1..] on a str dominated by the true edge of s.starts_with(<one-byte char>): the string has
    at least one byte and byte offset 1 is a char boundary"""
    ix = body.origin(s.ops[1])
    if not (ix[0] == "agg" and ix[1][0] == "adt" and ix[1][1].endswith("::RangeFrom") and len(ix[2]) == 1
            and ix[2][0][0] == "lit" and ix[2][0][1] == 1):
        return None
    b = _peel_refs(base)
    for g, cond, pol in _cmp_guards(body, s.bb):
        c, p = cond, pol
        while c[0] == "un" and c[1] == "Not":
            c, p = c[2], not p
        if not p or c[0] != "call" or not re.search(r"<impl str>::starts_with$", c[1]) or len(c[2]) != 2:
            continue
        ch = c[2][1]
        if not (ch[0] == "lit" and isinstance(ch[1], int) and 0 <= ch[1] < 128):
            continue
        if FX.strip_sites(_peel_refs(c[2][0])) == FX.strip_sites(b) and _stable(b):
            return "guard starts_with(one-byte char %d) at bb%d implies len >= 1 and a char boundary at 1" % (ch[1], g)
        # loop-carried strings: compare the places instead of the (merged) value trees — the receiver of starts_with and
        # the indexed string are the same singly-defined local, whose definition dominates the guard, which dominates the site
        cb = c[5] if len(c) > 5 else None
        gc = [x for x in body.calls if x.bb == cb]
        if gc:
            r1, r2 = _root_local(body, gc[0].args[0]), _root_local(body, s.ops[0])
            if r1 is not None and r1 == r2:
                return "guard starts_with(one-byte char %d) at bb%d on the same string local _%d" % (ch[1], g, r1)
    return None


def _root_local(body, op, depth=6):
    """the singly-assigned local an operand refers to, looking through `&x`, `&*x`, moves and copies"""
    pl = op_place(op)
    for _ in range(depth):
        if pl is None:
            return None
        l, proj = pl[0], pl[1]
        if any(p != "*" for p in proj):
            return None
        ds = body.defs.get(l, ())
        if 1 <= l <= body.argc:
            return l if not ds else None
        if len(ds) != 1:
            return None
        d = ds[0]
        if d[0] == "assign" and not d[3] and d[4][0] in ("ref", "raw"):
            pl = d[4][2]
            continue
        if d[0] == "assign" and not d[3] and d[4][0] == "use":
            pl = op_place(d[4][1])
            continue
        return l
    return None


def _fresh_arrayvec_push(F, s):
    """push onto an ArrayVec that is freshly constructed (new/default) in this body: safe when the
    number of push sites on that same fresh vector is within the constant capacity and none of them
    lies on a CFG cycle (this is what the array_vec!/tiny_vec! macros expand to)."""
    body = s.body
    recv = _peel_refs(body.origin(s.ops[0]))
    if not (recv[0] == "call" and re.search(r"ArrayVec(::<A>|<A> as core::default::Default>)::(new|default)$", recv[1]) and not recv[2]):
        return None
    cap = None
    m = re.search(r"ArrayVec<\[.*; (\d+)\]>$", str(recv[4]) if len(recv) > 4 else "")
    if m:
        cap = int(m.group(1))
    if cap is None:
        return None
    sites = []
    for c in body.calls:
        if c.decl and c.decl.endswith("ArrayVec::<A>::push") and c.bb in body.live_blocks():
            r = _peel_refs(body.origin(c.args[0]))
            if r == recv:
                sites.append(c.bb)
    if not sites or len(sites) > cap:
        return None
    for b in sites:
        if b in body.reach(list(body.succ[b])):
            return None
    return "%d push site(s), none in a loop, onto a fresh ArrayVec of capacity %d" % (len(sites), cap)


EXTRA_DISCHARGERS = []     # callables (F, site, cfg) -> reason | None, installed by contract modules (enc.py)


def auto_discharge(F, s, cfg):
    """returns reason string or None"""
    for fn in EXTRA_DISCHARGERS:
        why = fn(F, s, cfg)
        if why:
            return why
    return _auto_discharge(F, s, cfg)


def lb_at(body, bb, t, depth=0):
    """constant lower bound of an unsigned value tree at a site: constants, sums/products, casts, guards on every path
    (incl. `x != 0`, `y < x`), and parity (`x.is_multiple_of(k)` on every path together with x >= 1 gives x >= k)"""
    if depth > 8 or not isinstance(t, tuple):
        return 0
    c = const_eval(t)
    if c is not None:
        return c
    g = guard_lb(body, bb, t) or 0
    k = t[0]
    v = 0
    if k == "cast" and len(t) >= 3:
        v = lb_at(body, bb, t[2], depth + 1)
    elif k == "field" and t[2] == "0" and t[1][0] == "bin" and t[1][1].endswith("WithOverflow"):
        v = lb_at(body, bb, ("bin", t[1][1].replace("WithOverflow", ""), t[1][2], t[1][3]), depth + 1)
    elif k == "bin":
        op = t[1].replace("Unchecked", "")
        if op == "Add":
            v = lb_at(body, bb, t[2], depth + 1) + lb_at(body, bb, t[3], depth + 1)
        elif op == "Mul":
            v = lb_at(body, bb, t[2], depth + 1) * lb_at(body, bb, t[3], depth + 1)
        elif op == "Div":
            d = const_eval(t[3])
            if d:
                v = lb_at(body, bb, t[2], depth + 1) // d
        elif op == "Sub":
            # a - b >= 1 when a guard on every path gives b < a; >= lb(a) - ub(b) otherwise
            if any(implies_lt(cond, pol, t[3], t[2]) for _, cond, pol in _cmp_guards(body, bb)):
                v = 1
            else:
                ub = tree_ub_at(body, bb, t[3])
                if ub is not None:
                    v = max(0, lb_at(body, bb, t[2], depth + 1) - ub)
        elif op == "Shl":
            v = 1 if lb_at(body, bb, t[2], depth + 1) >= 1 else 0      # overflow of the shift itself is a separate assert
    elif k == "phi":
        vs = [lb_at(body, bb, a, depth + 1) for a in t[1] if isinstance(a, tuple)]
        v = min(vs) if vs else 0
    best = max(g, v)
    if best >= 1 and _stable(t):
        for _, cond, pol in _cmp_guards(body, bb):
            c0, p0 = cond, pol
            while c0[0] == "un" and c0[1] == "Not":
                c0, p0 = c0[2], not p0
            if p0 and c0[0] == "call" and c0[1].endswith("::is_multiple_of") and len(c0[2]) == 2 and _eq_mod_casts(c0[2][0], t):
                kk = const_eval(c0[2][1])
                if kk and kk > best:
                    best = kk
    return best


def underflow_discharge(body, s):
    """a - b cannot underflow: constants, a guard a >= b on every path, or lower bound of a >= upper bound of b"""
    A, B = body.origin(s.ops[0]), body.origin(s.ops[1])
    ca, cb = const_eval(A), const_eval(B)
    if ca is not None and cb is not None:
        return "constants %d - %d" % (ca, cb) if ca >= cb else None
    for g, cond, pol in _cmp_guards(body, s.bb):
        if implies_le(cond, pol, B, A):
            return "guard %s (%s edge) at bb%d" % (fmt(cond, 80), pol, g)
    la = lb_at(body, s.bb, A)
    ub = tree_ub_at(body, s.bb, B)
    if ub is not None and la >= ub:
        return "minuend >= %d >= subtrahend (<= %d) on every path" % (la, ub)
    return None


def _contradictory_guards(body, site_bb):
    """the comparisons that hold on every path to the site are unsatisfiable for some stable value v
    (lower bound implied > upper bound implied): the site is unreachable.  e.g. `if n == 0 { return }` … `assert!(n > 0)`"""
    vals = []
    for g, cond, pol in _cmp_guards(body, site_bb):
        n = _norm_cmp(cond, pol)
        if not n:
            continue
        op, a, b = n
        for v, other in ((a, b), (b, a)):
            if const_eval(other) is not None and const_eval(v) is None and _stable(v):
                vals.append(v)
    seen = []
    for v in vals:
        if any(_eq_mod_casts(v, w) for w in seen):
            continue
        seen.append(v)
        lo, hi = guard_lb(body, site_bb, v), guard_ub(body, site_bb, v)
        if lo is not None and hi is not None and lo > hi:
            return "unreachable: guards on every path imply %s >= %d and <= %d" % (fmt(v, 60), lo, hi)
    # a value that is one of finitely many constants (phi of literals) against a guard excluding all of them
    for g, cond, pol in _cmp_guards(body, site_bb):
        n = _norm_cmp(cond, pol)
        if not n:
            continue
        op, a, b = n
        for v, other, flip in ((a, b, False), (b, a, True)):
            v0 = strip_casts(v)
            k = const_eval(other)
            if k is None or v0[0] != "phi":
                continue
            alts = [const_eval(x) for x in v0[1] if isinstance(x, tuple)]
            if not alts or any(x is None for x in alts):
                continue
            o = op if not flip else {"Lt": "Gt", "Le": "Ge", "Gt": "Lt", "Ge": "Le"}.get(op, op)
            sat = [x for x in alts if {"Lt": x < k, "Le": x <= k, "Gt": x > k, "Ge": x >= k, "Eq": x == k, "Ne": x != k}[o]]
            if not sat:
                return "unreachable: %s is one of %s, none of which satisfies %s %d" % (fmt(v0, 40), sorted(set(alts)), o, k)
    return None


def _auto_discharge(F, s, cfg):
    body = s.body
    if s.cls in ("explicit", "unwrap"):
        why = _contradictory_guards(body, s.bb)
        if why:
            return why
    if s.cls == "index" and s.kind == "BoundsCheck":
        ln, ix = body.origin(s.ops[0]), body.origin(s.ops[1])
        lnv = upper_bound(ln) if ln[0] in ("lit", "const") else None
        ub = upper_bound(ix)
        if lnv is not None and ub is not None and ub < lnv:
            triv = ix[0] in ("lit", "const")
            return ("const-index" if triv else "bounded-index(%s<%d)" % (fmt(ix, 60), lnv))
        for g, cond, pol in _cmp_guards(body, s.bb):
            if implies_lt(cond, pol, ix, ln):
                return "guard %s (%s edge) at bb%d" % (fmt(cond, 100), pol, g)
        if lnv is not None:
            u = place_ub_at(body, s.bb, s.ops[1])
            if u is not None and u < lnv:
                return "index <= %d < %d on every path (per-definition guards/arithmetic)" % (u, lnv)
        return None
    if s.cls == "div" and s.call is not None and s.call.decl.endswith("Iterator::step_by") and len(s.ops) == 2:
        st = const_eval(body.origin(s.ops[1]))
        if st is not None and st != 0:
            return "step_by with constant non-zero step %d" % st
        return None
    if s.cls == "unwrap":
        why = _first_split_item(body, s) or _array_try_into(body, s)
        if why:
            return why
        o = body.origin(s.ops[0])
        alts = o[1] if o[0] == "phi" else (o,)
        good = True
        for a in alts:
            if a[0] == "agg" and a[1][0] == "adt" and a[1][2] in ("Some", "Ok"):
                continue
            good = False
        if good and alts:
            return "value is Some/Ok on every path"
        return None
    if s.cls == "div":
        # cond of the Assert is  Eq(divisor, 0)  (expected false)
        cond = body.origin(body.term(s.bb)[1])
        d = None
        if cond[0] == "bin" and cond[1] == "Eq":
            d = cond[2] if not (cond[2][0] == "lit" and cond[2][1] == 0) else cond[3]
        if d is not None and d[0] in ("lit", "const") and isinstance(upper_bound(d), int) and upper_bound(d) != 0:
            return "constant non-zero divisor"
        if d is not None:
            lb = guard_lb(body, s.bb, strip_casts(d))
            if lb is not None and lb >= 1:
                return "dominating guard implies divisor >= %d" % lb
            s.sig = "%s(divisor %s)" % (s.kind, fmt(d, 120))
            s.toks = tokens(d)
            s.opsr = [fmt(d, 400)]
            s.optoks = [tokens(d)]
        return None
    if s.cls == "arith" and s.call is not None and s.call.decl.endswith("::from_str_radix") and len(s.ops) == 2:
        r = body.origin(s.ops[1])
        if r[0] in ("lit", "const") and isinstance(upper_bound(r), int) and 2 <= upper_bound(r) <= 36:
            return "constant radix %d within 2..=36" % upper_bound(r)
        return None
    if s.cls == "arith" and s.call is not None and re.search(r"::(div_ceil|next_multiple_of|div_euclid|rem_euclid)$", s.call.decl) \
            and len(s.ops) == 2 and re.search(r"<impl u(8|16|32|64|128|size)>", s.call.decl):
        # unsigned: the only panic is a zero divisor (div_ceil cannot overflow; next_multiple_of can, so it is excluded below)
        d = body.origin(s.ops[1])
        if not s.call.decl.endswith("next_multiple_of") and d[0] in ("lit", "const") and isinstance(upper_bound(d), int) and upper_bound(d) != 0:
            return "constant non-zero divisor %d" % upper_bound(d)
        return None
    if s.cls == "index" and s.call is not None and re.search(r"::(index|index_mut)$", s.call.decl) and len(s.ops) == 2:
        base = body.origin(s.ops[0])
        why = _bitrange_index(F, s, base) or _guarded_range_index(body, s, base) or _len_relative_range(body, s, base) \
            or _str_prefix_guard(body, s, base)
        if why:
            return why
        n = _ty_len(s.call.selfty) if s.call.selfty else None
        if n is None:
            n = const_len(base)
        why = _guarded_array_range(body, s, n)
        if why:
            return why
        rb = range_bounds(body.origin(s.ops[1]))
        if n is not None and rb is not None:
            if rb[0] == "range" and rb[1] is not None and rb[2] is not None and rb[1] <= rb[2] <= n:
                return "constant range %d..%d within length %d" % (rb[1], rb[2], n)
            if rb[0] == "from" and rb[1] is not None and rb[1] <= n:
                return "constant range %d.. within length %d" % (rb[1], n)
    if s.cls == "index" and s.call is not None and re.search(r"<impl \[T\]>::split_at(_mut)?$", s.call.decl) and len(s.ops) == 2:
        base, mid = body.origin(s.ops[0]), body.origin(s.ops[1])
        for g, cond, pol in _cmp_guards(body, s.bb):
            c, p = cond, pol
            while c[0] == "un" and c[1] == "Not":
                c, p = c[2], not p
            if c[0] != "bin":
                continue
            for ln in (c[2], c[3]):
                if _is_len_of(ln, base) and implies_le(c, p, mid, ln):
                    return "guard %s (%s edge) implies mid <= len" % (fmt(cond, 80), pol)
        return None
    if s.cls == "index" and s.call is not None and s.call.decl.endswith("<impl [T]>::as_chunks"):
        m = re.search(r"::as_chunks::<(\d+)>$", s.call.full or "")
        if m and int(m.group(1)) >= 1:
            return "as_chunks::<%s>: the only panic is N == 0" % m.group(1)
    if s.cls == "index" and s.call is not None and s.call.decl.endswith("ArrayVec::<A>::push"):
        why = _fresh_arrayvec_push(F, s)
        if why:
            return why
    if s.cls == "index" and s.call is not None and s.call.decl.endswith("::copy_from_slice") and len(s.ops) == 2:
        a, b = const_len(body.origin(s.ops[0])), const_len(body.origin(s.ops[1]))
        if a is not None and a == b:
            return "copy_from_slice with equal constant lengths %d" % a
        why = _copy_same_len(body, s)
        if why:
            return why
    if s.cls == "index" and s.call is not None and s.call.decl.endswith("::swap") and len(s.ops) == 3:
        n = const_len(body.origin(s.ops[0]))
        i, j = upper_bound(body.origin(s.ops[1])), upper_bound(body.origin(s.ops[2]))
        if n is not None and i is not None and j is not None and i < n and j < n:
            return "swap with constant indices within length %d" % n
    if s.cls == "index" and s.call is not None:
        # x[..] with RangeFull never panics
        for a in s.ops[1:]:
            o = body.origin(a)
            if o[0] == "agg" and o[1][0] == "adt" and o[1][1].endswith("::RangeFull"):
                return "RangeFull"
            if o[0] == "lit" and o[2] and str(o[2]).endswith("::RangeFull"):
                return "RangeFull"
        return None
    return None


# ---------------------------------------------------------------------------
# table


_table_cache = None


def load_table():
    global _table_cache
    if _table_cache is None:
        if os.path.exists(TABLE):
            with open(TABLE, "rb") as f:
                _table_cache = tomllib.load(f).get("site", [])
        else:
            _table_cache = []
    return _table_cache


def table_match(entry, s):
    if entry["fn"] != s.fn:
        if not (entry["fn"].endswith("*") and s.fn.startswith(entry["fn"][:-1])):
            return False
    if entry.get("class") and entry["class"] != s.cls:
        return False
    for tok in entry.get("site", []):
        if tok.startswith("kind:"):
            if tok[5:] != s.kind:
                return False
        elif tok.startswith("msg:"):
            if s.msg is None or tok[4:] not in s.msg:
                return False
        elif tok.startswith("sig:"):
            if tok[4:] not in s.sig:
                return False
        elif re.match(r"op\d:", tok):
            # constraint on one operand only: `opN:^prefix` (rendered operand starts with), `opN:fn:…`/`opN:field:…`
            # (token of that operand), else substring of the rendered operand
            n, want = int(tok[2]), tok[4:]
            if n >= len(s.opsr):
                return False
            if want.startswith("^"):
                if not s.opsr[n].startswith(want[1:]):
                    return False
            elif want.startswith(("fn:", "field:", "const:", "param:")):
                if not _tok_in(want, s.optoks[n]):
                    return False
            elif want not in s.opsr[n]:
                return False
        elif tok not in s.toks:
            return False
    return True


def verify_guard(F, s, entry):
    """a dominating branch whose condition contains all guard tokens must control the site"""
    body = s.body
    want = entry["guard"]
    found = []
    doms = body.dom.get(s.bb, set())
    for g in sorted(doms):
        t = body.term(g)
        if t[0] != "switch" or const_int(t[1]) is not None:
            continue
        o = body.origin(t[1])
        tk = tokens(o)
        if not all(_tok_in(w, tk) for w in want):
            continue
        # controls: some successor edge of g cannot reach the site
        cut_any = False
        for sx in body.succ[g]:
            succ = [list(x) for x in body.succ]
            succ[g] = [y for y in succ[g] if y != sx]
            if s.bb not in body.reach([0], succ=succ):
                pass
        others = [sx for sx in body.succ[g] if s.bb not in body.reach([sx], avoid=[g])]
        if others:
            found.append("bb%d: %s" % (g, fmt(o, 120)))
    if not found:
        # short-circuit conditions (`if a(x) && b(y) { return }`): the first test dominates the site but both of its
        # edges reach it; the second test, dominated by the first, has the avoiding edge
        heads = []
        for g0 in sorted(doms):
            t0 = body.term(g0)
            if t0[0] == "switch" and const_int(t0[1]) is None and all(_tok_in(w, tokens(body.origin(t0[1]))) for w in want):
                heads.append(g0)
        for g in sorted(body.live_blocks()):
            if g in doms or not heads:
                continue
            t = body.term(g)
            if t[0] != "switch" or const_int(t[1]) is not None:
                continue
            o = body.origin(t[1])
            if not all(_tok_in(w, tokens(o)) for w in want):
                continue
            if not any(body.dominates(h, g) for h in heads):
                continue
            if [sx for sx in body.succ[g] if s.bb not in body.reach([sx], avoid=[g])]:
                found.append("bb%d (short-circuit, after bb%s): %s" % (g, heads, fmt(o, 100)))
    # `guard_count = n`: at least n distinct dominating branches must match (e.g. one per range end)
    if len(found) >= int(entry.get("guard_count", 1)):
        return True, "; ".join(found[:3])
    return False, None


def verify_callers_guard(F, s, entry):
    """every non-test workspace call site of the function containing the site must be dominated by a
    branch whose condition contains all the named tokens and that has an edge avoiding the call"""
    want = entry["callers_guard"]
    sites = T.call_sites(F, s.fn)
    if not sites:
        return False, "no call sites found"
    for (p, c) in sites:
        body = F.body(p)
        found = False
        for g in sorted(body.dom.get(c.bb, set())):
            t = body.term(g)
            if t[0] != "switch" or const_int(t[1]) is not None:
                continue
            tk = tokens(body.origin(t[1]))
            if not all(_tok_in(w, tk) for w in want):
                continue
            if [sx for sx in body.succ[g] if c.bb not in body.reach([sx], avoid=[g])]:
                found = True
                break
        if not found:
            return False, "the call in %s (%s) is not behind such a branch" % (p, c.span.loc)
    return True, "%d call site(s)" % len(sites)


def _tok_in(w, tk):
    if w in tk:
        return True
    # allow suffix match on def paths:  fn:…::name
    if w.startswith(("fn:", "const:")) and w.split(":", 1)[1].startswith("…"):
        suf = w.split("…", 1)[1]
        pre = w.split(":", 1)[0] + ":"
        return any(x.startswith(pre) and x.endswith(suf) for x in tk)
    return False


# ---------------------------------------------------------------------------
# driver


def check_entries(F, R, pid, entries, cfg, stop=None, classes=None, label=None, underflow_armed=None):
    """PANIC verdict for an entry set; records obligations/violations in R."""
    missing = [e for e in entries if not F.has_body(e)]
    for m in missing:
        R.anchor_missing("PANIC entry %s" % m)
    entries = [e for e in entries if F.has_body(e)]
    parent = F.reachable_ctx(entries, stop=stop)
    fns = [f for f in parent if F.has_body(f) and not T.is_test_support(f)]
    table = load_table()
    used_entries = set()
    n_sites = 0
    by_class = {}
    undis = []
    for f in sorted(fns):
        R.fn(f)
        for s in enumerate_sites(F, f, cfg):
            if classes and s.cls not in classes:
                continue
            if s.cls == "overflow" and cfg != "dev":
                continue
            n_sites += 1
            by_class[s.cls] = by_class.get(s.cls, 0) + 1
            if s.cls == "overflow":
                # informational in this template (see DESIGN §4 PANIC), except subtraction underflow in functions the
                # property arms (`underflow_armed` regex): there the site must be discharged like any other
                if not (underflow_armed and "Sub" in str(s.kind) and re.search(underflow_armed, s.fn)):
                    continue
                why = underflow_discharge(s.body, s)
                by_class["underflow-armed"] = by_class.get("underflow-armed", 0) + 1
                if why:
                    R.ob("PANIC", s.key(), True, True, {"rule": "PANIC", "site": s.sig, "fn": s.fn, "loc": s.span.loc, "class": "underflow", "discharge": why})
                else:
                    R.ob("PANIC", s.key(), False, True)
                    undis.append(s)
                    R.violation("PANIC", s.key(), "subtraction `%s` in %s can underflow (panic in builds with overflow checks, wrap-around otherwise): "
                                "no guard on every path implies minuend >= subtrahend" % (s.sig, short(s.fn)), s.span.loc,
                                {"site": s.sig, "class": "underflow",
                                 "dominating_conditions": [fmt(c, 140) + (" [true]" if p else " [false]") for _, c, p in _cmp_guards(s.body, s.bb)][:8]})
                continue
            why = auto_discharge(F, s, cfg)
            if why:
                R.ob("PANIC", s.key(), True, nontrivial=not why.startswith("const-index"),
                     sample={"rule": "PANIC", "site": s.sig, "fn": s.fn, "loc": s.span.loc, "class": s.cls, "discharge": why})
                continue
            ent = None
            for i, e in enumerate(table):
                if table_match(e, s):
                    ent = (i, e)
                    break
            if ent is not None:
                i, e = ent
                used_entries.add(i)
                if "callers_guard" in e:
                    ok, where = verify_callers_guard(F, s, e)
                    if ok:
                        R.ob("PANIC", s.key(), True, True,
                             {"rule": "PANIC", "site": s.sig, "fn": s.fn, "loc": s.span.loc, "class": s.cls,
                              "discharge": "every call site of the enclosing function is behind a branch on %s: %s" % (e["callers_guard"], where)})
                    else:
                        R.ob("PANIC", s.key(), False, True)
                        R.violation("PANIC", s.key() + "/callers-guard-missing",
                                    "panic site %s in %s relies on its callers checking %s, but %s" % (s.sig, s.fn, e["callers_guard"], where),
                                    s.span.loc, {"site": s.sig, "expected_callers_guard": e["callers_guard"]})
                    continue
                if "guard" in e:
                    ok, where = verify_guard(F, s, e)
                    if ok:
                        R.ob("PANIC", s.key(), True, True,
                             {"rule": "PANIC", "site": s.sig, "fn": s.fn, "loc": s.span.loc, "class": s.cls,
                              "discharge": "table guard %s verified at %s" % (e["guard"], where)})
                    else:
                        R.ob("PANIC", s.key(), False, True)
                        R.violation("PANIC", s.key() + "/guard-missing",
                                    "panic site %s in %s lost its guard: no dominating branch on %s controls it (entry %s)"
                                    % (s.sig, s.fn, e["guard"], _entry_of(F, parent, f)), s.span.loc,
                                    {"call_path": F.call_path(parent, f), "site": s.sig, "expected_guard": e["guard"]})
                else:
                    inv = e.get("invariant")
                    if inv:
                        # a reviewed entry backed by a named invariant that is re-verified on the current tree
                        iok, iwhy = check_invariant(F, inv)
                        if not iok:
                            R.ob("PANIC", s.key(), False, True)
                            R.violation("PANIC", s.key() + "/invariant-" + inv,
                                        "panic site %s in %s relies on the invariant `%s`, which does not hold on this tree: %s"
                                        % (s.sig, s.fn, inv, iwhy), s.span.loc, {"site": s.sig, "invariant": inv, "why": iwhy})
                            continue
                    R.ob("PANIC", s.key(), True, True,
                         {"rule": "PANIC", "site": s.sig, "fn": s.fn, "loc": s.span.loc, "class": s.cls,
                          "discharge": ("invariant %s verified; " % inv if inv else "reviewed invariant: ") + e.get("reviewed", "")})
                    R.reviewed.append({"fn": s.fn, "site": s.sig, "reason": e.get("reviewed", ""), "invariant_verified": inv})
                continue
            R.ob("PANIC", s.key(), False, True)
            undis.append(s)
            R.violation("PANIC", s.key(),
                        "undischarged %s panic site `%s` reachable from entry %s"
                        % (s.cls, s.sig, _entry_of(F, parent, f)), s.span.loc,
                        {"call_path": F.call_path(parent, f), "site": s.sig, "class": s.cls, "msg": s.msg,
                         "dominating_conditions": [fmt(c, 140) + (" [true]" if p else " [false]") for _, c, p in _cmp_guards(s.body, s.bb)][:8]})
    R.extra.setdefault("panic", {})[label or "default"] = {
        "entries": len(entries), "reachable_functions": len(fns), "sites": n_sites, "by_class": by_class,
        "table_entries_used": len(used_entries)}
    return undis


# ---- named invariants behind reviewed table entries (entry key `invariant = "<name>"`)
INVARIANT_CHECKS = {}
_inv_memo = {}


def invariant(name):
    def deco(fn):
        INVARIANT_CHECKS[name] = fn
        return fn
    return deco


def check_invariant(F, name):
    key = (id(F), name)
    if key not in _inv_memo and name.startswith("no-callers:"):
        _inv_memo[key] = _no_callers(F, name[len("no-callers:"):])
    if key not in _inv_memo:
        if name not in INVARIANT_CHECKS:
            import brc  # noqa: F401  (registers the contract invariants of the core helpers)
        fn = INVARIANT_CHECKS.get(name)
        _inv_memo[key] = fn(F) if fn else (False, "no checker registered for invariant %s" % name)
    return _inv_memo[key]


_allfacts = {}


def _no_callers(F, fn):
    """an `unsafe fn` whose debug_assert!s restate its documented precondition has no caller in the whole workspace outside
    tests (all crates of the fact base are loaded for this, not only the property's)"""
    d = F.dir
    if d not in _allfacts:
        _allfacts[d] = FX.Facts(d, None)
    A = _allfacts[d]
    e = A.fns.get(fn)
    if e is None:
        return False, "function %s not found" % fn
    if not e.get("unsafe"):
        return False, "%s is not an unsafe fn: its precondition is not the caller's obligation" % short(fn)
    callers = [(p, c) for p, c in A.callers_of(lambda n: n == fn) if not T.is_test_support(p)]
    if callers:
        return False, "%s is called from %s at %s" % (short(fn), short(callers[0][0]), callers[0][1].span.loc)
    return True, "unsafe fn with a documented precondition and no workspace caller outside tests"


SEGITER_NEW = "sciparse::proto::dataplane_path::standard::view::SegmentIterator::<'_>::new"


@invariant("segiter-leading-nonzero")
def _inv_segiter(F):
    """SegmentIterator::new sets total_segments to the length of the *leading run of non-zero* segment lengths, so that
    next() — which yields segment i for i < total_segments with segment_lengths[i] hop fields — never yields an empty
    segment.  Accepted idioms: (a) counting loop over the segment lengths that leaves the loop on `len == 0` before the
    increment; (b) iter().take_while(|l| l != 0).count() / position(|l| l == 0)."""
    cands = [p for p in F.fns if re.search(r"view::SegmentIterator(::<[^>]*>)?::new$", p) and F.has_body(p)]
    if len(cands) != 1:
        return False, "SegmentIterator::new not found (%d candidates)" % len(cands)
    b = F.body(cands[0])
    ro = b.local_origin(0)
    aggs = [n for n in walk(ro) if n[0] == "agg" and n[1][0] == "adt" and n[1][1].endswith("::SegmentIterator")]
    if not aggs:
        return False, "constructor aggregate not found"
    adt = F.adts.get(aggs[0][1][1])
    names = [f[0] for f in adt["variants"][0][2]] if adt else []
    if "total_segments" not in names:
        return False, "field total_segments not found"
    ts = strip_casts(strip_sites(aggs[0][2][names.index("total_segments")]))
    # (b) iterator idioms
    if ts[0] == "call" and ts[1].endswith("::count") and any(n[0] == "call" and n[1].endswith("::take_while") for n in walk(ts)):
        cl = [n[1][1] for n in walk(ts) if n[0] == "agg" and isinstance(n[1], tuple) and len(n[1]) > 1 and "{closure#" in str(n[1][1])]
        for q in cl:
            qo = strip_sites(F.body(q).local_origin(0)) if F.has_body(q) else ("top",)
            if qo[0] == "bin" and qo[1] == "Ne" and const_eval(strip_casts(qo[3])) == 0:
                return True, "take_while(len != 0).count()"
        return False, "take_while predicate is not `len != 0`"
    # (a) counting loop: total = phi(0, loop + 1) and the increment is only reachable through the false edge of `len == 0`
    alts = list(ts[1]) if ts[0] == "phi" else [ts]
    alts = [strip_casts(a) for a in alts if isinstance(a, tuple)]
    def is_inc(a):
        if a[0] == "field" and a[2] == "0" and a[1][0] == "bin":
            a = ("bin", a[1][1].replace("WithOverflow", ""), a[1][2], a[1][3])
        return a[0] == "bin" and a[1].startswith("Add") and const_eval(a[3]) == 1 and any(n[0] == "loop" for n in walk(a[2]))
    if not (any(const_eval(a) == 0 for a in alts) and any(is_inc(a) for a in alts) and len(alts) == 2):
        return False, "total_segments is not a count starting at 0 and incremented by 1: %s" % fmt(ts, 120)
    # find the increment statement block(s) and require a dominating guard `elem != 0` with elem from the segment-length array iteration
    inc_bbs = []
    for bb in sorted(b.live_blocks()):
        for st in b.stmts(bb):
            if st[0] == "=" and st[2][0] == "bin" and st[2][1].startswith("Add") and const_int(st[2][3]) == 1:
                o = b.origin(st[2][2])
                inc_bbs.append(bb)
    inc_bbs = [bb for bb in inc_bbs]
    if not inc_bbs:
        return False, "increment statement not found"
    for bb in inc_bbs:
        good = False
        for g, cond, pol in _cmp_guards(b, bb):
            nn = _norm_cmp(cond, pol)
            if not nn:
                continue
            op, x, y = nn
            if op == "Ne" and const_eval(strip_casts(strip_sites(y))) == 0 and any(n[0] == "call" and n[1].endswith("Iterator>::next") for n in walk(x)):
                good = True
        if good:
            return True, "counting loop guarded by `len != 0` (break at the first zero length)"
    return False, "the count is incremented without a dominating `len != 0` test on the iterated segment length (zero-length segments are counted)"


def _entry_of(F, parent, f):
    p = F.call_path(parent, f)
    return p[0] if p else f
