"""BRC — contracts of the BitRange helpers and of the unchecked accessors, as named invariants.

The dev configuration compiles the debug_assert!s of sciparse::core::{layout,read,write,view}; each of them states a
contract that release builds rely on silently.  Instead of reviewing those asserts once, each is tied to an invariant that is
re-decided on the current tree at *every call site* of the asserting function:

  br-aligned     BitRange::aligned_byte_range(r): r.start and r.end are multiples of 8 — the range argument is evaluated
                 by interval interpretation with a power-of-two congruence component (constants, layout constructors and
                 range helpers through their MIR, `shift`, `* 8`, saturating_sub, min …) at all call sites
  br-sizebits    BitRange::size_bits(r): r.end >= r.start — every call site either passes a statically known range, or
                 passes on its own parameter, whose call sites are then checked the same way (depth 2)
  acc-contract   unchecked_bit_range_be_read/write: width <= 16 bytes and end within the buffer at all call sites (ACC)
  hrs            View::try_from_*: has_required_size(buf) <= buf.len() for every View impl (HRS)
"""
import re

import facts as FX
import panic as PN
import templates as T
import interval as IV
import acc as ACC
import enc as ENC  # noqa: F401  (registers the ret-rs invariant)
from absint import Agg
from facts import fmt, short, strip_sites

ABR = "sciparse::core::layout::BitRange::aligned_byte_range"
SZB = "sciparse::core::layout::BitRange::size_bits"


def _range_value(F, b, op):
    r = b.origin(op)
    st = ACC.static_range(F, PN._peel_refs(strip_sites(r)))
    if st is not None:
        return Agg("sciparse::core::layout::BitRange", "BitRange", 0, [IV.iv(st[0]), IV.iv(st[1])], ["start", "end"]), True
    return IV.eval_tree(F, r), False


def aligned_sites(F):
    """[(fn, loc, ok, detail)] for every call of aligned_byte_range outside tests"""
    out = []
    for p in F.all_body_paths("sciparse"):
        if T.is_test_support(p):
            continue
        b = F.body(p)
        for c in b.calls:
            if c.indirect or c.decl != ABR or c.bb not in b.live_blocks():
                continue
            v, static = _range_value(F, b, c.args[0])
            ok = isinstance(v, Agg) and len(v.fields) == 2 and all(IV.is_iv(x) and IV.stride(x) % 8 == 0 for x in v.fields)
            out.append((p, c.span.loc, ok, "static" if static else fmt(strip_sites(b.origin(c.args[0])), 100), v))
    return out


@PN.invariant("br-aligned")
def inv_aligned(F):
    sites = aligned_sites(F)
    bad = [s for s in sites if not s[2]]
    if len(sites) < 40:
        return False, "only %d call sites of aligned_byte_range found (48 counted on 8f07ce4)" % len(sites)
    if bad:
        return False, "; ".join("%s at %s passes a range not proven byte-aligned (%s)" % (short(p), loc, d) for p, loc, ok, d, v in bad[:3])
    return True, "%d call sites, all ranges multiples of 8 bits" % len(sites)


def _sizebits_ok(F, fn, c, depth=2):
    b = F.body(fn)
    r = strip_sites(b.origin(c.args[0]))
    st = ACC.static_range(F, PN._peel_refs(r))
    if st is not None:
        return st[1] >= st[0], "static %s" % (st,)
    base = PN._peel_refs(r)
    if base[0] == "param" and depth > 0:
        callers = [(p, cc) for p, cc in F.callers_of(lambda n, fn=fn: n == fn) if not T.is_test_support(p)]
        if not callers:
            return False, "%s passes on its parameter and has no caller" % short(fn)
        for p, cc in callers:
            if len(cc.args) < base[1]:
                return False, "arity"
            ok, why = _sizebits_ok_arg(F, p, cc.args[base[1] - 1], depth - 1, cc.bb)
            if not ok:
                return False, "%s <- %s: %s" % (short(fn), short(p), why)
        return True, "%d caller(s) of %s pass well-formed ranges" % (len(callers), short(fn))
    # dev builds: a dominating overflow-checked `r.end - r.start` (its assert passes only when end >= start)
    bb_site = getattr(c, "bb", None)
    if bb_site is not None:
        R0 = FX.cut(ACC._nr(b.origin(c.args[0])), 9)
        for g in b.dom.get(bb_site, ()):
            t = b.term(g)
            if t[0] != "assert":
                continue
            o = b.origin(t[1])
            while o[0] == "un":
                o = o[2]
            if o[0] == "field" and o[2] == "1" and o[1][0] == "bin" and o[1][1] == "SubWithOverflow":
                x, y = o[1][2], o[1][3]
                if x[0] == "field" and x[2] == "end" and y[0] == "field" and y[2] == "start" \
                        and FX.cut(ACC._nr(x[1]), 9) == R0 and FX.cut(ACC._nr(y[1]), 9) == R0:
                    return True, "dominating overflow-checked end - start"
    v = IV.eval_tree(F, b.origin(c.args[0]))
    if isinstance(v, Agg) and len(v.fields) == 2 and all(IV.is_iv(x) for x in v.fields) and v.fields[1][1] >= v.fields[0][2]:
        return True, "interval end.lo >= start.hi"
    return False, "range %s not proven end >= start" % fmt(r, 80)


def _sizebits_ok_arg(F, fn, op, depth, bb=None):
    class _C:
        pass
    c = _C()
    c.args = [op]
    c.bb = bb
    return _sizebits_ok(F, fn, c, depth)


@PN.invariant("br-sizebits")
def inv_sizebits(F):
    n = 0
    for p in F.all_body_paths("sciparse"):
        if T.is_test_support(p):
            continue
        b = F.body(p)
        for c in b.calls:
            if c.indirect or c.decl != SZB or c.bb not in b.live_blocks():
                continue
            n += 1
            ok, why = _sizebits_ok(F, p, c)
            if not ok:
                return False, "size_bits called in %s at %s: %s" % (short(p), c.span.loc, why)
    if n < 3:
        return False, "only %d call sites of size_bits found" % n
    return True, "%d call sites (through %s)" % (n, "parameters of read/write/max_uint to their static call sites")


@PN.invariant("acc-contract")
def inv_acc(F):
    import common
    import c02
    R = common.Report("ACC", "inv", "")
    vts = c02.view_types(F)
    fns = c02.view_fns(F, vts)
    M = c02.accessor_rule(F, R, vts, fns)
    R2 = common.Report("ACC", "inv", "")
    ACC.run(F, R2, M, "view", 160)
    ACC.run(F, R2, M, "enc", 88)
    if R2.violations:
        return False, "; ".join(v["msg"][:160] for v in R2.violations[:2])
    return True, "ACC: %d obligations hold" % R2.obligations


@PN.invariant("hrs")
def inv_hrs(F):
    import common
    import c02
    R = common.Report("HRS", "inv", "")
    vts = c02.view_types(F)
    c02.VTS.clear()
    c02.VTS.update(vts)
    c02.hrs_rule(F, R, vts)
    if R.violations:
        return False, "; ".join(v["msg"][:160] for v in R.violations[:2])
    return True, "HRS: %d View impls" % len(vts)


@PN.invariant("hdr-version-checked")
def inv_version(F):
    """a successfully constructed SCION header view has version 0: ScionHeaderLayout::try_from_slice rejects every other
    version on every accepting path, and no safe function writes the version field of a view"""
    HL = "sciparse::proto::header::layout::ScionHeaderLayout::try_from_slice"
    hb = F.body(HL)
    if hb is None:
        return False, "anchor missing: %s" % HL
    oks = [bb for (bb, idx, adt, var) in T.result_variant_defs(hb) if var == "Ok"]
    if not oks:
        return False, "no Ok exit in %s" % short(HL)
    for ok in oks:
        good = False
        for g, cond, pol in PN._cmp_guards(hb, ok):
            nn = PN._norm_cmp(cond, pol)
            if nn and nn[0] == "Eq":
                for x, y in ((nn[1], nn[2]), (nn[2], nn[1])):
                    if PN.const_eval(PN.strip_casts(strip_sites(y))) == 0 and any(t.startswith("fn:") and t.endswith("::version") for t in FX.tokens(x)):
                        good = True
        if not good:
            return False, "an Ok exit of %s is not behind `version() == 0`" % short(HL)
    writers = []
    for p in F.all_body_paths("sciparse"):
        if T.is_test_support(p):
            continue
        b = F.body(p)
        e = F.fns.get(p, {})
        for c in b.calls:
            if c.indirect or c.decl != ACC.WRITE or c.bb not in b.live_blocks():
                continue
            r = strip_sites(b.origin(c.args[1]))
            if "VERSION_RNG" in fmt(r, 200) and not e.get("unsafe") and "encode_unchecked" not in p:
                writers.append(p)
    if writers:
        return False, "safe fn %s writes the version field" % short(writers[0])
    return True, "version checked at construction; no safe writer of the version field"
