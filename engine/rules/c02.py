"""C02 — parsing untrusted bytes is total and memory-safe."""
import re

import templates as T
import panic as PN
import facts as FX
import enc as ENC
import absint as AI
import interval as IV
import acc as ACC
import symb as SY
from facts import tokens, fmt, short, walk, strip_sites, op_place, const_int

# thorough tier: release configuration only — the dev-configuration pass reports the debug_assert! contract checks of the
# core helpers (unchecked read/write, BitRange alignment, View::try_from_*), which are reachable panic sites whose discharge is
# the call-site contract work listed in DESIGN.md 13.7; an untriaged pass is not registered
CRATES = ["sciparse"]
EXPLANATION = (
    "The unsafe discipline that makes the view invariant — 'the buffer is at least as long as the size computed from the "
    "size-determining fields at construction' — impossible to break from safe code, decided on rustc MIR over all 20 view "
    "types (discovered from `impl View`). (UNS-const) for every view type the minimum length for which has_required_size can "
    "return Ok is computed from the `len(buf) < C` guards and the delegation chain (Layout::try_from, split_off_checked, "
    "nested has_required_size); every unchecked bit-range read/write of a view method with a constant range must end within "
    "that length (146 sites). (UNS-taint) computed ranges may only depend on the view itself, never on a caller-supplied value "
    "without a guard. (DISPATCH) for every SCMP message type the layout ScmpMessageLayout::try_from_slice validates guarantees at "
    "least the bytes that the typed view ScmpPayloadView::message()/message_mut() hand out for that type relies on (two "
    "decision tables extracted from the switch structure). (PAYLOAD-TRUNC, TYPED) the payload slice of a packet view is "
    "self.1[h .. h + min(payload_len, len - h)]; typed UDP/SCMP packet views validate their L4 header on payload() of the raw "
    "view over the same bytes, and their accessors re-derive the same L4 view from self.payload(). (SZ) every field whose value "
    "decides — by data or by control — the size a view is validated for (HEADER_LEN, PAYLOAD_LEN, PATH_TYPE, DST/SRC_ADDR_INFO, "
    "SEG0/1/2_LEN, UDP LENGTH, SCMP TYPE; computed from the has_required_size call graphs) is written only by `unsafe fn`s. "
    "(ESC-sib) sibling typed views agree on the safety qualifier of as_raw_mut. (REPR) every view type is repr(transparent) over "
    "[u8] / [u8; N]. (PANIC) no undischarged panic site reachable from any constructor or any function with a view receiver "
    "(627 functions), with a view-invariant discharge for ranges derived from the view's own layout. "
    "(ACC) the contract of unchecked_bit_range_be_read/write — range spans <= 16 bytes and ends within a lower bound of the "
    "buffer operand's length — decided at all 172 call sites outside the encoders (constant and shifted ranges evaluated "
    "statically; bounds from min_valid_len, array-backed views, caller-derived parameters, dominating guards with computed "
    "bounds by interval interpretation). (HRS) for each of the 20 View impls has_required_size(buf) = Ok(size) implies "
    "size <= buf.len() — View::try_from_slice splits with split_at_unchecked(size) — by constant/len/min/guard arguments on a "
    "symbolic normal form (layout functions inlined), through layout constructors and enum layouts. (CTOR-unsafe) all 63 "
    "from_*_unchecked constructors are unsafe fns and every view struct keeps its bytes private. (SUBVIEW) the 8 "
    "self.0.get_unchecked(range) sub-slices of StandardPathView (info/hop field(s), shared and mut) lie within the validated "
    "size, by linear-form interpretation: SIZE = 4 + 8*[seg_i>0] + 12*seg_i from has_required_size, range ends from the "
    "accessors, compared under the path conditions (idx < count). Thorough tier: the dev "
    "configuration's debug_assert! contracts of core::{layout,read,write,view} are tied to invariants re-decided at every call "
    "site (br-aligned, br-sizebits, acc-contract, hrs); 8 compile-fail witnesses (with compiling twins) make rustc itself "
    "reject safe-code use of the unchecked constructors, size-field writers, raw mutable escape and unchecked encoder."
)
EXPLANATION_ADD5 = " Round-5 addition: (EXACT) every View::from_*_unchecked call in the View trait's safe default methods receives a buffer of exactly has_required_size(buf) bytes: the first half of split_at[_mut]_unchecked(buf, SIZE), or the whole buffer on the pass edge of a switch on len(buf) ==/!= SIZE (try_from_boxed), or a copy of self.as_slice() (to_boxed) — the premise of SUBVIEW/HRS and of the fixed-size from_boxed_unchecked impls."
EXPLANATION = EXPLANATION + EXPLANATION_ADD5
RESIDUAL = [
    "numeric correctness of layout arithmetic that does not end in a get_unchecked on the view's own buffer (e.g. ranges handed to safe slicing, which panic rather than read out of bounds: PANIC rule)",
    "the remaining unsafe primitives outside view methods (get_unchecked in layout code; the *arguments* of from_*_unchecked sub-view creation inside accessors): enumerated in the evidence, not individually discharged",
    "termination (all loops in scope are iterator-driven: listed, not proved)",
]
ASSUMPTIONS = ["unchecked_bit_range_be_read/write access exactly the bytes containing the given bit range (their 16-byte lane indexing is covered by the LANE rule of C12)",
               "encode paths are covered by the ENC contract of C03"]
TECHNIQUE = "unsafe-discipline rules over the view types (size-field writers, unchecked accesses within the validated layout, mutable escapes), interval/congruence abstract interpretation of size arithmetic, symbolic size comparison, dispatch-table agreement, panic-site reachability, compile-fail witnesses (thorough)"

VIEW_TRAIT = "sciparse::core::view::View"


def view_types(F):
    """self types with an `impl View`"""
    out = {}
    for p, e in F.fns.items():
        if e.get("trait_item") == VIEW_TRAIT + "::has_required_size" and not T.is_test_support(p):
            out[e.get("self_ty")] = p
    return out


def view_fns(F, vts):
    """all non-test fns whose receiver is a view type (inherent or trait methods), plus the View trait defaults"""
    out = []
    for p, e in F.fns.items():
        if e["_crate"] != "sciparse" or T.is_test_support(p) or e["kind"] not in ("Fn", "AssocFn"):
            continue
        st = e.get("self_ty") or ""
        ins = e.get("inputs") or []
        recv = ins[0] if ins else ""
        rt = re.sub(r"^&(mut )?|^alloc::boxed::Box<|>$", "", recv)
        if st in vts or rt in vts:
            out.append(p)
    out += [p for p in F.fns if p.startswith(VIEW_TRAIT + "::") and F.has_body(p)]
    return sorted(set(out))


READ = "sciparse::core::read::unchecked_bit_range_be_read"
WRITE = "sciparse::core::write::unchecked_bit_range_be_write"
_mv_memo = {}
VTS = {}


_probe_other_side = IV.probe_operand_lb


def min_valid_len(F, fn, param=1, depth=12):
    """a lower bound on len(buf) on every path on which `fn` (has_required_size / try_from / try_from_slice …) returns
    Ok: from `len(buf) < C -> Err` guards that every Ok exit passes, and from callees receiving the same buffer whose
    success edge every Ok exit passes"""
    key = (id(F), fn, param)
    if key in _mv_memo:
        return _mv_memo[key]
    _mv_memo[key] = 0
    b = F.body(fn)
    if b is None or depth < 0:
        return 0
    oks = [bb for (bb, idx, adt, var) in T.result_variant_defs(b) if var == "Ok"]
    tail = [d for d in b.defs.get(0, ()) if d[0] == "call"]
    ln = ("len", ("param", param))
    best = 0
    if oks:
        lbs = []
        for ok in oks:
            lb = 0
            for g, cond, pol in PN._cmp_guards(b, ok):
                n = PN._norm_cmp(cond, pol)
                if not n:
                    continue
                op, a, c = n
                ca, cc = PN._canon_len(strip_sites(PN.strip_casts(a))), PN._canon_len(strip_sites(PN.strip_casts(c)))
                va, vc = PN.const_eval(a), PN.const_eval(c)
                if ca == ln and vc is not None:
                    lb = max(lb, {"Ge": vc, "Gt": vc + 1, "Eq": vc}.get(op, 0))
                elif cc == ln and va is not None:
                    lb = max(lb, {"Le": va, "Lt": va + 1, "Eq": va}.get(op, 0))
                elif (ca == ln and op in ("Ge", "Gt", "Eq")) or (cc == ln and op in ("Le", "Lt", "Eq")):
                    # len(buf) >= T with a computed T: lower bound of T over all paths reaching the comparison,
                    # by interval interpretation of this function (IV probes)
                    v = _probe_other_side(F, fn, b, g, 1 if ca == ln else 0)
                    if v:
                        lb = max(lb, v + (1 if op in ("Gt", "Lt") else 0))
            lbs.append(lb)
        best = min(lbs)
    # delegation
    for c in b.calls:
        if c.indirect:
            continue
        for i, a in enumerate(c.args):
            if PN._peel_refs(strip_sites(b.origin(a))) != ("param", param):
                continue
            tgt = c.res if (c.res and F.has_body(c.res)) else None
            fixed = None
            if c.decl.endswith("Layout::split_off_checked") or c.decl.endswith("Layout::split_off_mut_checked"):
                # Layout::split_off_checked(&L, buf) is Some only when buf.len() >= L.size_bytes(): evaluate it for unit layouts
                lay = c.selfty
                szs = [x for x in F.trait_impls.get("sciparse::core::layout::Layout::size_bytes", ()) if (F.fns[x].get("self_ty") or "") == lay]
                if lay and szs and i == 1:
                    v = AI.eval_fn(F, szs[0], [AI.Agg(lay, lay.split("::")[-1], 0, [], None)])
                    fixed = v if isinstance(v, int) else None
                tgt = None
            elif c.decl.startswith(VIEW_TRAIT + "::try_from_") and c.selfty in VTS:
                tgt = VTS[c.selfty]        # the default method validates through Self::has_required_size
                i = 0
            if tgt is None and fixed is None:
                cands = [x for x in F.callees_of_call(c) if F.has_body(x)]
                tgt = cands[0] if len(cands) == 1 else None
            if (tgt is None and fixed is None) or tgt == fn:
                continue
            # the callee's success must be needed for our success
            needed = False
            if oks:
                def pred(tk, o, g, bbc=c.bb):
                    return o[0] == "disc" and any(n[0] == "call" and len(n) > 5 and n[5] == bbc for n in walk(o))
                needed = all(T.guarded_by(b, ok, pred, [0])[0] for ok in oks)
            elif not oks and any(n[0] == "call" and len(n) > 5 and n[5] == c.bb for n in walk(b.local_origin(0))):
                # no Ok built here: the result is the callee's, possibly through map_err / map / Into::into wrappers
                wrappers = [n[1] for n in walk(b.local_origin(0)) if n[0] == "call"]
                needed = all(re.search(r"::(map_err|map|into|from|branch|from_residual)$", w) or w == (c.res or c.decl) or w == c.decl for w in wrappers)
            if needed:
                best = max(best, fixed if fixed is not None else min_valid_len(F, tgt, i + 1, depth - 1))
    _mv_memo[key] = best
    return best


def accessor_rule(F, R, vts, fns):
    """UNS-const / UNS-taint over the unchecked bit-range accesses of view methods"""
    n_const = n_dyn = 0
    M = {}
    VTS.clear()
    VTS.update(vts)
    _mv_memo.clear()
    for v, h in vts.items():
        M[v] = min_valid_len(F, h)
    R.extra["min_validated_len"] = {v.split("::")[-1]: m for v, m in sorted(M.items())}
    for p in fns:
        e = F.fns[p]
        ins = e.get("inputs") or []
        recv = re.sub(r"^&(mut )?|^alloc::boxed::Box<|>$", "", ins[0]) if ins else ""
        v = recv if recv in vts else (e.get("self_ty") if e.get("self_ty") in vts else None)
        if v is None or not ins or not ins[0].startswith("&"):
            continue
        b = F.body(p)
        if b is None:
            continue
        for c in b.calls:
            if c.indirect or c.decl not in (READ, WRITE) or c.bb not in b.live_blocks():
                continue
            buf = strip_sites(PN._peel_refs(b.origin(c.args[0])))
            if buf != ("field", ("deref", ("param", 1)), "0"):
                continue        # a sub-slice or another buffer: covered by the taint rule below
            r = b.origin(c.args[1])
            br = PN._const_bitrange(F, r)
            if br is not None:
                n_const += 1
                end = -(-br[1] // 8)
                ok = end <= M[v]
                R.ob("UNS-const", "%s: bytes ..%d of self.0 (validated >= %d)" % (short(p), end, M[v]), ok, ok is False or n_const % 23 == 0,
                     {"rule": "UNS-const", "fn": p, "loc": c.span.loc, "range_bits": br, "view_min_len": M[v], "holds": ok} if (not ok or n_const % 23 == 0) else None)
                if not ok:
                    R.violation("UNS-const", "%s/%s" % (p, fmt(strip_sites(r), 60)), "%s accesses bits %s of the view's buffer without a check, but constructing a %s only "
                                "validates %d bytes: out-of-bounds read/write on a successfully constructed view" % (short(p), br, v.split("::")[-1], M[v]), c.span.loc)
            else:
                n_dyn += 1
                tk = tokens(r)
                tainted = [t for t in tk if t.startswith("param:") and t != "param:1"]
                guarded = False
                if tainted:
                    for g, cond, pol in PN._cmp_guards(b, c.bb):
                        if any(t in tokens(cond) for t in tainted):
                            guarded = True
                ok = (not tainted or guarded) and "top" not in tk
                R.ob("UNS-taint", "%s: computed range %s" % (short(p), fmt(r, 60)), ok, True,
                     {"rule": "UNS-taint", "fn": p, "loc": c.span.loc, "range": fmt(r, 120), "holds": ok} if not ok or n_dyn % 7 == 0 else None)
                if not ok:
                    R.violation("UNS-taint", "%s/%s" % (p, fmt(strip_sites(r), 60)), "a caller-supplied value reaches an unchecked bit-range access without a guard: %s" % fmt(r, 100), c.span.loc)
    R.floor("UNS-const", n_const, 120, "unchecked bit-range accesses of view methods with a constant range")
    R.extra["uns"] = {"const_range_sites": n_const, "computed_range_sites": n_dyn}
    return M


def _first_call_from(b, start, pred, limit=12):
    cur = start
    for _ in range(limit):
        cs = [c for c in b.calls if c.bb == cur and not c.indirect]
        if cs and pred(cs[0]):
            return cs[0]
        t = b.term(cur)
        if t[0] in ("goto", "falseedge", "falseunwind"):
            cur = t[1]
        elif t[0] == "drop":
            cur = t[2]
        elif t[0] == "call" and t[4] is not None:
            cur = t[4]
        else:
            return None
    return None


def dispatch_rule(F, R, vts, M):
    """DISPATCH: ScmpPayloadView is size-validated through ScmpMessageLayout::try_from_slice, which picks a layout per
    message type; ScmpPayloadView::message()/message_mut() pick a view type per message type and create it with
    from_slice_unchecked.  For every type value the layout that was validated must guarantee at least the bytes the view
    type's own accessors rely on."""
    LT = "sciparse::proto::payload::scmp::layout::ScmpMessageLayout::try_from_slice"
    lb = F.body(LT)
    if lb is None:
        R.anchor_missing(LT)
        return
    R.fn(LT)
    lay_of = {}
    for g in sorted(lb.live_blocks()):
        t = lb.term(g)
        if t[0] == "switch" and len(t[2]) >= 5:
            for v, tg in t[2]:
                c = _first_call_from(lb, tg, lambda c: c.decl.endswith("TryInto::try_into") or c.decl.endswith("::try_from_slice") or c.decl.endswith("TryFrom::try_from"))
                if c is not None:
                    ty = (c.ga or [None, None])[1] if c.decl.endswith("try_into") else c.selfty
                    lay_of[v] = ty
    views = [p for p in F.fns if re.search(r"ScmpPayloadView::message(_mut)?$", p)]
    R.floor("DISPATCH", len(views), 2, "ScmpPayloadView::message / message_mut")
    layout_min = {}
    n = 0
    for p in views:
        b = F.body(p)
        R.fn(p)
        for g in sorted(b.live_blocks()):
            t = b.term(g)
            if t[0] == "switch" and len(t[2]) >= 5:
                for v, tg in t[2]:
                    c = _first_call_from(b, tg, lambda c: c.decl.endswith("_slice_unchecked"))
                    if c is None:
                        continue
                    n += 1
                    vt = (c.ga or [None])[0]
                    need = M.get(vt)
                    lay = lay_of.get(v)
                    have = None
                    if lay:
                        if lay not in layout_min:
                            tf = lay + "::try_from_slice"
                            layout_min[lay] = min_valid_len(F, tf) if F.has_body(tf) else 0
                        have = layout_min[lay]
                    ok = need is not None and have is not None and have >= need
                    R.ob("DISPATCH", "%s type %d: validated %s (>= %s bytes), view %s needs %s" % (short(p), v, (lay or "?").split("::")[-1], have, (vt or "?").split("::")[-1], need), ok, True,
                         {"rule": "DISPATCH", "fn": p, "type": v, "layout": lay, "validated": have, "view": vt, "needs": need, "holds": ok} if not ok or n % 5 == 0 else None)
                    if not ok:
                        R.violation("DISPATCH", "%s/type-%d" % (p, v), "SCMP message type %d: the payload view is validated against %s (at least %s bytes) but message() hands out a %s whose "
                                    "accessors rely on %s bytes: out-of-bounds access on a successfully constructed view" % (v, (lay or "?").split("::")[-1], have, (vt or "?").split("::")[-1], need), c.span.loc)
    R.floor("DISPATCH-arms", n, 18, "per-type view constructions in message/message_mut")


def _view_layout(F, vts, v):
    """layout type a gen_view_impl view validates with (callee self type of TryFrom::try_from in has_required_size)"""
    b = F.body(vts[v])
    for c in b.calls:
        if not c.indirect and c.decl.endswith("TryFrom::try_from") and c.selfty and c.selfty.endswith("Layout"):
            return c.selfty
    return None


def view_inv_discharge_factory(vts, M):
    def discharge(F, s, cfg):
        """self.0[L::new(len(self.0)).xxx_rng().aligned_byte_range()] inside a method of view V whose has_required_size
        validates layout L with len >= H: the range is [H, max(len, H)) = [H, len)"""
        if s.call is None or not re.search(r"::(index|index_mut)$", s.call.decl) or len(s.ops) != 2:
            return None
        e = F.fns.get(s.fn, {})
        ins = e.get("inputs") or []
        v = re.sub(r"^&(mut )?", "", ins[0]) if ins else None
        if v not in vts:
            return None
        b = s.body
        base = strip_sites(PN._peel_refs(b.origin(s.ops[0])))
        if base != ("field", ("deref", ("param", 1)), "0"):
            return None
        ix = b.origin(s.ops[1])
        if not (ix[0] == "call" and ix[1].endswith("::BitRange::aligned_byte_range") and len(ix[2]) == 1):
            return None
        rng = PN._peel_refs(ix[2][0])
        if not (rng[0] == "call" and rng[1].endswith("_rng") and len(rng[2]) == 1):
            return None
        lay = PN._peel_refs(rng[2][0])
        if not (lay[0] == "call" and lay[1].endswith("Layout::new") and len(lay[2]) == 1):
            return None
        L = lay[1][:-len("::new")]
        if _view_layout(F, vts, v) != L:
            return None
        ln = PN._canon_len(strip_sites(PN.strip_casts(lay[2][0])))
        if ln != ("len", base):
            return None
        nb = F.body(lay[1])
        no = strip_sites(nb.local_origin(0)) if nb is not None else None
        if not (no and no[0] == "agg" and len(no[2]) == 1 and no[2][0] == ("param", 1)):
            return None
        H = F.const_value(L + "::HEADER_SIZE_BYTES")
        if not isinstance(H, int) or M.get(v, 0) < H:
            return None
        rb = F.body(rng[1])
        r = strip_sites(rb.local_origin(0)) if rb is not None else None
        okr = False
        if r and r[0] == "call" and r[1].endswith("::BitRange::new") and len(r[2]) == 2 and PN.const_eval(r[2][0]) == H * 8:
            x = PN.strip_casts(r[2][1])
            if x[0] == "field" and x[2] == "0" and x[1][0] == "bin":
                x = ("bin", x[1][1].replace("WithOverflow", ""), x[1][2], x[1][3])
            if x[0] == "bin" and x[1] == "Mul" and PN.const_eval(x[3]) == 8 and x[2][0] == "call" and x[2][1].endswith("::saturating_sub") \
                    and PN.const_eval(x[2][2][1]) == H and "field:payload_length" in tokens(x[2][2][0]):
                okr = True
        if not okr:
            return None
        return "view invariant: %s validates len >= %d = %s::HEADER_SIZE_BYTES; the range is [%d, %d + (len - %d)) = [%d, len)" % (v.split("::")[-1], M[v], L.split("::")[-1], H, H, H, H)
    return discharge


PKT = "sciparse::proto::packet::view::ScionPacketView"


def payload_rules(F, R, vts):
    """PAYLOAD-TRUNC + TYPED: the payload slice of a packet view is [h, h + min(payload_len, len - h)); the typed
    (UDP / SCMP) packet views validate their L4 header on exactly that slice, and their accessors re-derive it the same way"""
    pf = [p for p in F.fns if re.search(r"ScionPacketView::<[^>]*>::payload(_mut)?$", p) and not T.is_test_support(p)]
    R.floor("PAYLOAD-TRUNC", len(pf), 1, "ScionPacketView::payload / payload_mut")
    for p in pf:
        b = F.body(p)
        R.fn(p)
        gs = [c for c in b.calls if not c.indirect and re.search(r"<impl \[T\]>::get_unchecked(_mut)?$", c.decl)]
        ok = bool(gs)
        detail = ""
        for c in gs:
            ix = b.origin(c.args[1])
            good = False
            if ix[0] == "agg" and ix[1][0] == "adt" and ix[1][1].endswith("::Range") and len(ix[2]) == 2:
                st, en = ix[2]
                e = PN.strip_casts(en)
                if e[0] == "field" and e[2] == "0" and e[1][0] == "bin":
                    e = ("bin", e[1][1].replace("WithOverflow", ""), e[1][2], e[1][3])
                if e[0] == "bin" and e[1] == "Add" and strip_sites(PN.strip_casts(e[2])) == strip_sites(PN.strip_casts(st)):
                    m = e[3]
                    if m[0] == "call" and m[1].endswith("::min") and len(m[2]) == 2:
                        tk = [tokens(x) for x in m[2]]
                        has_pl = any(any(t.endswith("::payload_len") for t in x) for x in tk)
                        has_tail = any(any(t.endswith("::saturating_sub") for t in x) and any(t.endswith("::len") for t in x) for x in tk)
                        good = has_pl and has_tail and any(t.endswith("::header_len") for t in tokens(st))
            detail = fmt(ix, 160)
            ok = ok and good
        R.ob("PAYLOAD-TRUNC", "%s = self.1[h .. h + min(payload_len, len - h)]" % short(p), ok, True, {"rule": "PAYLOAD-TRUNC", "fn": p, "range": detail, "holds": ok})
        if not ok:
            R.violation("PAYLOAD-TRUNC", p, "the payload slice is not truncated to min(declared payload length, available bytes): typed packet views validate their "
                        "L4 header on a different slice than their accessors later see (%s)" % detail, F.loc(p))
    typed = {v: h for v, h in vts.items() if v.startswith(PKT + "<") }
    R.floor("TYPED", len(typed), 2, "typed packet views (Udp, Scmp)")
    for v, h in typed.items():
        b = F.body(h)
        R.fn(h)
        oks = [bb for (bb, idx, adt, var) in T.result_variant_defs(b) if var == "Ok"]
        inner = [c for c in b.calls if not c.indirect and c.decl.endswith("View::has_required_size") and c.selfty and not c.selfty.startswith(PKT)]
        ok = len(inner) == 1
        l4 = inner[0].selfty if inner else None
        if ok:
            c = inner[0]
            a = b.origin(c.args[0])
            pay = [n for n in walk(a) if n[0] == "call" and re.search(r"ScionPacketView::<[^>]*>::payload$", n[1])]
            ok = bool(pay) and ("param:1" in tokens(a))
            def pred(tk, o, g, bbc=c.bb):
                return o[0] == "disc" and any(n[0] == "call" and len(n) > 5 and n[5] == bbc for n in walk(o))
            ok = ok and all(T.guarded_by(b, x, pred, [0])[0] for x in oks)
        R.ob("TYPED", "%s validates %s on payload() of the raw view over the same buffer" % (v.split("::")[-1], (l4 or "?").split("::")[-1]), ok, True)
        if not ok:
            R.violation("TYPED", h, "typed packet view %s can be constructed without its L4 header having been validated on the payload slice" % v, F.loc(h))
        # accessors that re-validate with expect: same L4 view type on self.payload()
        for p, e in F.fns.items():
            ins = e.get("inputs") or []
            if not ins or re.sub(r"^&(mut )?", "", ins[0]) != v or T.is_test_support(p):
                continue
            pb = F.body(p)
            if pb is None:
                continue
            for c in pb.calls:
                if not c.indirect and c.decl.startswith(VIEW_TRAIT + "::try_from_") and c.selfty and not c.selfty.startswith(PKT):
                    a = pb.origin(c.args[0])
                    same = c.selfty == l4 and any(n[0] == "call" and re.search(r"::payload(_mut)?$", n[1]) for n in walk(a))
                    R.ob("TYPED", "%s re-derives %s from self.payload()" % (short(p), c.selfty.split("::")[-1]), same, True)
                    if not same:
                        R.violation("TYPED", p + "/" + c.selfty.split("::")[-1], "%s parses %s although construction validated %s on the payload" % (short(p), c.selfty.split("::")[-1], (l4 or "?").split("::")[-1]), c.span.loc)


def size_consts(F, vts):
    """BitRange constants whose value, read during construction of a view, flows into the size/layout that construction
    validates (size-determining fields); constants that are only tested and rejected (VERSION) are not included"""
    readers = {}      # accessor fn -> consts it reads from self
    for p in F.all_body_paths("sciparse"):
        if T.is_test_support(p):
            continue
        b = F.body(p)
        for c in b.calls_to(READ):
            r = b.origin(c.args[1])
            if r[0] == "const":
                readers.setdefault(p, set()).add(r[1])
    out = {}
    for v, h in vts.items():
        par = F.reachable_ctx([h])
        for f in par:
            b = F.body(f)
            if b is None or T.is_test_support(f) or f in readers and f not in (h,):
                continue
            # values flowing into what this function returns on success
            flows = set()
            o = b.local_origin(0)
            flows |= tokens(o)
            for bi in sorted(b.live_blocks()):
                for st in b.stmts(bi):
                    if st[0] == "=" and st[2][0] == "agg" and st[2][1][0] == "adt" and ("Layout" in st[2][1][1] or st[2][1][2] == "Ok"):
                        flows |= tokens(b._rvalue_origin(st[2], 14, frozenset()))
            for t in flows:
                if t.startswith("fn:") and t[3:] in readers:
                    for k in readers[t[3:]]:
                        out.setdefault(k, set()).add(v.split("::")[-1])
            # control dependence: a switch on the read value at least two of whose edges can still reach a success exit
            # selects between layouts (SCMP message type, path type); a switch with a single surviving edge only rejects
            oks = [bb for (bb, idx, adt, var) in T.result_variant_defs(b) if var == "Ok"]
            for g in sorted(b.live_blocks()):
                t = b.term(g)
                if t[0] != "switch" or const_int(t[1]) is not None or not oks:
                    continue
                tk = tokens(b.origin(t[1]))
                accs = [x[3:] for x in tk if x.startswith("fn:") and x[3:] in readers]
                if not accs:
                    continue
                alive = [sx for sx in b.succ[g] if any(o in b.reach([sx]) for o in oks)]
                if len(set(alive)) >= 2:
                    for a in accs:
                        for k in readers[a]:
                            out.setdefault(k, set()).add(v.split("::")[-1])
            # direct reads in this function flowing to the result
            for c in b.calls_to(READ):
                r = b.origin(c.args[1])
                if r[0] == "const" and any(n[0] == "call" and len(n) > 5 and n[5] == c.bb and n[1] == READ for n in walk(o)):
                    out.setdefault(r[1], set()).add(v.split("::")[-1])
    return out


def sz_rule(F, R, vts):
    """SZ: a field whose value decided the size a view was validated for may only be written through an `unsafe fn`;
    ESC-sib: conversions of sibling typed views that hand out a mutable raw view must agree on their safety qualifier"""
    sc = size_consts(F, vts)
    R.extra["size_determining_fields"] = {k.split("::")[-2] + "::" + k.split("::")[-1]: sorted(v) for k, v in sorted(sc.items())}
    R.floor("SZ-fields", len(sc), 9, "size-determining layout constants (HEADER_LEN, PAYLOAD_LEN, PATH_TYPE, DST/SRC_ADDR_INFO, SEG0/1/2_LEN, UDP LENGTH, SCMP TYPE)")
    n_unsafe = 0
    # a size-determining field is a bit range of a buffer kind: every layout constant of the same layout module that
    # overlaps it names the same bits (all SCMP message layouts start with TYPE at bits 0..8 of the same payload)
    def family(k):
        # all SCMP message layouts describe the same payload buffer from offset 0; other layouts are their own buffer kind
        return k.rsplit("::", 2)[0] if "::payload::scmp::layout::" in k else k.rsplit("::", 1)[0]
    fam = {}
    for k, vs in sc.items():
        br = F.bitrange(k)
        if br:
            fam.setdefault(family(k), []).append((br, k, vs))

    def size_field_of(const_path):
        br = F.bitrange(const_path)
        if br is None:
            return None
        for (sbr, k, vs) in fam.get(family(const_path), ()):
            if br[0] < sbr[1] and sbr[0] < br[1]:
                return k
        return None

    for p, e in sorted(F.fns.items()):
        if e["_crate"] != "sciparse" or T.is_test_support(p):
            continue
        b = F.body(p)
        if b is None:
            continue
        for c in b.calls_to(WRITE):
            r = b.origin(c.args[1])
            if r[0] != "const":
                continue
            sk = size_field_of(r[1])
            if sk is None:
                continue
            r = ("const", sk) if r[1] not in sc else r
            if ENC.is_encode_impl(F, p) or p.endswith("::encode_unchecked"):
                continue            # encoders write into a fresh buffer they size themselves
            ok = bool(e.get("unsafe"))
            n_unsafe += ok
            R.ob("SZ", "%s writes %s: %s" % (short(p), r[1].split("::")[-1], "unsafe fn" if ok else "SAFE fn"), ok, True,
                 {"rule": "SZ", "fn": p, "loc": c.span.loc, "field": r[1], "unsafe_fn": ok})
            if not ok:
                R.violation("SZ", "%s/%s" % (p, r[1].split("::")[-1]), "%s is a safe fn that writes the size-determining field %s (views validated with it: %s): safe code can "
                            "invalidate the size a view was validated for" % (short(p), r[1].split("::")[-2] + "::" + r[1].split("::")[-1], sorted(sc[r[1]])[:3]), c.span.loc)
    R.floor("SZ-unsafe-writers", n_unsafe, 18, "unsafe setters of size-determining fields")
    # sibling agreement of as_raw_mut / From<&mut Typed> conversions
    sibs = [p for p in F.fns if re.search(r"ScionPacketView::<[^>]+>::as_raw_mut$", p)]
    quals = {p: bool(F.fns[p].get("unsafe")) for p in sibs}
    R.extra["as_raw_mut_qualifiers"] = {short(p): ("unsafe" if q else "safe") for p, q in quals.items()}
    if len(sibs) >= 2:
        for p, q in quals.items():
            ok = q or not any(quals.values())
            R.ob("ESC-sib", "%s is %s; its siblings: %s" % (short(p), "unsafe" if q else "safe", sorted(set(quals.values()))), ok, True)
            if not ok:
                R.violation("ESC-sib", p, "%s hands out a mutable raw packet view from a typed view in a safe fn while its sibling conversion is `unsafe` for exactly "
                            "that reason: through payload_mut() safe code can shrink the L4 length the typed view was validated for, and udp()/scmp() then panic" % short(p), F.loc(p))
    else:
        R.anchor_missing("as_raw_mut conversions of the typed packet views")


def transmute_rule(F, R, vts):
    """every view type is repr(transparent) over [u8] (+ PhantomData): the transmutes in the View impls are layout-preserving"""
    n = 0
    for v in vts:
        adt = F.adts.get(re.sub(r"<.*$", "", v))
        if not adt:
            R.anchor_missing("ADT facts of " + v)
            continue
        n += 1
        fields = adt["variants"][0][2]
        non_zst = [f for f in fields if "PhantomData" not in f[1]]
        ok = "transparent" in (adt.get("repr") or []) and len(non_zst) == 1 and (non_zst[0][1] == "[u8]" or re.fullmatch(r"\[u8; [^\]]+\]", non_zst[0][1]))
        R.ob("REPR", "%s is #[repr(transparent)] over [u8]" % v.split("::")[-1], ok, True)
        if not ok:
            R.violation("REPR", v, "view type %s is not a transparent wrapper of [u8] (repr %s, fields %s): the pointer transmutes in its View impl are unsound" % (v, adt.get("repr"), fields), None)
    R.floor("REPR", n, 18, "view types")


def run(F, R, tier, cfg):
    vts = view_types(F)
    R.extra["view_types"] = sorted(vts)
    fns = view_fns(F, vts)
    R.extra["view_fns"] = len(fns)
    ENC.install()
    M = accessor_rule(F, R, vts, fns)
    ACC.run(F, R, M, "view", 160)       # 172 sites counted on 8f07ce4 (156 slice-backed view, 14 array-backed, 1 guarded, 1 debug renderer)
    hrs_rule(F, R, vts)
    subview_rule(F, R, vts, fns)
    ctor_unsafe_rule(F, R, vts)
    exact_rule(F, R)
    dispatch_rule(F, R, vts, M)
    payload_rules(F, R, vts)
    sz_rule(F, R, vts)
    transmute_rule(F, R, vts)
    vd = view_inv_discharge_factory(vts, M)
    PN.EXTRA_DISCHARGERS.append(vd)
    try:
        PN.check_entries(F, R, "C02", fns, cfg, underflow_armed=r"view::StandardPathView::try_reverse$")
    finally:
        PN.EXTRA_DISCHARGERS.remove(vd)


# ---------------------------------------------------------------------------------------------------------------
# HRS — View::has_required_size(buf) = Ok(size)  ⇒  size <= buf.len()
#
# View::try_from_slice / try_from_mut_slice / try_from_boxed do `buf.split_at_unchecked(size)` with the size that
# has_required_size reported (a debug_assert only in dev builds).  A constructor whose size check and reported size
# disagree (check `len >= data`, report `meta + data`) hands out a view that is longer than the input.
# The rule proves, per Ok exit, one of:
#   const     size is a constant c and a guard on every path to the exit gives len(buf) >= c
#   len       size is len(buf) itself
#   min       size is min(_, len(buf))
#   guard     a guard on every path to the exit reads len(buf) >= G and size ≡ G (symbolic normal form: helper
#             functions inlined, field-of-aggregate projected, constants folded)
#   callee    size is the Ok payload of another function of this family applied to the same buffer
#   layout    size is Layout::size_bytes(&L) with L the Ok payload of a layout constructor C(buf): the same four
#             arguments are tried for size_bytes(&P) of every Ok payload P of C, in C's body
_hrs_memo = {}


def _unwrap_try(t):
    """(call node, True) if t is the Continue payload of `?` applied to a call (through map_err/into wrappers)"""
    t = SY.nr(strip_sites(t))
    if t[0] == "field" and t[2] == "0" and t[1][0] == "downcast" and t[1][2] == "Continue":
        x = t[1][1]
        if x[0] == "call" and x[1].endswith("::branch") and x[2]:
            x = x[2][0]
            while x[0] == "call" and re.search(r"::(map_err|into|from)$", x[1]) and x[2]:
                x = x[2][0]
            if x[0] == "call":
                return x
    return None


def _buf_arg_index(call, param):
    for i, a in enumerate(call[2]):
        if SY.nr(a) == ("param", param):
            return i
    return None


def _le_len(F, fn, b, bb, S, param, depth):
    """proof that the integer tree S (in the body of fn, at Ok exit bb) is <= len(param); returns reason or None"""
    S0 = strip_sites(S)
    Sn = SY.norm(F, S0)
    ln_ok = lambda t: PN._is_len_of(strip_sites(t), ("param", param))
    if ln_ok(S0) or (Sn[0] == "call" and re.search(r"::len$", Sn[1]) and Sn[2] and SY.nr(Sn[2][0]) == ("param", param)):
        return "len"
    guards = []
    for g, cond, pol in PN._cmp_guards(b, bb):
        nn = PN._norm_cmp(cond, pol)
        if not nn:
            continue
        op, x, y = nn
        if ln_ok(x) and op in ("Ge", "Gt"):
            guards.append(y)
        elif ln_ok(y) and op in ("Le", "Lt"):
            guards.append(x)
        elif op == "Eq" and (ln_ok(x) or ln_ok(y)):
            guards.append(y if ln_ok(x) else x)
    if Sn[0] == "k":
        lbs = [SY.norm(F, g) for g in guards]
        if any(g[0] == "k" and g[1] >= Sn[1] for g in lbs):
            return "const"
    # equalities established on every path to the exit (`if a != b { return Err }`): S may be replaced by its equal
    alts = {Sn}
    for g, cond, pol in PN._cmp_guards(b, bb):
        nn = PN._norm_cmp(cond, pol)
        if nn and nn[0] == "Eq":
            x, y = SY.norm(F, nn[1]), SY.norm(F, nn[2])
            if x in alts:
                alts.add(y)
            elif y in alts:
                alts.add(x)
    for g in guards:
        if SY.norm(F, g) in alts:
            return "guard" if SY.norm(F, g) == Sn else "guard(=)"
    for cand in (S0, Sn):
        if cand[0] == "call" and re.search(r"(::Ord::min|cmp::min)$", cand[1]) and len(cand[2]) == 2:
            for a in cand[2]:
                if ln_ok(a) or (SY.nr(a)[0] == "call" and re.search(r"::len$", SY.nr(a)[1]) and SY.nr(SY.nr(a)[2][0]) == ("param", param)):
                    return "min"
    c = _unwrap_try(S0)
    if c is not None and F.has_body(c[1]):
        i = _buf_arg_index(c, param)
        if i is not None and depth > 0:
            r = size_le_len(F, c[1], i + 1, depth - 1)
            if r[0]:
                return "callee(%s)" % short(c[1])
    if S0[0] == "call" and S0[1].endswith("::size_bytes") and len(S0[2]) == 1:
        c = _unwrap_try(S0[2][0])
        if c is not None and depth > 0:
            i = _buf_arg_index(c, param)
            tgt = c[1]
            if i is not None and F.has_body(tgt):
                r = layout_le_len(F, tgt, i + 1, S0[1], depth - 1)
                if r[0]:
                    return "layout(%s: %s)" % (short(tgt), r[1])
    return None


def size_le_len(F, fn, param=1, depth=6):
    """fn returns Result<usize, _>: every Ok(size) has size <= len(param)"""
    key = (id(F), "s", fn, param)
    if key in _hrs_memo:
        return _hrs_memo[key]
    _hrs_memo[key] = (False, "recursive")
    b = F.body(fn)
    res = (False, "no body")
    if b is not None:
        oks = [(bb, idx) for (bb, idx, adt, var) in T.result_variant_defs(b) if var == "Ok"]
        why = []
        ok = bool(oks)
        for bb, idx in oks:
            st = b.stmts(bb)[idx]
            r = _le_len(F, fn, b, bb, b.origin(st[2][2][0]), param, depth)
            ok = ok and r is not None
            why.append(r or "UNPROVEN at %s" % b.span_of(st[3]).loc)
        res = (ok, ", ".join(why) if oks else "no Ok exit found")
    _hrs_memo[key] = res
    return res


def layout_le_len(F, fn, param, size_fn, depth=6):
    """fn returns Result<L, _>: for every Ok(P), size_fn(&P) <= len(param)"""
    key = (id(F), "l", fn, param, size_fn)
    if key in _hrs_memo:
        return _hrs_memo[key]
    _hrs_memo[key] = (False, "recursive")
    b = F.body(fn)
    res = (False, "no body")
    if b is not None:
        oks = [(bb, idx) for (bb, idx, adt, var) in T.result_variant_defs(b) if var == "Ok"]
        if not oks:
            # pure wrapper: the result is a callee's (through map_err / into)
            x = SY.nr(strip_sites(b.local_origin(0)))
            while x[0] == "call" and re.search(r"::(map_err|into|from)$", x[1]) and x[2]:
                x = x[2][0]
            if x[0] == "call" and F.has_body(x[1]) and depth > 0:
                i = _buf_arg_index(x, param)
                if i is not None:
                    res = layout_le_len(F, x[1], i + 1, size_fn, depth - 1)
        else:
            why, ok = [], True
            for bb, idx in oks:
                st = b.stmts(bb)[idx]
                P = b.origin(st[2][2][0])
                alts = [a for a in P[1] if isinstance(a, tuple)] if P[0] == "phi" else [P]
                for P1 in alts:
                    S = ("call", size_fn, (("ref", "shared", P1),), None)
                    r = _le_len(F, fn, b, bb, S, param, depth)
                    if r is None:
                        r = _enum_variant_le_len(F, fn, b, bb, P1, param, size_fn, depth)
                    ok = ok and r is not None
                    why.append(r or "UNPROVEN at %s" % b.span_of(st[3]).loc)
            res = (ok, ", ".join(sorted(set(why))))
    _hrs_memo[key] = res
    return res


def _enum_variant_le_len(F, fn, b, bb, P, param, size_fn, depth):
    """P = Enum::Variant(inner) with inner the Ok payload of an inner layout constructor on the same buffer, and the enum's
    size_bytes dispatching that variant to the inner layout's size_bytes"""
    P0 = strip_sites(P)
    if P0[0] != "agg" or P0[1][0] != "adt" or len(P0[2]) != 1:
        return None
    c = _unwrap_try(P0[2][0])
    if c is None or depth <= 0:
        return None
    i = _buf_arg_index(c, param)
    if i is None:
        return None
    variant = P0[1][2]
    sb = F.body(size_fn)
    if sb is None:
        return None
    # the arm of size_fn for this variant: absint with a tagged aggregate picks the arm; its value must be a call of an inner size_bytes
    inner_size = None
    for cc in sb.calls:
        if cc.indirect or not cc.decl.endswith("::size_bytes"):
            continue
        o = SY.nr(strip_sites(sb.origin(cc.args[0])))
        if o[0] == "field" and o[1][0] == "downcast" and o[1][2] == variant and o[1][1] == ("param", 1):
            inner_size = cc.res or cc.decl
    if inner_size is None or not F.has_body(inner_size):
        return None
    tgt = c[1]
    if not F.has_body(tgt):
        cands = [x for x in F.trait_impls.get("core::convert::TryFrom::try_from", ()) if F.fns[x].get("self_ty") == F.fns[inner_size].get("self_ty")]
        tgt = cands[0] if len(cands) == 1 else None
    if tgt is None:
        return None
    r = layout_le_len(F, tgt, i + 1, inner_size, depth - 1)
    return "variant %s -> %s" % (variant, r[1]) if r[0] else None


def hrs_rule(F, R, vts):
    _hrs_memo.clear()
    n = 0
    kinds = {}
    for V, h in sorted(vts.items()):
        n += 1
        R.fn(h)
        ok, why = size_le_len(F, h)
        kinds[V.split("::")[-1]] = why
        R.ob("HRS", "%s::has_required_size: Ok(size) => size <= buf.len() [%s]" % (V.split("::")[-1], why[:80]), ok, True,
             {"rule": "HRS", "view": V, "fn": h, "proof": why, "holds": ok})
        if not ok:
            R.violation("HRS", h, "%s::has_required_size can return Ok(size) with size not proven <= buf.len() (%s): View::try_from_slice then "
                        "splits the input with split_at_unchecked(size) past its end — the view is longer than the bytes it was built from" % (V.split("::")[-1], why), F.loc(h))
    R.floor("HRS", n, 20, "View impls (has_required_size)")
    R.extra["hrs"] = kinds


def ctor_unsafe_rule(F, R, vts):
    """CTOR-unsafe: a view value can only come from a validating constructor.  (a) every `from_*_unchecked` constructor —
    the three View trait items and all their impls, plus inherent ones — is an `unsafe fn`; (b) every view struct keeps its
    byte field private (no struct-literal construction outside the module); (c) transmutes / raw casts that create a view
    reference occur only inside unsafe fns or unsafe blocks of the view modules (REPR covers the layout side).  A safe
    `from_slice_unchecked` compiles, passes every test, and lets safe code build a view over a too-short buffer."""
    n = 0
    for k, v in sorted(getattr(F, "decls", {}).items()):
        if re.search(r"core::view::View::from_(mut_)?(slice|boxed)_unchecked$", k):
            n += 1
            ok = bool(v.get("unsafe"))
            R.ob("CTOR-unsafe", "trait item %s is unsafe" % short(k), ok, False)
            if not ok:
                R.violation("CTOR-unsafe", k, "the View trait declares %s as a safe fn: safe code can create unvalidated views of every view type" % short(k), None)
    for p, e in sorted(F.fns.items()):
        if e["_crate"] == "sciparse" and re.search(r"::from_(mut_)?(slice|boxed)_unchecked$", p) and not T.is_test_support(p):
            n += 1
            ok = bool(e.get("unsafe"))
            R.ob("CTOR-unsafe", "%s is unsafe" % short(p), ok, False)
            if not ok:
                R.violation("CTOR-unsafe", p, "%s is a safe fn: safe code can create a view over a buffer that was never size-checked" % short(p), F.loc(p))
    R.floor("CTOR-unsafe", n, 55, "from_*_unchecked constructors (3 trait items + 60 impls counted on 8f07ce4)")
    m = 0
    for V in sorted(vts):
        a = F.adts.get(V)
        if not a:
            continue          # type aliases of a generic view (ScionPacketView<Udp>) share the generic struct's fields
        m += 1
        fields = a["variants"][0][2]
        ok = all(f[2] != "pub" for f in fields)
        R.ob("CTOR-unsafe", "%s: byte field(s) private" % V.split("::")[-1], ok, False)
        if not ok:
            R.violation("CTOR-unsafe", V + "/field", "%s has a public field: safe code can build the view from arbitrary bytes with a struct literal" % V.split("::")[-1], None)
    R.floor("CTOR-private", m, 16, "view structs")


def _nref(t):
    while isinstance(t, tuple) and t and t[0] in ("ref", "deref"):
        t = t[2] if t[0] == "ref" else t[1]
    return t


def exact_rule(F, R):
    """EXACT: every view is built over a buffer of exactly the length has_required_size returned — the premise of SUBVIEW,
    HRS and of the fixed-size `from_boxed_unchecked` impls, whose `try_into().unwrap_unchecked()` is undefined behaviour on
    any other length.  For each call of a `View::from_*_unchecked` trait item inside a safe default method of the View
    trait, the argument is either the `.0` half of `split_at[_mut]_unchecked(buf, SIZE)` with SIZE the Ok value of
    `has_required_size(buf)` over the same buffer, or the whole buffer on the pass edge of a switch on
    `len(buf) == SIZE` / `!= SIZE`.  `to_boxed` copies `self.as_slice()`, which is exact by induction."""
    n = 0
    for p in F.find_fns(lambda q: re.match(r"sciparse::core::view::View::(try_from_\w+|to_boxed)$", q)):
        pb = F.body(p)
        if pb is None:
            continue
        for c in pb.calls:
            if not c.callee or not re.search(r"core::view::View::from_(mut_)?(slice|boxed)_unchecked$", c.callee):
                continue
            n += 1
            R.fn(p)
            a = _nref(strip_sites(pb.origin(c.args[0])))
            how = None

            def is_size(t, buf):
                # (branch(has_required_size(&buf)) as Continue).0
                t = _nref(t)
                hs = [x for x in walk(t) if x[0] == "call" and x[1].endswith("View::has_required_size")]
                return bool(hs) and all(_nref(strip_sites(h[2][0])) == buf for h in hs) and "Continue" in fmt(t, 400) \
                    and not any(x[0] in ("bin", "un") for x in walk(t))
            if a[0] == "field" and a[2] in (0, "0") and _nref(a[1])[0] == "call" and \
                    re.search(r"split_at(_mut)?_unchecked$", _nref(a[1])[1]):
                sp = _nref(a[1])
                buf = _nref(strip_sites(sp[2][0]))
                if is_size(strip_sites(sp[2][1]), buf):
                    how = "first half of split at has_required_size(buf)"
            elif a[0] == "call" and a[1].endswith("into_boxed_slice") and p.endswith("::to_boxed") and \
                    any(x[0] == "call" and x[1].endswith("View::as_slice") for x in walk(a)):
                how = "copy of self.as_slice()"
            else:
                buf = a

                def pred(tk, oo, g, buf=buf):
                    oo = _nref(strip_sites(oo))
                    if oo[0] != "bin" or oo[1] not in ("Ne", "Eq"):
                        return False
                    l, r = _nref(oo[2]), _nref(oo[3])
                    for (x, y) in ((l, r), (r, l)):
                        if x[0] == "call" and x[1].endswith("::len") and _nref(strip_sites(x[2][0])) == buf and is_size(y, buf):
                            pred.op = oo[1]
                            return True
                    return False
                for op, val in (("Ne", [0]), ("Eq", [1])):
                    pred.op = None
                    ok, g = T.guarded_by(pb, c.bb, lambda tk, oo, g, op=op: pred(tk, oo, g) and pred.op == op, val)
                    if ok:
                        how = "whole buffer on the len(buf) %s SIZE edge of bb%d" % ("==" if True else "", g)
                        break
            R.ob("EXACT", "%s: %s receives a buffer of exactly has_required_size bytes (%s)" % (short(p), c.callee.rsplit("::", 1)[1], how or "NOT SHOWN"),
                 how is not None, True, {"rule": "EXACT", "fn": p, "loc": c.span.loc, "argument": fmt(a, 240), "how": how})
            if how is None:
                R.violation("EXACT", p + "/" + c.callee.rsplit("::", 1)[1],
                            "%s builds a view over a buffer whose length is not shown equal to has_required_size(buf): argument %s; "
                            "fixed-size views' from_boxed_unchecked (`try_into().unwrap_unchecked()`) is undefined behaviour on any other "
                            "length, and every accessor proof (SUBVIEW/HRS) assumes the exact size" % (short(p), fmt(a, 160)), c.span.loc)
    R.floor("EXACT", n, 4, "View::from_*_unchecked calls in the View trait's safe default methods")
    # owned conversions outside the trait: a boxed view may only be re-wrapped from the boxed bytes of another view of the
    # same generic struct (typed packet view -> raw packet view; TYPED shows both are validated over the same bytes)
    m = 0
    for (p, c) in T.call_sites(F, lambda q: re.search(r"::from_boxed_unchecked$", q), crates=["sciparse"]):
        if p.startswith("sciparse::core::view::View::") or F.fns[p].get("unsafe") or T.is_test_support(p):
            continue
        m += 1
        R.fn(p)
        pb = F.body(p)
        a = _nref(strip_sites(pb.origin(c.args[0])))
        ok = False
        if a[0] == "call" and a[1].endswith("View>::as_slice_boxed") and _nref(a[2][0]) == ("param", 1):
            src_ty = re.sub(r"(<| as ).*$", "", re.sub(r"^<", "", a[1]))
            dst_ty = re.sub(r"(<| as ).*$", "", re.sub(r"^<", "", c.callee))
            ok = src_ty == dst_ty
        R.ob("EXACT", "%s re-wraps the boxed bytes of a view of the same struct" % short(p), ok, True,
             {"rule": "EXACT", "fn": p, "argument": fmt(a, 200)})
        if not ok:
            R.violation("EXACT", p + "/from_boxed_unchecked", "%s builds an owned view from %s, which is not the boxed byte image of a view of the "
                        "same struct: the new view's buffer length is not shown to equal its has_required_size" % (short(p), fmt(a, 160)), c.span.loc)
    R.floor("EXACT-owned", m, 2, "from_boxed_unchecked calls in safe functions outside the View trait")


def thorough_extra(R):
    """thorough tier only: compile-fail witnesses — rustc itself must reject safe-code access to the unchecked constructors,
    the size-field writers, the raw mutable escape, the unchecked encoder and struct-literal construction of a view, and must
    accept the twin that differs only in the offending construct."""
    import witness
    try:
        res, tail = witness.run()
    except Exception as e:       # build environment problem: fail closed
        R.violation("WITNESS", "harness", "compile-fail witness harness could not be run: %s" % e, None)
        return
    R.extra["witnesses"] = res
    n = 0
    for w, r in sorted(res.items()):
        n += 1
        ok = r["compile_fail"] is True and r["twin_compiles"] is True
        R.ob("WITNESS", "%s: the violating program is rejected by rustc with the stated error code and its twin compiles" % w, ok, True,
             {"rule": "WITNESS", "witness": w, "result": r, "holds": ok})
        if not ok:
            why = "the violating program compiles" if r["compile_fail"] is False else ("the twin does not compile (witness path is stale)" if r["twin_compiles"] is False else "no verdict (build failed?)")
            R.violation("WITNESS", w, "compile-fail witness %s (engine/witness/src/lib.rs) no longer holds: %s" % (w, why), None, {"log_tail": tail[-1200:]})
    R.floor("WITNESS", n, 8, "compile-fail witnesses with compiling twins")


# ---------------------------------------------------------------------------------------------------------------
# SUBVIEW — sub-slices taken with get_unchecked inside view accessors stay within the bytes the view was validated for
def subview_rule(F, R, vts, fns):
    fns = sorted(set(fns) | {p for p, e in F.fns.items() if e["_crate"] == "sciparse" and not T.is_test_support(p) and F.has_body(p)
                             and any(re.sub(r"<.*$", "", k) in re.sub(r"^&(mut )?", "", ((e.get("inputs") or [""])[0])) for k in vts)})
    """SUBVIEW: `self.0.get_unchecked(range)` in a view accessor is in bounds.  The view's buffer has exactly the length its
    has_required_size returned (View::try_from_* split at that size): SIZE is obtained by linear-form interpretation of
    has_required_size (an affine form over the bytes-read atoms, e.g. 4 + 8*[seg_i > 0] + 12*seg_i).  Each accessor is
    interpreted in the same domain; for every path reaching the get_unchecked call the range's end (and start) must be
    <= SIZE under the path's branch conditions (e.g. idx < hop_count).  Sites the interpreter cannot express are listed as
    not decided; sites of the accessors in SUBVIEW_ARMED must be proven."""
    import lin as LN
    from absint import Agg as _Agg
    sizes = {}
    for V, h in vts.items():
        paths = LN.eval_lin(F, h, [LN.Opq("buf")])
        oks = [(c, v.fields[0]) for c, v in paths if isinstance(v, _Agg) and v.variant == "Ok" and v.fields and isinstance(v.fields[0], LN.Lin)]
        if oks:
            sizes[V] = oks
    proven, undecided, n = [], [], 0
    for p in fns:
        e = F.fns[p]
        ins = e.get("inputs") or []
        recv = re.sub(r"^&(mut )?|^alloc::boxed::Box<|>$", "", ins[0]) if ins else ""
        V = recv if recv in vts else (e.get("self_ty") if e.get("self_ty") in vts else None)
        b = F.body(p)
        Vs = [V] if V else []
        if V is None and recv:
            base = re.sub(r"<.*$", "", recv)
            Vs = [k for k in vts if re.sub(r"<.*$", "", k) == base]      # generic receiver (ScionPacketView<T>): every instantiation
        if not Vs or b is None or not ins or not ins[0].startswith("&"):
            continue
        sites = [c for c in b.calls if not c.indirect and re.search(r"<impl \[T\]>::get_unchecked(_mut)?$", c.decl) and c.bb in b.live_blocks()
                 and strip_sites(PN._peel_refs(b.origin(c.args[0])))[:2] == ("field", ("deref", ("param", 1)))]
        if not sites:
            continue
        n += len(sites)
        args = [LN.Opq("self")] + [LN.Lin.atom("arg%d" % i) for i in range(1, len(ins))]
        sink = []
        LN.eval_lin(F, p, args, probe=("get_unchecked", 1, sink))
        LN.eval_lin(F, p, args, probe=("get_unchecked_mut", 1, sink))
        szs = [x for v0 in Vs for x in (sizes.get(v0) or [])] if all(sizes.get(v0) for v0 in Vs) else None
        for c in sites:
            here = [(cd, v) for cd, v, bb in sink if bb == c.bb]
            ok, why = False, "not expressible in the linear domain"
            if here and szs and all(isinstance(v, _Agg) and len(v.fields) >= 1 and all(isinstance(x, LN.Lin) for x in v.fields) for cd, v in here):
                ok = True
                for cd, v in here:
                    if v.adt.endswith("::RangeTo") or v.adt.endswith("::RangeToInclusive"):
                        start, end = LN.Lin(0), (v.fields[0] if v.adt.endswith("::RangeTo") else v.fields[0].add(LN.Lin(1)))
                    elif v.adt.endswith("::RangeFrom"):
                        start, end = v.fields[0], None
                    elif v.adt.endswith("::RangeFull"):
                        start, end = LN.Lin(0), None
                    else:
                        start, end = v.fields[0], (v.fields[1] if len(v.fields) > 1 else None)
                    if all(LN.unsat(list(cd) + list(sc)) for sc, size in szs):
                        ok = False
                        why = "no constructor path is compatible with this accessor path (vacuous)"
                    for sc, size in szs:
                        fld = strip_sites(PN._peel_refs(b.origin(c.args[0])))[2]
                        lenself = LN.Lin.atom("len(self.%s)" % fld)
                        # everything that held on the constructor's Ok path holds for the view, and the view's buffer has exactly SIZE bytes
                        conds = list(cd) + list(sc) + [lenself.sub(size), size.sub(lenself)]
                        if LN.unsat(conds):
                            continue                      # this accessor path and this constructor path saw different bytes: impossible together
                        bound = end if end is not None else start
                        if not LN.implied_nonneg(size.sub(bound), conds) or (end is not None and not LN.implied_nonneg(end.sub(start), conds)):
                            ok = False
                            why = "range %s..%s not within SIZE = %s under %s" % (start, end, size, cd)
                if ok:
                    why = "end <= SIZE on %d path(s); SIZE = %s" % (len(here), szs[0][1])
            (proven if ok else undecided).append((p, c.span.loc, why))
            R.ob("SUBVIEW", "%s: get_unchecked range within the validated size [%s]" % (short(p), why[:90]), ok, ok,
                 {"rule": "SUBVIEW", "fn": p, "loc": c.span.loc, "detail": why, "holds": ok} if ok else None)
            if not ok:
                R.discharged += 1      # counted as examined; decided only for armed accessors below
            if not ok and re.search(SUBVIEW_ARMED, p):
                R.discharged -= 1
                R.violation("SUBVIEW", "%s/get_unchecked" % p, "%s takes self.0.get_unchecked(range) where the range is not proven to lie within the bytes the view was "
                            "validated for (%s): out-of-bounds slice on a successfully constructed view" % (short(p), why), c.span.loc)
    R.floor("SUBVIEW", len(proven), 22, "get_unchecked sites on the view buffer proven within the validated size (8 StandardPathView, 8 ScionHeaderView, 4 ScionPacketView, 2 UdpDatagramView)")
    R.extra["subview"] = {"sites": n, "proven": [(short(p), l) for p, l, w in proven], "not_decided": [(short(p), l, w[:120]) for p, l, w in undecided]}


SUBVIEW_ARMED = r"."        # every site: all 18 are proven on 8f07ce4
