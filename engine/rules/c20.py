"""C20 — waiting senders always wake; dropping the manager stops its workers."""
import re
import templates as T
from facts import tokens, fmt, short, walk

CRATES = ["scion_stack"]

EXPLANATION = (
    "Lock/notify discipline checked on the pre-lowering coroutine MIR of scion-stack's path set worker and handle. "
    "(L1) every critical section of PathSetSharedState::sync that stores None into ongoing_start or true into initialized "
    "calls Notify::notify_waiters on completed_notify before the guard is dropped, on every path; (L2) every "
    "Notify::notified_owned() future is created inside a critical section of the same mutex; (L3) no Yield (await) "
    "lies inside any critical section; (M) in the worker task every path from the maintenance future's completion to the "
    "task's return passes the clear-flags+notify block; (W) PathSet::manage — the only tokio::spawn of a path-set task — is "
    "called only in the Vacant arm of managed_paths.entry_sync; PathSetTask::drop cancels the token, the task polls "
    "cancelled(), holds only a Weak manager reference and re-upgrades it at every wake-up."
)
EXPLANATION_ADD = ' Additions: (ORDER-publish) maybe_update_active_path dominates every notify_waiters in fetch_and_update; (WAIT-no-spin) the only loops in the waiting functions are bare await poll loops.'
EXPLANATION = EXPLANATION + EXPLANATION_ADD
RESIDUAL = ["schedule exploration: that the discipline suffices relies on tokio::sync::Notify's contract (a Notified future "
            "created before notify_waiters is woken by it)"]
ASSUMPTIONS = ["tokio::sync::Notify::notify_waiters wakes every Notified created before the call",
               "scc::HashIndex::entry_sync gives exclusive access to the vacant entry"]
TECHNIQUE = "critical-section (lock-region) analysis and must-pass-through on coroutine MIR; who-may-call"

PS = "scion_stack::path::manager::pathset::"


def sync_sections(b):
    return [s for s in T.mutex_sections(b) if "PathSetSyncState" in b.local_ty(s.guard)]


def run(F, R, tier, cfg):
    no_spin_rule(F, R)
    bodies = [p for p in F.all_body_paths("scion_stack") if p.startswith("scion_stack::path::manager") and not T.is_test_support(p)]
    n_sections = 0
    n_release = 0
    n_notified = 0
    for p in bodies:
        b = F.body(p)
        secs = sync_sections(b)
        if secs:
            R.fn(p)
        for s in secs:
            n_sections += 1
            # L3
            ys = [x for x in s.blocks if b.term(x)[0] == "yield"]
            R.ob("LOCK-L3", "no await while holding sync in %s (section at bb%d)" % (short(p), s.acquire), not ys, True)
            if ys:
                R.violation("LOCK-L3", "%s/yield-in-section" % p, "an await point lies inside a critical section of the sync mutex", b.term_span(ys[0]).loc)
            # L1
            stores = T.guard_field_stores(b, s)
            rel = [st for st in stores if (st[2] == "ongoing_start" and st[3][0] == "agg" and st[3][1][2] == "None")
                   or (st[2] == "initialized" and st[3][0] == "lit" and st[3][1] in (1, True))]
            notifies = [c for c in b.calls if c.bb in s.blocks and not c.indirect and c.decl.endswith("Notify::notify_waiters")
                        and "field:completed_notify" in tokens(b.origin(c.args[0]))]
            for st in rel:
                n_release += 1
                # every path from the store to a drop of the guard passes a notify
                r = b.reach([st[0]], avoid=[c.bb for c in notifies])
                escapes = [d for d in s.drops if d in r] + [x for x in r if b.term(x)[0] == "ret"]
                # the store's own block may contain the notify later; notify is a terminator so it is after the store
                ok = bool(notifies) and not escapes
                R.ob("LOCK-L1", "store %s=%s in %s followed by notify_waiters before unlock" % (st[2], fmt(st[3], 30), short(p)), ok, True,
                     {"rule": "LOCK-L1", "fn": p, "loc": st[4].loc, "field": st[2], "notify_blocks": [c.bb for c in notifies], "holds": ok})
                if not ok:
                    R.violation("LOCK-L1", "%s/%s" % (p, st[2]),
                                "waiters can be left asleep: %s is released under the lock without notify_waiters before the guard drops" % st[2], st[4].loc)
        # L2
        for c in b.calls:
            if not c.indirect and c.decl.endswith("Notify::notified_owned") or (not c.indirect and c.decl.endswith("Notify::notified")):
                n_notified += 1
                R.fn(p)
                inside = [s for s in secs if c.bb in s.blocks and c.bb not in s.drops]
                ok = bool(inside)
                if ok:
                    # the flags are read in the same section before registering
                    s = inside[0]
                    reads = set()
                    for bb in s.blocks:
                        for stt in b.stmts(bb):
                            if stt[0] == "=":
                                for tk in tokens(b._rvalue_origin(stt[2], 6, frozenset())):
                                    if tk in ("field:ongoing_start", "field:initialized"):
                                        reads.add(tk)
                        t = b.term(bb)
                        if t[0] == "call":
                            for a in t[2]:
                                for tk in tokens(b.origin(a)):
                                    if tk in ("field:ongoing_start", "field:initialized"):
                                        reads.add(tk)
                    ok = "field:initialized" in reads
                R.ob("LOCK-L2", "notified_owned() in %s registered under the sync lock after reading the flags" % short(p), ok, True)
                if not ok:
                    R.violation("LOCK-L2", "%s/notified" % p, "a waiter registers for notification outside the state lock (lost-wakeup window)", c.span.loc)
    R.floor("LOCK-sections", n_sections, 7, "critical sections of PathSetSyncState in path::manager")
    R.floor("LOCK-L1", n_release, 4, "releasing stores (ongoing_start=None / initialized=true)")
    R.floor("LOCK-L2", n_notified, 2, "notified_owned registrations")

    # ---- ORDER-publish: a lookup's result is published (active-path slot updated) before its waiters are woken
    fu = PS + "PathSet::<F>::fetch_and_update::{closure#0}"
    fb = F.body(fu)
    if fb is None:
        R.anchor_missing(fu)
    else:
        R.fn(fu)
        pubs = [c.bb for c in fb.calls if not c.indirect and c.decl.endswith("::maybe_update_active_path") and c.bb in fb.live_blocks()]
        nots = [c for c in fb.calls if not c.indirect and c.decl.endswith("Notify::notify_waiters") and c.bb in fb.live_blocks()]
        okp = bool(pubs) and bool(nots) and all(any(fb.dominates(p0, c.bb) for p0 in pubs) for c in nots)
        R.ob("ORDER-publish", "fetch_and_update: maybe_update_active_path dominates every notify_waiters (%d publish, %d notify)" % (len(pubs), len(nots)), okp, True,
             {"rule": "ORDER-publish", "fn": fu, "publish_calls": len(pubs), "notify_calls": len(nots), "holds": okp})
        if not okp:
            R.violation("ORDER-publish", fu, "waiters of a lookup are woken before its result is published to the active-path slot: a woken waiter (or a fresh "
                        "caller) finds no active path and no error and returns NoPathsFound although the lookup succeeded", F.loc(PS + "PathSet::<F>::fetch_and_update"))

    # ---- M: worker exit path
    task = PS + "PathSet::<F>::manage::{closure#0}"
    b = F.body(task)
    if b is None:
        R.anchor_missing(task)
    else:
        R.fn(task)
        notifies = [c.bb for c in b.calls if not c.indirect and c.decl.endswith("Notify::notify_waiters")]
        rets = [x for x in b.live_blocks() if b.term(x)[0] == "ret"]
        ok, bad = T.must_pass(b, rets, notifies)
        ok = ok and bool(notifies) and bool(rets)
        clears = [c.bb for c in b.calls if not c.indirect and c.decl.endswith("ArcSwapAny::<T, S>::store") and "field:active_path" in tokens(b.origin(c.args[0]))]
        ok2, _ = T.must_pass(b, rets, clears)
        ok2 = ok2 and bool(clears)
        R.ob("MUST-exit-notify", "worker task: every return passes notify_waiters", ok, True)
        R.ob("MUST-exit-notify", "worker task: every return passes active_path.store(None)", ok2, True)
        if not ok:
            R.violation("MUST-exit-notify", task + "/notify", "the worker task can exit without waking waiters", F.loc(PS + "PathSet::<F>::manage"))
        if not ok2:
            R.violation("MUST-exit-notify", task + "/clear-active", "the worker task can exit leaving a stale active path", F.loc(PS + "PathSet::<F>::manage"))
        # the task holds only a weak manager reference and re-upgrades
        maint = [p for p in bodies if p.startswith(task)]
        ups = 0
        cancels = 0
        for p in maint:
            pb = F.body(p)
            ups += len(pb.calls_to(lambda n: n.endswith("MultiPathManagerRef::<F>::upgrade")))
            cancels += len(pb.calls_to(lambda n: n.endswith("CancellationToken::cancelled")))
        R.ob("WMC-weak", "worker re-upgrades its weak manager reference (%d sites) and polls cancelled() (%d)" % (ups, cancels), ups >= 3 and cancels >= 1, True)
        if ups < 3:
            R.violation("WMC-weak", task + "/upgrade", "worker no longer re-checks that the manager is alive at each wake-up", F.loc(PS + "PathSet::<F>::manage"))
        if cancels < 1:
            R.violation("WMC-weak", task + "/cancelled", "worker no longer polls the cancellation token", F.loc(PS + "PathSet::<F>::manage"))
    adt = F.adts.get(PS + "PathSet")
    if adt:
        fld = [f for f in adt["variants"][0][2] if f[0] == "manager"]
        ok = bool(fld) and "MultiPathManagerRef" in fld[0][1]
        ref = F.adts.get("scion_stack::path::manager::MultiPathManagerRef")
        ok = ok and ref is not None and "alloc::sync::Weak<" in ref["variants"][0][2][0][1]
        R.ob("WMC-weak", "PathSet.manager is a Weak reference (type fact)", ok, True)
        if not ok:
            R.violation("WMC-weak", "PathSet.manager/type", "the worker holds a strong manager reference: dropping the manager no longer stops it", None)
    else:
        R.anchor_missing("PathSet struct")

    # ---- W: single creation
    manage = PS + "PathSet::<F>::manage"
    sites = [(p, c) for (p, c) in T.call_sites(F, manage, crates=["scion_stack"])]
    R.floor("WMC-manage", len(sites), 1, "PathSet::manage call sites")
    for (p, c) in sites:
        pb = F.body(p)
        def pred(tk, o, g):
            return o[0] == "disc" and any(t.endswith("::entry_sync") for t in tk) and "field:managed_paths" in tk
        entry_adt = None
        ok, g = T.guarded_by(pb, c.bb, pred, [1])
        ok = ok and p.endswith("::ensure_managed_paths")
        R.ob("WMC-manage", "manage() called only in the Vacant arm of managed_paths.entry_sync (%s)" % short(p), ok, True)
        if not ok:
            R.violation("WMC-manage", p + "/manage", "a path-set worker can be created outside the vacant-entry arm (duplicate workers)", c.span.loc)
    spawns = [(p, c) for (p, c) in T.call_sites(F, lambda n: n.endswith("tokio::spawn") or n.endswith("task::spawn::spawn"), crates=["scion_stack"])
              if p.startswith("scion_stack::path::manager")]
    for (p, c) in spawns:
        ok = p == manage
        R.ob("WMC-manage", "tokio::spawn in %s" % short(p), ok, True)
        if not ok:
            R.violation("WMC-manage", p + "/spawn", "path manager spawns a task outside PathSet::manage", c.span.loc)
    R.floor("WMC-spawn", len(spawns), 1, "tokio::spawn sites in path::manager")
    drop = [p for p, e in F.fns.items() if e.get("trait_item") == "core::ops::drop::Drop::drop" and "PathSetTask" in (e.get("self_ty") or "")]
    okd = False
    for p in drop:
        pb = F.body(p)
        cs = pb.calls_to(lambda n: n.endswith("CancellationToken::cancel"))
        rets = [x for x in pb.live_blocks() if pb.term(x)[0] == "ret"]
        if cs and rets and T.must_pass(pb, rets, [c.bb for c in cs])[0]:
            okd = True
    R.ob("WMC-cancel", "PathSetTask::drop cancels the token on every path", okd, True)
    if not okd:
        R.violation("WMC-cancel", "PathSetTask::drop", "dropping the task entry no longer cancels the worker", None)

    # ---- no forced termination of the worker: its exit block (clear in-progress flags, notify waiters, publish the
    # error, clear the active path) runs only when the coroutine returns; JoinHandle::abort kills it at its next await
    ABORT = lambda n: n in ("tokio::runtime::task::join::JoinHandle::<T>::abort", "tokio::runtime::task::abort::AbortHandle::abort",
                            "tokio::task::join_set::JoinSet::<T>::abort_all", "tokio::task::join_set::JoinSet::<T>::shutdown")
    # positive control: the matcher must recognise the abort calls the workspace is known to contain elsewhere
    # (underlay discovery / SNAP underlay socket task handles), otherwise this zero-count rule is vacuous
    ctl = T.call_sites(F, ABORT, crates=["scion_stack"])
    R.floor("WMC-no-abort-control", len([1 for (p, c) in ctl if not p.startswith(("scion_stack::path::manager", "<scion_stack::path::manager"))]), 2,
            "JoinHandle::abort calls elsewhere in scion-stack (matcher positive control)")
    bad = [(p, c) for (p, c) in ctl if p.startswith(("scion_stack::path::manager", "<scion_stack::path::manager"))]
    R.ob("WMC-no-abort", "no JoinHandle/AbortHandle::abort on a path-set worker anywhere in path::manager", not bad, True)
    for (p, c) in bad:
        R.violation("WMC-no-abort", p + "/" + short(c.decl),
                    "a path-set worker is aborted (%s): its exit block never runs, so waiters are not woken and handles report no error" % short(c.decl), c.span.loc)



AWAIT_DESUGAR = re.compile(r"(::new_unchecked|::get_context|Future::poll|IntoFuture::into_future|::branch|::from_residual)$")
WAITERS = re.compile(r"MultiPathManager::<F>::(path|path_wait|cached_path)::\{closure#0\}$|PathSetHandle::(await_ongoing_update|wait_initialized|active_path)::\{closure#0\}$")


def _sccs(b):
    import sys as _s
    _s.setrecursionlimit(20000)
    idx, low, st, on, out, c = {}, {}, [], set(), [], [0]

    def dfs(v):
        idx[v] = low[v] = c[0]
        c[0] += 1
        st.append(v)
        on.add(v)
        for w in b.succ[v]:
            if w not in idx:
                dfs(w)
                low[v] = min(low[v], low[w])
            elif w in on:
                low[v] = min(low[v], idx[w])
        if low[v] == idx[v]:
            comp = []
            while True:
                w = st.pop()
                on.discard(w)
                comp.append(w)
                if w == v:
                    break
            if len(comp) > 1 or v in b.succ[v]:
                out.append(comp)
    for v in sorted(b.live_blocks()):
        if v not in idx:
            dfs(v)
    return out


def no_spin_rule(F, R):
    """WAIT-no-spin: a caller waiting for a path is parked on the completion notification; the only loops in the waiting
    functions are the poll loops of their `.await`s.  A retry loop around the wait (re-check, yield, try again) has no bound:
    when the state it waits for is never reached — a finished lookup that selected no path and set no error — the caller
    spins forever instead of getting its answer."""
    n = 0
    for p in sorted(F.all_body_paths("scion_stack")):
        if not WAITERS.search(p):
            continue
        b = F.body(p)
        R.fn(p)
        for comp in _sccs(b):
            n += 1
            extra = sorted({short(c.decl) for c in b.calls if c.bb in comp and not c.indirect and not AWAIT_DESUGAR.search(c.decl)})
            ok = not extra
            R.ob("WAIT-no-spin", "%s: loop of %d blocks is a bare await poll loop" % (short(p), len(comp)), ok, True,
                 {"rule": "WAIT-no-spin", "fn": p, "blocks": len(comp), "other_calls_in_loop": extra, "holds": ok})
            if not ok:
                R.violation("WAIT-no-spin", p, "%s contains a retry loop around its wait (calls inside the loop: %s): a caller can spin forever after the lookup "
                            "it waited for has finished" % (short(p), extra[:5]), F.loc(p.replace("::{closure#0}", "")))
    R.floor("WAIT-no-spin", n, 4, "await poll loops in path / active_path / await_ongoing_update / wait_initialized")
