"""C16 — path policy languages mean what their specification says (side clauses: totality and termination structure)."""
import re

import templates as T
import panic as PN
import facts as FX
from facts import tokens, fmt, short, walk, strip_sites, op_place, const_int

CRATES = ["sciparse"]

EXPLANATION = (
    "No claim is made about which paths a policy allows (language equality with the documented semantics is a value "
    "property). Decided: the statement's last clause, 'parsing and matching always terminate without panicking', through its "
    "shape-level necessary conditions. (PANIC) panic-site reachability from every policy entry point discovered from the "
    "impl tables: the FromStr / Display / serde impls of AclPolicy, AclEntry, AclEntryOperator, HopPredicate, "
    "InterfacesPredicate, HopPatternPolicy, their parse()/matches() functions, Policy::matches, PathPolicy::path_allowed "
    "impls, PathPolicyHop::hops_from_path, the lexer/parser and ParseError::report — every expect/unwrap, slice/str index, "
    "as_chunks and arithmetic helper site is discharged by a dominating guard, a std fact (first item of a fresh split "
    "iterator), or an individually reviewed table entry with a re-verified guard. (REC) structural recursion of the "
    "matcher: every recursive call of HopPatternExpression::match_from / all_nested_matches made from match_from passes a "
    "strict sub-expression of self (a boxed field reached through a variant downcast), and all_nested_matches calls "
    "match_from only on its `inner` parameter and never itself. (WL) work-list discipline of all_nested_matches: every "
    "insertion into the next frontier is on the not-contained edge of `all.contains(&n)` and is accompanied by "
    "`all.insert(n)` on that edge. (POS) positions stay in a finite universe: every position match_from inserts into a "
    "result set is its own `pos` or `pos + 1` under the guard `pos < hops.len()`."
)
EXPLANATION_ADD = " Additions: (FIRST-MATCH) only a non-matching entry continues the ACL scan; (RT-hop-predicate) a parsed predicate with an interface part structurally has an AS part; (PAREN-reset) no recursive parse_expr call inherits the caller's binding power; (OR-union) both alternation arms are matched on every path through the Or arm of match_from."
EXPLANATION = EXPLANATION + EXPLANATION_ADD
RESIDUAL = [
    "hop-pattern language equality with the documented operators (values over all pattern/path pairs); of the ACL first-match clause only the scan structure is decided (FIRST-MATCH), not the predicate semantics",
    "print/parse round trip of hop predicates and insensitivity to redundant parentheses beyond the two necessary conditions RT-hop-predicate and PAREN-reset; whitespace",
    "parser termination as a token-consumption argument (every loop iteration of parse_expr consumes a token): listed, not proved",
]
ASSUMPTIONS = ["BTreeSet / Vec / String operations of std do not panic except for the indexed forms in the PANIC callee table",
               "str::split / splitn(n >= 1) yield at least one item (std contract)"]
TECHNIQUE = "panic-site reachability; structural-recursion, work-list and position-universe rules on MIR origin trees and dominance"

POL = "sciparse::scion::path::policy::"


def entries(F):
    out = []
    for p, e in sorted(F.fns.items()):
        if T.is_test_support(p) or e["kind"] not in ("Fn", "AssocFn"):
            continue
        st = e.get("self_ty") or ""
        inpol = p.startswith(POL) or p.startswith("<" + POL) or st.startswith(POL)
        if not inpol:
            continue
        ti = e.get("trait_item") or ""
        nm = p.split("::")[-1]
        if ti in ("core::str::traits::FromStr::from_str", "core::fmt::Display::fmt", "core::convert::TryFrom::try_from",
                  "serde_core::de::Deserialize::deserialize", "serde_core::ser::Serialize::serialize") \
                or ti.endswith("PathPolicy::path_allowed") or ti.endswith("PathPolicy::predicate") \
                or (e.get("vis") == "pub" and nm in ("parse", "matches", "match_from", "hops_from_path", "report", "tokenize", "path_allowed")):
            out.append(p)
    return out


def run(F, R, tier, cfg):
    ents = entries(F)
    R.extra["entries"] = ents
    PN.check_entries(F, R, "C16", ents, cfg)
    matcher_rules(F, R)
    first_match_rule(F, R)
    hop_predicate_roundtrip_rule(F, R)
    paren_reset_rule(F, R)


H = POL + "hop_pattern::HopPatternExpression::"
MF, ANM = H + "match_from", H + "all_nested_matches"


def _strict_sub(t):
    """t is (a reference to) a boxed field of *param#1 reached through a variant downcast"""
    t = PN._peel_refs(t)
    for n in walk(t):
        if n[0] == "downcast":
            inner = PN._peel_refs(n[1])
            if inner == ("param", 1):
                return True
    return False


def matcher_rules(F, R):
    mb, ab = F.body(MF), F.body(ANM)
    if mb is None or ab is None:
        R.anchor_missing(MF if mb is None else ANM)
        return
    R.fn(MF)
    R.fn(ANM)
    # ---- REC
    rec = [(c, 0) for c in mb.calls_to(MF)] + [(c, 2) for c in mb.calls_to(ANM)]
    R.floor("REC", len(rec), 4, "recursive calls in match_from (Or x2, Optional, OneOrMore, ZeroOrMore)")
    for (c, ai) in rec:
        o = mb.origin(c.args[ai])
        ok = _strict_sub(o)
        R.ob("REC", "match_from → %s on %s" % (short(c.decl), fmt(o, 60)), ok, True, {"rule": "REC", "loc": c.span.loc, "receiver": fmt(o, 100), "holds": ok})
        if not ok:
            R.violation("REC", MF + "/" + fmt(FX.strip_sites(o), 60), "recursive matcher call on something that is not a strict sub-expression of self (%s): "
                        "matching may not terminate" % fmt(o, 80), c.span.loc)
    # ---- OR-union: alternation denotes the union of both languages: both arms are matched on every path through the Or arm
    # (neither recursive call is skipped depending on the other's result)
    arms = {}
    for (c, ai) in rec:
        f = fmt(FX.strip_sites(mb.origin(c.args[ai])), 80)
        m = re.search(r"as Or\)\.(\d)", f)
        if m:
            arms.setdefault(m.group(1), []).append(c)
    R.floor("OR-union", len(arms), 2, "Or arms matched recursively in match_from")
    if len(arms) == 2 and all(len(v) == 1 for v in arms.values()):
        ca, cb = arms["0"][0], arms["1"][0]
        pd = mb.pdom
        def _pdoms(x, y):          # does block x post-dominate block y (w.r.t. normal returns)
            return x in pd.get(y, ())
        oku = (_pdoms(cb.bb, ca.bb) and mb.dominates(ca.bb, cb.bb)) or (_pdoms(ca.bb, cb.bb) and mb.dominates(cb.bb, ca.bb))
        R.ob("OR-union", "match_from: both alternation arms are matched on every path through the Or arm", oku, True,
             {"rule": "OR-union", "blocks": [ca.bb, cb.bb], "holds": oku})
        if not oku:
            R.violation("OR-union", MF + "/or-arm-skipped", "one alternation arm is matched only on some paths (depending on the other arm's result): "
                        "`a | b` no longer denotes the union of both languages", cb.span.loc)
    elif arms:
        R.ob("OR-union", "undecided: Or arms matched at %s sites" % {k: len(v) for k, v in arms.items()}, True, True)
    inner_calls = ab.calls_to(MF)
    R.floor("REC-inner", len(inner_calls), 2, "match_from calls in all_nested_matches")
    for c in inner_calls:
        o = PN._peel_refs(ab.origin(c.args[0]))
        ok = o == ("param", 3)
        R.ob("REC", "all_nested_matches → match_from on its `inner` parameter", ok, True)
        if not ok:
            R.violation("REC", ANM + "/receiver", "all_nested_matches matches with an expression other than its inner parameter: %s" % fmt(o, 80), c.span.loc)
    selfrec = ab.calls_to(ANM)
    R.ob("REC", "all_nested_matches does not call itself", not selfrec, True)
    for c in selfrec:
        R.violation("REC", ANM + "/self-recursion", "all_nested_matches calls itself", c.span.loc)
    # ---- WL
    sets = {}
    for c in ab.calls:
        if c.indirect or "BTreeSet" not in c.decl:
            continue
        nm = c.decl.split("::")[-1]
        if nm in ("insert", "contains", "extend", "append"):
            pl = op_place(c.args[0])
            root = None
            if pl is not None:
                root = pl[0]
                for d in ab.defs.get(pl[0], ()):
                    if d[0] == "assign" and d[4][0] == "ref":
                        root = d[4][2][0]
            sets.setdefault(nm, []).append((c, root))
    names = {r: ab.local_name(r) for lst in sets.values() for (_, r) in lst if r is not None}
    all_l = [r for r, n in names.items() if n == "all"]
    next_l = [r for r, n in names.items() if n == "next"]
    contains = [(c, r) for (c, r) in sets.get("contains", [])]
    inserts = sets.get("insert", [])
    # identify the visited set as the receiver of contains(); the frontier set as the other insert receiver
    vis = {r for (_, r) in contains}
    ins_vis = [(c, r) for (c, r) in inserts if r in vis]
    ins_next = [(c, r) for (c, r) in inserts if r not in vis]
    R.floor("WL", len(ins_next), 1, "insertions into the next frontier in all_nested_matches")
    for (c, r) in ins_next:
        def cpred(tk, o, g):
            return o[0] == "call" and o[1].endswith("BTreeSet::<T, A>::contains")
        # the insertion must lie on the false edge of all.contains(&n)
        ok, g = T.guarded_by(ab, c.bb, cpred, [0])
        val = FX.strip_sites(ab.origin(c.args[1]))
        same = False
        paired = False
        if ok:
            go = ab.origin(ab.term(g)[1])
            same = FX.strip_sites(PN._peel_refs(go[2][1])) == FX.strip_sites(PN._peel_refs(val)) or fmt(PN._peel_refs(go[2][1]), 300) == fmt(PN._peel_refs(val), 300)
            for (c2, r2) in ins_vis:
                if (ab.dominates(c2.bb, c.bb) or ab.dominates(c.bb, c2.bb)) and T.guarded_by(ab, c2.bb, cpred, [0])[0] \
                        and fmt(PN._peel_refs(ab.origin(c2.args[1])), 300) == fmt(PN._peel_refs(val), 300):
                    paired = True
        good = ok and same and paired
        R.ob("WL", "next.insert(n) only when !all.contains(&n), together with all.insert(n)", good, True,
             {"rule": "WL", "loc": c.span.loc, "guard_block": g, "same_value": same, "paired_all_insert": paired, "holds": good})
        if not good:
            R.violation("WL", ANM + "/frontier-insert", "a position can be put on the next frontier without the visited-set test (guarded=%s, same value=%s, "
                        "recorded in the visited set=%s): a nullable body under `+`/`*` makes the fixpoint loop run forever" % (ok, same, paired), c.span.loc)
    # no other growth of the frontier/visited sets inside the loop
    # ---- POS
    pos_ins = [c for c in mb.calls if not c.indirect and c.decl.endswith("BTreeSet::<T, A>::insert")]
    R.floor("POS", len(pos_ins), 3, "position insertions in match_from")
    for c in pos_ins:
        v = PN.strip_casts(mb.origin(c.args[1]))
        ok = v == ("param", 3)
        how = "pos"
        if not ok:
            if v[0] == "field" and v[2] == "0" and v[1][0] == "bin":
                v = ("bin", v[1][1].replace("WithOverflow", ""), v[1][2], v[1][3])
            if v[0] == "bin" and v[1] in ("Add", "AddUnchecked") and v[2] == ("param", 3) and PN.const_eval(v[3]) == 1:
                how = "pos + 1 under pos < hops.len()"
                for g, cond, pol in PN._cmp_guards(mb, c.bb):
                    n = PN._norm_cmp(cond, pol)
                    if n and n[0] == "Lt" and n[1] == ("param", 3) and PN._canon_len(FX.strip_sites(n[2])) == ("len", ("param", 2)):
                        ok = True
        R.ob("POS", "match_from inserts %s" % how, ok, True, {"rule": "POS", "loc": c.span.loc, "value": fmt(mb.origin(c.args[1]), 60), "holds": ok})
        if not ok:
            R.violation("POS", MF + "/" + fmt(FX.strip_sites(mb.origin(c.args[1])), 40), "match_from yields a position that is neither pos nor pos + 1 under pos < hops.len() "
                        "(%s): the visited set's universe is no longer finite / bounded by the hop count" % fmt(mb.origin(c.args[1]), 60), c.span.loc)



ACLM = POL + "acl::AclPolicy::matches"
ENTRY_MATCH = POL + "acl::AclEntry::matches"
AMR = POL + "acl::AclMatchResult"


def first_match_rule(F, R):
    """FIRST-MATCH: "the first entry whose predicate matches the hop decides".  Every call of AclEntry::matches inside
    AclPolicy::matches (and its closures) feeds a three-way decision on the AclMatchResult discriminant in which exactly
    the Impartial arm goes on to the next entry of the same scan; the Allow and the Deny arm both leave the scan.  A scan
    that folds Deny into "no match" (`entries.iter().any(|e| e.matches(hop) == Allow)`) lets a later, broader allow entry
    override an earlier deny."""
    adt = F.adts.get(AMR)
    if adt is None:
        R.anchor_missing(AMR)
        return
    disc = {v[0]: v[1] for v in adt["variants"]}
    fns = [p for p in [ACLM] + list(F.closure_children(ACLM)) if F.has_body(p)]
    fns += [q for p in list(fns) for q in F.closure_children(p) if F.has_body(q) and q not in fns]
    n = 0
    for p in fns:
        b = F.body(p)
        for c in b.calls:
            if c.indirect or (c.res or c.decl) != ENTRY_MATCH or c.bb not in b.live_blocks():
                continue
            n += 1
            R.fn(p)
            # the iterator `next` that produced the entry, and the creation of that iterator
            eo = b.origin(c.args[0])
            nexts = [x[5] for x in walk(eo) if x[0] == "call" and len(x) > 5 and x[1].endswith("Iterator>::next")]
            inits = [x[5] for x in walk(eo) if x[0] == "call" and len(x) > 5 and re.search(r"::(into_iter|iter)$", x[1])]
            sw = None
            for g in sorted(b.live_blocks()):
                t = b.term(g)
                if t[0] == "switch":
                    o = b.origin(t[1])
                    if o[0] == "disc" and any(x[0] == "call" and len(x) > 5 and x[5] == c.bb for x in walk(o)):
                        sw = (g, t)
            ok, why = False, ""
            if sw is None or not nexts:
                why = "the result is not decided three-way on its discriminant inside a scan loop (folded into a boolean, or the scan is an iterator adaptor)"
            else:
                g, t = sw
                arms = {v: tg for v, tg in t[2]}
                cont = {}
                for name, d in disc.items():
                    tg = arms.get(d, t[3])
                    cont[name] = tg is not None and nexts[0] in b.reach([tg], avoid=set(inits))
                ok = cont.get("Impartial") and not cont.get("Allow") and not cont.get("Deny")
                why = "arms that go on to the next entry: %s" % sorted(k for k, v in cont.items() if v)
            R.ob("FIRST-MATCH", "%s: only a non-matching entry continues the scan (%s)" % (short(p), why), bool(ok), True,
                 {"rule": "FIRST-MATCH", "fn": p, "loc": c.span.loc, "detail": why, "holds": bool(ok)})
            if not ok:
                R.violation("FIRST-MATCH", p, "ACL evaluation in %s is not first-match: %s" % (short(p), why), c.span.loc)
    R.floor("FIRST-MATCH", n, 1, "AclEntry::matches calls in AclPolicy::matches")


HP_FROMSTR = "<sciparse::scion::path::policy::types::HopPredicate as core::str::traits::FromStr>::from_str"
HP_ADT = "sciparse::scion::path::policy::types::HopPredicate"


def hop_predicate_roundtrip_rule(F, R):
    """RT-hop-predicate: "hop predicates survive printing and re-parsing".  The printed grammar is ISD[-AS][#IF]; the parser
    reads an interface part only after an AS part.  So a parsed predicate that carries an interface predicate must carry
    an AS (Some) — otherwise Display prints `ISD#IF`, which the parser rejects.  Decided on every Ok(HopPredicate{..}) the
    parser builds: `interfaces` is the constant Any, or `asn` is structurally Some(parsed AS) (not a value-dependent Option)."""
    b = F.body(HP_FROMSTR)
    adt = F.adts.get(HP_ADT)
    if b is None or adt is None:
        R.anchor_missing(HP_FROMSTR if b is None else HP_ADT)
        return
    R.fn(HP_FROMSTR)
    names = [f[0] for f in adt["variants"][0][2]]
    n = 0
    for bb in sorted(b.live_blocks()):
        for st in b.stmts(bb):
            if st[0] == "=" and st[2][0] == "agg" and st[2][1][0] == "adt" and st[2][1][1] == HP_ADT:
                n += 1
                ops = dict(zip(names, st[2][2]))
                oa = strip_sites(b.origin(ops["asn"]))
                oi = strip_sites(b.origin(ops["interfaces"]))
                any_if = "InterfacesPredicate::Any" in fmt(oi, 200) and not any(x[0] == "call" for x in walk(oi))
                some_asn = oa[0] == "agg" and oa[1][0] == "adt" and oa[1][2] == "Some"
                ok = any_if or some_asn
                R.ob("RT-hop-predicate", "parsed predicate: interfaces=%s, asn=%s" % ("Any" if any_if else "parsed", fmt(oa, 60)), ok, True,
                     {"rule": "RT-hop-predicate", "loc": b.span_of(st[3]).loc, "asn": fmt(oa, 120), "interfaces": fmt(oi, 120), "holds": ok})
                if not ok:
                    R.violation("RT-hop-predicate", HP_FROMSTR, "the parser can build a predicate with an interface part whose AS part is not necessarily present (%s): "
                                "it prints as ISD#IF, which the parser itself rejects" % fmt(oa, 100), b.span_of(st[3]).loc)
    R.floor("RT-hop-predicate", n, 3, "HopPredicate constructions in FromStr")


PARSE_EXPR = "sciparse::scion::path::policy::hop_pattern::parser::HopPatternParser::<'a>::parse_expr"


def paren_reset_rule(F, R):
    """PAREN-reset: "redundant parentheses do not change a pattern's meaning": in the Pratt parser a parenthesised group is
    parsed with the lowest binding power, and operator right-hand sides with a power derived from the operator's constant;
    no recursive parse_expr call may inherit the caller's own `left_binding_power` — that would let the context outside the
    parentheses cut the group short."""
    b = F.body(PARSE_EXPR)
    if b is None:
        R.anchor_missing(PARSE_EXPR)
        return
    R.fn(PARSE_EXPR)
    rec = [c for c in b.calls if not c.indirect and (c.res or c.decl) == PARSE_EXPR and c.bb in b.live_blocks()]
    n_zero = 0
    for c in rec:
        o = strip_sites(b.origin(c.args[1]))
        tk = tokens(o)
        inherits = any(t.startswith("param:") for t in tk)
        named = any("BIND_POWER" in t for t in tk)
        if PN.const_eval(o) == 0:
            n_zero += 1
        ok = not inherits and (named or PN.const_eval(o) is not None)
        R.ob("PAREN-reset", "recursive parse_expr(%s) does not inherit the caller's binding power" % fmt(o, 60), ok, True,
             {"rule": "PAREN-reset", "loc": c.span.loc, "binding_power": fmt(o, 100), "holds": ok})
        if not ok:
            R.violation("PAREN-reset", PARSE_EXPR + "/inherit", "a nested expression is parsed with the caller's own left_binding_power (%s): the context outside a "
                        "parenthesised group ends the group early, so redundant parentheses change or destroy a pattern's meaning" % fmt(o, 80), c.span.loc)
    ok0 = n_zero >= 1
    R.ob("PAREN-reset", "a nested expression parsed with NO_BIND_POWER exists (the parenthesised group)", ok0, True)
    if not ok0:
        R.violation("PAREN-reset", PARSE_EXPR + "/no-reset", "no recursive call resets the binding power to NO_BIND_POWER: parentheses do not group", F.loc(PARSE_EXPR))
    R.floor("PAREN-reset", len(rec), 2, "recursive parse_expr calls (group, operator right-hand side)")
