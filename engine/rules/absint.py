"""Decision-table extraction by abstract evaluation over a finite input domain.

Used for TBL rules: small, pure, integer/enum-valued functions (`From<u8> for WireHostAddrType`,
`WireHostAddrType::size`, link-type tables …) are *tables written as code*.  For one concrete
assignment of the parameters the evaluator follows the CFG of the function's MIR, resolving only
what is determined by that assignment — switches on (arithmetic over) the inputs, constants,
fieldless-enum discriminants, aggregates of such values — and gives up (returns UNKNOWN) on anything
else (memory, calls without bodies, loops).  Enumerating the whole finite domain yields the
function's table, which a rule then compares with a spec table or with a sibling's table.
No scion-sdk code is executed: the evaluator works on the fact base.
"""
import facts as FX

UNKNOWN = ("?",)
W = {"u8": 8, "u16": 16, "u32": 32, "u64": 64, "usize": 64, "u128": 128, "i8": 8, "i16": 16, "i32": 32, "i64": 64, "isize": 64, "bool": 1}


def _mask(v, ty):
    if ty in W and not ty.startswith("i") and isinstance(v, int):
        return v & ((1 << W[ty]) - 1)
    return v


class Agg:
    __slots__ = ("adt", "variant", "idx", "fields", "names")

    def __init__(self, adt, variant, idx, fields, names):
        self.adt, self.variant, self.idx, self.fields, self.names = adt, variant, idx, fields, names

    def field(self, name):
        if self.names and name in self.names:
            return self.fields[self.names.index(name)]
        return UNKNOWN

    def __repr__(self):
        return "%s::%s%s" % (self.adt.split("::")[-1], self.variant, "{%s}" % ", ".join("%s" % (f,) for f in self.fields) if self.fields else "")


def eval_fn(F, fn, args, depth=4, steps=400):
    """args: list of values (int | Agg | UNKNOWN) for parameters 1..n.  Returns int | Agg | UNKNOWN."""
    b = F.body(fn)
    if b is None or depth < 0:
        return UNKNOWN
    env = {}
    for i, a in enumerate(args):
        env[i + 1] = a
    refs = {}      # local -> place it references (local, proj)

    def place_val(pl):
        l, proj = pl[0], pl[1]
        # dereference chains of refs
        cur = None
        base_l, base_proj = l, list(proj)
        guard = 0
        while base_proj and base_proj[0] == "*" and base_l in refs and guard < 8:
            rl, rp = refs[base_l]
            base_l, base_proj = rl, list(rp) + base_proj[1:]
            guard += 1
        if base_l not in env:
            return UNKNOWN
        cur = env[base_l]
        for p in base_proj:
            if p == "*":
                continue      # value semantics for refs to tracked values
            if isinstance(p, list) and p[0] == "f":
                if isinstance(cur, Agg):
                    cur = cur.fields[p[1]] if p[1] < len(cur.fields) else UNKNOWN
                elif isinstance(cur, tuple) and cur and cur[0] == "tuple":
                    cur = cur[1][p[1]] if p[1] < len(cur[1]) else UNKNOWN
                else:
                    return UNKNOWN
            elif isinstance(p, list) and p[0] == "dc":
                if isinstance(cur, Agg) and cur.variant == p[1]:
                    continue
                return UNKNOWN
            else:
                return UNKNOWN
        return cur

    def op_val(op):
        k = FX.op_const(op)
        if k is not None:
            v = k.get("v")
            if isinstance(v, bool):
                return int(v)
            if isinstance(v, int):
                return v
            if isinstance(v, str) and v.startswith("0x") and len(v) == 34 and str(k.get("ty", "")).endswith("::BitRange"):
                bts = bytes.fromhex(v[2:])
                return Agg(k["ty"], "BitRange", 0, [int.from_bytes(bts[:8], "little"), int.from_bytes(bts[8:], "little")], ["start", "end"])
            return UNKNOWN
        return place_val(op[1])

    def disc_of(v):
        if isinstance(v, Agg):
            adt = F.adts.get(v.adt)
            if adt:
                for var in adt["variants"]:
                    if var[0] == v.variant:
                        return var[1]
            return v.idx
        return UNKNOWN

    def rvalue(rv, ty):
        k = rv[0]
        if k == "use":
            return op_val(rv[1])
        if k == "cast" and rv[1] == "IntToInt":
            v = op_val(rv[2])
            return _mask(v, rv[4]) if isinstance(v, int) else UNKNOWN
        if k == "bin":
            a, c = op_val(rv[2]), op_val(rv[3])
            if not (isinstance(a, int) and isinstance(c, int)):
                return UNKNOWN
            op = rv[1].replace("Unchecked", "")
            ovf = op.endswith("WithOverflow")
            op = op.replace("WithOverflow", "")
            try:
                r = {"Add": a + c, "Sub": a - c, "Mul": a * c, "Div": a // c if c else None, "Rem": a % c if c else None,
                     "BitAnd": a & c, "BitOr": a | c, "BitXor": a ^ c, "Shl": a << c if 0 <= c < 128 else None, "Shr": a >> c if 0 <= c < 128 else None,
                     "Eq": int(a == c), "Ne": int(a != c), "Lt": int(a < c), "Le": int(a <= c), "Gt": int(a > c), "Ge": int(a >= c)}.get(op)
            except Exception:
                r = None
            if r is None:
                return UNKNOWN
            if ovf:
                m = _mask(r, ty.strip("()").split(",")[0].strip()) if ty else r
                return ("tuple", [m, int(m != r)])
            return _mask(r, ty) if ty in W else r
        if k == "un":
            v = op_val(rv[2])
            if isinstance(v, int) and rv[1] == "Not":
                return int(not v) if ty == "bool" else _mask(~v, ty)
            return UNKNOWN
        if k == "disc":
            return disc_of(place_val(rv[1]))
        if k == "agg":
            kind = rv[1]
            vals = [op_val(o) for o in rv[2]]
            if kind[0] == "adt":
                return Agg(kind[1], kind[2], kind[3], vals, kind[4] if len(kind) > 4 else None)
            if kind[0] == "tuple":
                return ("tuple", vals)
            return UNKNOWN
        return UNKNOWN

    cur = 0
    seen = {}
    for _ in range(steps):
        seen[cur] = seen.get(cur, 0) + 1
        if seen[cur] > 3:
            return UNKNOWN
        for st in b.stmts(cur):
            if st[0] == "=":
                l, proj = st[1]
                if st[2][0] in ("ref", "raw") and not proj:
                    refs[l] = (st[2][2][0], st[2][2][1])
                    env.pop(l, None)
                    continue
                v = rvalue(st[2], b.local_ty(l))
                if proj:
                    # field store into a tracked aggregate
                    if len(proj) == 1 and isinstance(proj[0], list) and proj[0][0] == "f" and isinstance(env.get(l), Agg):
                        a = env[l]
                        if proj[0][1] < len(a.fields):
                            a.fields[proj[0][1]] = v
                    else:
                        env.pop(l, None)
                else:
                    env[l] = v
            elif st[0] == "sd":
                env.pop(st[1][0], None)
        t = b.term(cur)
        k = t[0]
        if k in ("goto", "falseedge", "falseunwind"):
            cur = t[1]
        elif k == "drop":
            cur = t[2]
        elif k == "assert":
            cur = t[5]
        elif k == "switch":
            v = op_val(t[1])
            if not isinstance(v, int):
                return UNKNOWN
            arms = {a: tg for a, tg in t[2]}
            cur = arms.get(v, t[3])
        elif k == "call":
            kk = FX.op_const(t[1]) or {}
            callee = kk.get("res") or kk.get("fn")
            dest = t[3]
            r = UNKNOWN
            if callee and F.has_body(callee) and kk.get("rk") in ("item", None):
                r = eval_fn(F, callee, [op_val(a) for a in t[2]], depth - 1, steps)
            elif callee and callee.endswith(("::saturating_sub",)) and len(t[2]) == 2:
                a, c = op_val(t[2][0]), op_val(t[2][1])
                if isinstance(a, int) and isinstance(c, int):
                    r = max(0, a - c)
            if not dest[1]:
                env[dest[0]] = r
            if t[4] is None:
                return UNKNOWN
            cur = t[4]
        elif k == "ret":
            return env.get(0, UNKNOWN)
        else:
            return UNKNOWN
    return UNKNOWN
