"""Symbolic normal form of origin trees: inlining of workspace functions and algebraic simplification, so that two
expressions computed at different places (a size check and the size a constructor later reports) can be compared
structurally.  Nothing is executed; trees come from the MIR fact base."""
import re

import facts as FX
import panic as PN
from facts import strip_sites, tokens

INLINE_PREFIX = ("sciparse::",)


def nr(t):
    """remove every ref/deref node (place identity modulo reborrows)"""
    if not isinstance(t, tuple):
        return t
    if t and t[0] == "ref" and len(t) == 3:
        return nr(t[2])
    if t and t[0] == "deref" and len(t) == 2:
        return nr(t[1])
    return tuple(nr(x) for x in t)


def _field_names(F, kind):
    adt = F.adts.get(kind[1])
    if not adt:
        return None
    try:
        return [f[0] for f in adt["variants"][kind[3]][2]]
    except Exception:
        return None


def simplify(F, t):
    """bottom-up: field-of-aggregate projection, overflow-checked arithmetic to plain arithmetic, widening casts dropped,
    constants folded to ('k', value)"""
    if not isinstance(t, tuple) or not t:
        return t
    t = tuple(simplify(F, x) if isinstance(x, tuple) else x for x in t)
    k = t[0]
    if k in ("lit", "const"):
        v = PN.const_eval(t)
        if v is not None:
            return ("k", v)
        return t
    if k == "cast" and len(t) >= 3:
        inner = t[2]
        if inner[0] == "k":
            return inner
        return inner if str(t[1]).startswith("IntToInt") else t
    if k == "field" and len(t) == 3:
        base, name = t[1], t[2]
        if base[0] == "bin" and base[1].endswith("WithOverflow") and name == "0":
            return simplify(F, ("bin", base[1].replace("WithOverflow", ""), base[2], base[3]))
        if base[0] == "agg" and base[1][0] == "adt":
            names = _field_names(F, base[1])
            if names and name in names and names.index(name) < len(base[2]):
                return base[2][names.index(name)]
        if base[0] == "agg" and base[1][0] == "tuple" and str(name).isdigit() and int(name) < len(base[2]):
            return base[2][int(name)]
        return t
    if k == "bin" and len(t) == 4:
        op = t[1].replace("Unchecked", "")
        a, b = t[2], t[3]
        if a[0] == "k" and b[0] == "k":
            try:
                v = {"Add": a[1] + b[1], "Sub": a[1] - b[1], "Mul": a[1] * b[1], "Div": a[1] // b[1] if b[1] else None,
                     "Shl": a[1] << b[1], "Shr": a[1] >> b[1], "BitAnd": a[1] & b[1], "BitOr": a[1] | b[1]}.get(op)
            except Exception:
                v = None
            if v is not None and v >= 0:
                return ("k", v)
        if op in ("Add", "Mul", "BitAnd", "BitOr") and repr(b) < repr(a):
            a, b = b, a          # commutative: canonical operand order
        return ("bin", op, a, b)
    return t


def inline(F, t, depth=5):
    """replace calls of layout-module functions (layout constructors, size_bytes, range helpers — the size arithmetic) by
    their return expression with parameters substituted; view accessors and everything else stay opaque calls"""
    if not isinstance(t, tuple) or depth <= 0:
        return t
    if t and t[0] == "call" and F.has_body(t[1]) and "::layout::" in t[1] and not t[1].endswith("::min") \
            and not re.search(r"::try_from(_slice)?$", t[1]):
        hb = F.body(t[1])
        ro = strip_sites(hb.local_origin(0))
        if "top" not in tokens(ro) and hb.argc == len(t[2]):
            args = [inline(F, a, depth - 1) for a in t[2]]

            def sub(x):
                if not isinstance(x, tuple):
                    return x
                if x and x[0] == "param" and 1 <= x[1] <= len(args):
                    return args[x[1] - 1]
                return tuple(sub(y) if isinstance(y, tuple) else y for y in x)
            return inline(F, sub(ro), depth - 1)
    return tuple(inline(F, x, depth) if isinstance(x, tuple) else x for x in t)


def norm(F, t, depth=5):
    """normal form used for comparisons: inline, drop reborrows, simplify (to a fixpoint of two rounds)"""
    t = strip_sites(t)
    for _ in range(3):
        t2 = simplify(F, nr(inline(F, t, depth)))
        if t2 == t:
            break
        t = t2
    return t
