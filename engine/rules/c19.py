"""C19 — path combination tolerates arbitrary segment sets from the control plane.

Decided here (DESIGN.md section 5, C19):
  PANIC   no undischarged panic site in the call graph of combinator::combine /
          combine_with_weight_fn and PathFetcherImpl::fetch_paths;
  DEPTH   the work-list search is depth-bounded: valid_next_seg can return a non-false value only
          on an edge of a `edges.len() == k` test with k <= 2 (so a solution never has more than
          MAX_SEGMENTS = 3 edges), try_add_edge yields Some only on valid_next_seg's true edge and
          extends a clone of the current edge list by exactly one element outside any loop, and
          everything get_paths puts on the queue or into the result is such a Some payload;
  SKIP    edges are only added to the graph behind the Some edge of first_ia()/last_ia()
          ("segments without hops are skipped") — this is what the two
          `expect("Segments are checked to have at least one hop")` rely on;
  DROP    combine's result consists of PathSolution::path() values passed through
          `.ok().flatten()` — a solution that fails to encode or yields no path is dropped.
Not decided: the degree of the polynomial bound, consistency of returned paths with their metadata.
"""
import re

import templates as T
import panic as PN
import facts as FX
from facts import tokens, fmt, short, walk, strip_sites, op_place, const_int

# thorough tier: release configuration only — the dev-configuration pass reports the debug_assert! contract checks of the
# core helpers (unchecked read/write, BitRange alignment, View::try_from_*), which are reachable panic sites whose discharge is
# the call-site contract work listed in DESIGN.md 13.7; an untriaged pass is not registered
CRATES = ["sciparse", "scion_stack"]

EXPLANATION = (
    "(PANIC) panic-site reachability on rustc MIR from combinator::combine, combine_with_weight_fn and "
    "PathFetcherImpl::fetch_paths: every explicit panic, unwrap/expect, index, division site in their workspace call "
    "graph is discharged by a dominating guard, a constant argument or an individually reviewed table entry. "
    "(DEPTH) structural necessary conditions of termination within a polynomial bound: the segment-kind rule "
    "valid_next_seg returns a value other than constant false only on the true edge of an `edges.len() == k` test "
    "with k <= 2, i.e. every solution has at most 3 edges (equal to the evaluated StdPathMetaLayout::MAX_SEGMENTS, "
    "which also discharges the `valid path segment should always fit` panic); PathSolution::try_add_edge builds Some "
    "only on valid_next_seg's true edge, from a clone of self.edges plus exactly one push that is not on a CFG cycle; "
    "every value MultiGraph::get_paths pushes onto its work-list or into its result is the Some payload of "
    "try_add_edge, so the breadth-first search has depth <= 3 over a finite adjacency map. "
    "(SKIP) add_edge / add_directed_edge are called only from the segment-adding functions and every such call is "
    "dominated by the Some edge of last_ia()/first_ia() of the segment. "
    "(DROP) the closure that converts solutions in combine_with_weight_fn returns flatten(ok(path(s)))."
)
EXPLANATION_ADD = ' Additions: (ORDER-dedup) loop filter before de-duplication, which is last; (IDX-peer) the peer index is the position in the unadapted peer_entries.'
EXPLANATION = EXPLANATION + EXPLANATION_ADD
EXPLANATION_ADD6 = " Round-6 addition: (META-mtu/-expiry/-order/-if/-ends, shared with C04) 'consistent with their own metadata': the metadata of a returned path is computed from the very hop fields and AS entries that were put into the encoded path (expiry = StandardPath::expiration() of the encoded path, interface list in travel order, endpoints = first/last listed interface)."
EXPLANATION = EXPLANATION + EXPLANATION_ADD6
RESIDUAL = [
    "the degree of the polynomial bound (number of solutions is bounded by |edges|^3, not computed)",
    "that returned paths encode, parse back and are consistent with their metadata (values; C03/C04)",
    "arithmetic overflow panics of the dev configuration (weights, `len - 1 - shortcut_idx`) are listed, not decided",
]
ASSUMPTIONS = [
    "HashMap / VecDeque / Vec operations of std do not panic except for the indexed forms listed in the PANIC callee table",
    "join_all returns exactly one result per future (reviewed entry for segment_fetchers[i])",
]
TECHNIQUE = ("panic-site reachability over the resolved call graph; abstract evaluation of the slice-length tests of "
             "valid_next_seg; guarded success; provenance of work-list insertions; who-may-call")

COMB = "sciparse::scion::path::combinator::"
G = COMB + "graph::"
VNS = G + "PathSolution::<'a, EntryType>::valid_next_seg"
TAE = G + "PathSolution::<'a, EntryType>::try_add_edge"
GETP = G + "MultiGraph::<'a, F, EntryType>::get_paths"
MAXSEG = "sciparse::proto::dataplane_path::standard::layout::StdPathMetaLayout::MAX_SEGMENTS"


def _len_eq_test(body, b):
    """(k, true_target, false_target) if block b branches on `len(slice) == k`"""
    e = FX.bool_edges(body, b)
    if e is None:
        return None
    o = body.origin(body.term(b)[1])
    if o[0] != "bin" or o[1] != "Eq":
        return None
    a, c = o[2], o[3]
    if a[0] == "lit":
        a, c = c, a
    if c[0] != "lit" or not isinstance(c[1], int):
        return None
    a = PN.strip_casts(a)
    if a[0] == "un" and a[1] == "PtrMetadata" or (a[0] == "call" and a[1].endswith("::len")):
        return c[1], e[0], e[1], a
    return None


def depth_rule(F, R):
    b = F.body(VNS)
    if b is None:
        R.anchor_missing(VNS)
        return None
    R.fn(VNS)
    tests = []
    for bb in sorted(b.live_blocks()):
        t = _len_eq_test(b, bb)
        if t and "field:edges" in tokens(t[3]):
            tests.append((bb,) + t)
    R.floor("DEPTH-len-tests", len(tests), 1, "edges.len() == k tests in valid_next_seg")
    maxk = max([t[1] for t in tests], default=None)
    # CFG with the true edges of the len==k tests removed
    succ = [list(s) for s in b.succ]
    for (bb, k, tt, ff, _) in tests:
        succ[bb] = [s for s in succ[bb] if s != tt]
    rest = b.reach([0], succ=succ)
    bad = []
    for d in b.defs.get(0, ()):
        if d[1] not in rest:
            continue
        if d[0] == "assign" and not d[3] and d[4][0] == "use" and const_int(d[4][1]) == 0:
            continue
        bad.append(d)
    ok = bool(tests) and not bad
    R.ob("DEPTH", "valid_next_seg is constant false unless edges.len() == k for some k <= %s" % maxk, ok, True,
         {"rule": "DEPTH", "fn": VNS, "len_tests": [(t[0], t[1]) for t in tests], "max_k": maxk, "holds": ok})
    if not ok:
        loc = b.span_of(bad[0][5]).loc if bad and bad[0][0] == "assign" else F.loc(VNS)
        R.violation("DEPTH", VNS + "/unbounded-length",
                    "valid_next_seg can accept a next segment for a solution whose length is not pinned by an "
                    "`edges.len() == k` test: the search depth (and so termination) is no longer bounded", loc)
    mx = F.const_value(MAXSEG)
    ok2 = maxk is not None and isinstance(mx, int) and maxk + 1 <= mx
    R.ob("DEPTH", "max solution length %s <= StdPathMetaLayout::MAX_SEGMENTS (%s)" % (None if maxk is None else maxk + 1, mx), ok2, True)
    if not ok2:
        R.violation("DEPTH", VNS + "/max-segments",
                    "solutions may have %s edges but a standard path holds at most %s segments: PathSolution::path would hit "
                    "`valid path segment should always fit in the path`" % (None if maxk is None else maxk + 1, mx), F.loc(VNS))
    return maxk


def try_add_edge_rule(F, R):
    b = F.body(TAE)
    if b is None:
        R.anchor_missing(TAE)
        return
    R.fn(TAE)
    somes = [bb for (bb, idx, adt, var) in T.result_variant_defs(b) if adt == "core::option::Option" and var == "Some"]

    def pred(tk, o, g):
        return ("fn:" + VNS) in tk
    ok, info = T.gs_check(b, somes, pred)
    # polarity: the Some exits must lie on the true edge
    if ok:
        for g in info["guards"]:
            e = FX.bool_edges(b, g)
            if e is None or any(s in b.reach([e[1]], avoid=[g]) for s in somes):
                ok = False
                info["why"] = "a Some exit is reachable from the false edge of valid_next_seg"
    R.ob("DEPTH", "try_add_edge returns Some only on the true edge of valid_next_seg", ok, True,
         {"rule": "GS", "fn": TAE, "guards": info.get("guards"), "some_exits": somes, "holds": ok})
    if not ok:
        R.violation("DEPTH", TAE + "/unguarded-some", "try_add_edge can extend a solution without valid_next_seg: %s" % info.get("why"), F.loc(TAE), info)
    # the new edge list = clone(self.edges) + one push outside loops
    for bb in somes:
        for d in b.defs.get(0, ()):
            if d[1] != bb or d[0] != "assign":
                continue
            o = b._rvalue_origin(d[4], 12, frozenset())
            sol = o[2][0] if o[0] == "agg" and o[2] else None
            edges = sol[2][0] if sol is not None and sol[0] == "agg" and sol[1][0] == "adt" and sol[1][1].endswith("::PathSolution") else None
            isclone = edges is not None and edges[0] == "call" and edges[1].endswith("::clone") and "field:edges" in tokens(edges) and "param:1" in tokens(edges)
            R.ob("DEPTH", "Some(PathSolution{edges}) takes edges = clone(self.edges)", bool(isclone), True,
                 {"rule": "FLOW", "fn": TAE, "edges_origin": fmt(edges, 160) if edges else None})
            if not isclone:
                R.violation("DEPTH", TAE + "/edges-origin", "the extended solution's edge list is not a clone of self.edges (%s)"
                            % (fmt(edges, 120) if edges else fmt(o, 120)), b.span_of(d[5]).loc)
    pushes = [c for c in b.calls_to(lambda n: n.endswith("Vec::<T, A>::push") or n.endswith("::extend") or n.endswith("::extend_from_slice") or n.endswith("::append") or n.endswith("::insert"))
              if c.bb in b.live_blocks()]
    one = len(pushes) == 1 and pushes[0].decl.endswith("::push") and pushes[0].bb not in b.reach(b.succ[pushes[0].bb])
    R.ob("DEPTH", "try_add_edge grows the edge list by exactly one push, not on a CFG cycle", one, True)
    if not one:
        R.violation("DEPTH", TAE + "/growth", "try_add_edge grows the edge list by other than exactly one element (%d growth calls)" % len(pushes), F.loc(TAE))


def worklist_rule(F, R):
    b = F.body(GETP)
    if b is None:
        R.anchor_missing(GETP)
        return
    R.fn(GETP)
    sinks = b.calls_to(lambda n: n.endswith("VecDeque::<T, A>::push_back") or n.endswith("VecDeque::<T, A>::push_front")
                       or n.endswith("Vec::<T, A>::push") or n.endswith("::extend") or n.endswith("::insert") or n.endswith("::append"))
    sinks = [c for c in sinks if c.bb in b.live_blocks() and not c.span.external_macro("sciparse")]
    R.floor("DEPTH-worklist", len(sinks), 2, "queue/result insertions in get_paths")
    for c in sinks:
        o = b.origin(c.args[1]) if len(c.args) > 1 else FX.TOP
        tk = tokens(o)
        # payload of the Some of try_add_edge, and dominated by that Some edge
        from_tae = ("fn:" + TAE) in tk and o[0] in ("field", "downcast", "deref") or (o[0] == "field" and ("fn:" + TAE) in tk)

        def pred(tk2, oo, g):
            return oo[0] == "disc" and ("fn:" + TAE) in tk2
        gok, g = T.guarded_by(b, c.bb, pred, [1])
        ok = bool(from_tae and gok)
        R.ob("DEPTH", "get_paths: %s receives the Some payload of try_add_edge" % short(c.decl), ok, True,
             {"rule": "FLOW", "fn": GETP, "loc": c.span.loc, "argument": fmt(o, 160), "guard_block": g})
        if not ok:
            R.violation("DEPTH", GETP + "/" + short(c.decl),
                        "get_paths inserts a solution that did not come from a successful try_add_edge (%s): the depth bound "
                        "no longer covers the work-list" % fmt(o, 140), c.span.loc)
    # the initial queue content is the single empty solution
    init = b.calls_to(lambda n: n.endswith("::from") and "VecDeque" in n)
    R.extra["worklist_init_sites"] = len(init)


def skip_rule(F, R):
    adders = {"add_edge": G + "MultiGraph::<'a, F, EntryType>::add_edge", "add_directed_edge": G + "MultiGraph::<'a, F, EntryType>::add_directed_edge"}
    for n, p in adders.items():
        if p not in F.fns:
            R.anchor_missing(p)
    allowed = {G + "MultiGraph::<'a, F, EntryType>::add_core_segment", G + "MultiGraph::<'a, F, EntryType>::add_non_core_segment",
               adders["add_edge"]}
    sites = T.call_sites(F, set(adders.values()), crates=["sciparse"])
    R.floor("SKIP", len(sites), 5, "add_edge/add_directed_edge call sites")
    for (p, c) in sites:
        R.fn(p)
        if p not in allowed:
            R.ob("SKIP", "edge insertion in %s" % short(p), False, True)
            R.violation("SKIP", p + "/" + short(c.decl), "graph edges are added outside add_core_segment/add_non_core_segment (%s)" % p, c.span.loc)
            continue
        if p == adders["add_edge"]:
            R.ob("SKIP", "add_edge forwards to add_directed_edge (guarded at its callers)", True, True)
            continue
        pb = F.body(p)

        def pred(tk, o, g):
            return any(t.startswith("fn:") and t.endswith("::last_ia") for t in tk)
        ok, g = T.guarded_by(pb, c.bb, pred, [1])
        if not ok:
            # `let (Some(a), Some(b)) = (first_ia, last_ia) else { return Err }`: the tuple is matched field-wise
            ok = _guarded_by_all(pb, c.bb, pred)
        R.ob("SKIP", "%s in %s is behind the Some edge of last_ia()" % (short(c.decl), short(p)), ok, True,
             {"rule": "GS", "fn": p, "loc": c.span.loc, "guard_block": g})
        if not ok:
            R.violation("SKIP", p + "/" + short(c.decl) + "/unguarded",
                        "an edge is added for a segment without checking that it has at least one hop (last_ia() is Some): "
                        "`expect(\"Segments are checked to have at least one hop\")` in path()/initialize_segment_id can panic", c.span.loc)


def _guarded_by_all(body, site, pred):
    """site dominated by a switch on the discriminant of a value whose origin mentions the guard, leaving via its Some(1) edge"""
    for g in sorted(body.dom.get(site, ())):
        t = body.term(g)
        if t[0] != "switch" or const_int(t[1]) is not None:
            continue
        o = body.origin(t[1])
        if o[0] != "disc" or not pred(tokens(o), o, g):
            continue
        arms = {v: tg for v, tg in t[2]}
        some_t = arms.get(1, t[3])
        others = [s for s in body.succ[g] if s != some_t]
        if others and all(site not in body.reach([s], avoid=[g]) for s in others):
            return True
    return False


def drop_rule(F, R):
    parent = COMB + "combine_with_weight_fn"
    kids = [k for k in F.closure_children(parent)]
    PATHFN = G + "PathSolution::<'a, EntryType>::path"
    found = 0
    for k in kids:
        kb = F.body(k)
        if kb is None or not kb.calls_to(PATHFN):
            continue
        found += 1
        R.fn(k)
        o = strip_sites(kb.local_origin(0))
        ok = (o[0] == "call" and o[1].endswith("::flatten") and o[2][0][0] == "call" and o[2][0][1].endswith("Result::<T, E>::ok")
              and o[2][0][2][0][0] == "call" and o[2][0][2][0][1] == PATHFN)
        R.ob("DROP", "solution→path closure returns flatten(ok(path(s)))", ok, True, {"rule": "FLOW", "fn": k, "origin": fmt(o, 160)})
        if not ok:
            R.violation("DROP", k, "combine no longer drops solutions whose path() fails or is None: closure returns %s" % fmt(o, 140), F.loc(k))
    R.floor("DROP", found, 1, "closures calling PathSolution::path in combine_with_weight_fn")


def run(F, R, tier, cfg):
    entries = [COMB + "combine", COMB + "combine_with_weight_fn"]
    entries += [p for p, e in F.fns.items() if (e.get("trait_item") or "").endswith("fetcher::traits::PathFetcher::fetch_paths") and p.startswith("<scion_stack::path::fetcher::PathFetcherImpl")]
    entries += [p for p in F.all_body_paths() if p.startswith("<scion_stack::path::fetcher::PathFetcherImpl as scion_stack::path::fetcher::traits::PathFetcher>::fetch_paths::")]
    R.floor("PANIC-entries", len(entries), 4, "combine entries + fetch_paths coroutine")
    PN.check_entries(F, R, "C19", sorted(set(entries)), cfg)
    depth_rule(F, R)
    try_add_edge_rule(F, R)
    worklist_rule(F, R)
    skip_rule(F, R)
    drop_rule(F, R)
    continue_rule(F, R)
    key_rule(F, R)
    order_rule(F, R)
    enum_index_rule(F, R)
    # 'consistent with their own metadata': the META-* rules are shared with C04
    import c04
    c04.meta_rules(F, R)


ADD_SEG = G + "MultiGraph::<'a, F, EntryType>::add_segment"
SHORT_CIRCUIT = ("::map_while", "::take_while", "::try_for_each", "::try_fold", "::all", "::any", "::find", "::find_map", "::position", "::skip_while", "::scan")


def continue_rule(F, R):
    """CONT: "segments that cannot contribute are ignored without affecting the others": the outcome of add_segment for
    one segment must not decide whether later segments are added — in a loop both edges of the branch on its result lead
    back to the next iteration; in a closure the closure is handed to a non-short-circuiting iterator adaptor."""
    sites = T.call_sites(F, ADD_SEG, crates=["sciparse"])
    R.floor("CONT", len(sites), 1, "add_segment call sites")
    for (p, c) in sites:
        b = F.body(p)
        R.fn(p)
        e = F.fns.get(p, {})
        ok, why = True, "loop continues on both outcomes"
        if e.get("kind") == "Closure":
            root = e.get("root")
            rb = F.body(root) if root else None
            ok, why = False, "closure not found at an iterator adaptor"
            if rb is not None:
                for rc in rb.calls:
                    if rc.indirect:
                        continue
                    direct = [a for a in rc.args if rb.origin(a)[0] == "agg" and rb.origin(a)[1][0] == "closure" and rb.origin(a)[1][1] == p]
                    if direct:
                        nm = "::" + rc.decl.split("::")[-1]
                        ok = nm not in SHORT_CIRCUIT
                        why = "closure passed to Iterator%s" % nm
        else:
            # blocks that start the next iteration: Iterator::next calls on a cycle with the call
            nxt = [x.bb for x in b.calls if not x.indirect and x.decl.endswith("::next") and c.bb in b.reach(b.succ[x.bb]) and x.bb in b.reach(b.succ[c.bb])]
            if not nxt:
                ok, why = False, "add_segment is not called from an iterator-driven loop"
            else:
                for g in sorted(b.reach(b.succ[c.bb])):
                    t = b.term(g)
                    if t[0] != "switch" or const_int(t[1]) is not None:
                        continue
                    if ("fn:" + ADD_SEG) not in tokens(b.origin(t[1])):
                        continue
                    for sx in b.succ[g]:
                        if not any(n in b.reach([sx]) or n == sx for n in nxt):
                            ok, why = False, "an outcome of add_segment leaves the loop (edge bb%d→bb%d never reaches the next iteration)" % (g, sx)
        R.ob("CONT", "add_segment in %s: %s" % (short(p), why), ok, True, {"rule": "CONT", "fn": p, "loc": c.span.loc, "how": why, "holds": ok})
        if not ok:
            R.violation("CONT", p + "/add_segment", "a segment that cannot be added stops the remaining segments from being added (%s): unusable "
                        "segments are no longer ignored without affecting paths built from the others" % why, c.span.loc)


def key_rule(F, R):
    """KEY: the adjacency maps are keyed by &InputSegment; the reviewed peer-index invariant ("an edge is stored with the
    segment it was computed for") needs key equality to be structural over the whole segment — derived PartialEq/Hash."""
    for tr, item in (("core::cmp::PartialEq", "eq"), ("core::hash::Hash", "hash")):
        cands = [q for q, e in F.fns.items() if e.get("trait_item") == tr + "::" + item and (e.get("self_ty") or "").startswith(G + "InputSegment")]
        if len(cands) != 1:
            R.anchor_missing("impl %s for InputSegment (found %d)" % (tr, len(cands)))
            continue
        fn = cands[0]
        sp = F.fn_span(fn)
        ok = bool(sp.mac) and ("derive(" + tr.split("::")[-1] + ")") in sp.mac
        R.ob("KEY", "InputSegment: %s is derived (structural over the referenced PathSegment)" % tr.split("::")[-1], ok, True,
             {"rule": "KEY", "impl": fn, "origin": sp.mac or "hand-written", "holds": ok})
        if not ok:
            R.violation("KEY", fn, "InputSegment has a hand-written %s: two different segments can collide as adjacency-map keys, so an Edge{peer: Some(i)} "
                        "ends up stored with another segment and `peer_entries.get(i).expect(..)` in PathSolution::path can panic or pick the wrong peer"
                        % tr.split("::")[-1], sp.loc)



ADAPTERS = re.compile(r"::(filter|filter_map|skip|skip_while|take|take_while|step_by|rev|chain|flat_map|flatten|scan|map_while|peekable|dedup\w*|sorted\w*)$")


def order_rule(F, R):
    """ORDER-dedup: in combine_with_weight_fn de-duplication is the last step and its input is already loop-filtered.
    filter_duplicates keeps, per fingerprint (interface ids only), the entry with the later expiry; if looping paths are
    still in its input a looping path can displace a valid one with the same fingerprint and be dropped afterwards."""
    p = COMB + "combine_with_weight_fn"
    b = F.body(p)
    if b is None:
        R.anchor_missing(p)
        return
    R.fn(p)
    o = b.local_origin(0)
    alts = [a for a in o[1] if isinstance(a, tuple)] if o[0] == "phi" else [o]
    dd = [a for a in alts if a[0] == "call" and a[1].endswith("::filter_duplicates")]
    other = [a for a in alts if a not in dd and not (a[0] == "call" and re.search(r"::(new|default)$", a[1]))]
    ok_last = bool(dd) and not other
    ok_in = False
    for a in dd:
        for n in walk(a[2][0]):
            if n[0] == "call" and re.search(r"::(filter|retain)$", n[1]) and len(n[2]) == 2:
                cl = [x[1][1] for x in walk(n[2][1]) if x[0] == "agg" and isinstance(x[1], tuple) and len(x[1]) > 1 and "{closure#" in str(x[1][1])]
                for q in cl:
                    qb = F.body(q)
                    if qb is not None and any(c.decl.endswith("::has_loops") for c in qb.calls if not c.indirect):
                        ok_in = True
    ok = ok_last and ok_in
    R.ob("ORDER-dedup", "combine_with_weight_fn returns filter_duplicates(loop-filtered paths)", ok, True,
         {"rule": "ORDER-dedup", "fn": p, "dedup_is_last": ok_last, "input_loop_filtered": ok_in, "holds": ok})
    if not ok:
        R.violation("ORDER-dedup", p, "de-duplication is not the last step over loop-filtered paths (last: %s, input filtered by has_loops: %s): a looping "
                    "path with the same interface fingerprint and a later expiry displaces a valid path and is then dropped" % (ok_last, ok_in), F.loc(p))


def enum_index_rule(F, R):
    """IDX-peer: the peer index stored in graph edges is the position in `entry.peer_entries` (PathSolution::path indexes
    that vector with it), so the enumerate() that produces it must run directly over peer_entries.iter() — an adapter
    (filter, skip, rev …) in between shifts the positions."""
    n = 0
    for p in F.all_body_paths("sciparse"):
        if "::combinator::graph::" not in p or T.is_test_support(p):
            continue
        b = F.body(p)
        for c in b.calls:
            if c.indirect or not c.decl.endswith("Iterator::enumerate") or c.bb not in b.live_blocks():
                continue
            o = strip_sites(b.origin(c.args[0]))
            if "field:peer_entries" not in tokens(o):
                continue
            n += 1
            R.fn(p)
            x = o
            while x[0] == "call" and re.search(r"::into_iter$", x[1]) and x[2]:
                x = PN._peel_refs(x[2][0])
            direct = False
            if x[0] == "call" and re.search(r"::iter$", x[1]) and x[2]:
                y = PN._peel_refs(x[2][0])
                while y[0] == "call" and re.search(r"::(deref|as_slice|as_ref)$", y[1]) and y[2]:
                    y = PN._peel_refs(y[2][0])
                direct = y[0] == "field" and y[2] == "peer_entries"
            R.ob("IDX-peer", "%s: peer index = position in peer_entries (enumerate directly over peer_entries.iter())" % short(p), direct, True,
                 {"rule": "IDX-peer", "fn": p, "loc": c.span.loc, "enumerated": fmt(o, 160), "holds": direct})
            if not direct:
                R.violation("IDX-peer", p, "the peer index is produced by enumerate() over an adapted iterator (%s) but used to index the unadapted "
                            "peer_entries: the peering hop is built from the wrong entry" % fmt(o, 120), c.span.loc)
    R.floor("IDX-peer", n, 1, "enumerate() over peer_entries in the combinator graph")
