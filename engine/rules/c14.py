"""C14 — SCMP handling: bounded quoting, valid checksums, faithful echo, no error loops."""
import re
import templates as T
import panic as PN
import enc as ENC
from facts import tokens, fmt, short, walk, strip_sites, const_int

CRATES = ["sciparse", "scion_stack", "pocketscion", "snap_dataplane"]

EXPLANATION = (
    "(Q) bounded quoting: SCMP_ERROR_MAX_PACKET_SIZE evaluates to 1232; each of the five *Layout::from_offending_packet_length "
    "constructors has the origin tree HEADER + min(len, sat_sub(sat_sub(1232, hdr), HEADER)) with the same HEADER constant in "
    "both places (sibling template); every SCMP error model derives both required_size and the copy range in encode_unchecked "
    "from that constructor with (offending_packet.len(), header_and_extensions_size) and copies exactly the layout's "
    "offending-packet range from a prefix of the model's bytes; the unbounded *Layout::new is not used on encode paths. "
    "(K) checksum: in every SCMP/UDP PayloadEncode::encode_unchecked the write of CHECKSUM_RNG whose value is "
    "ChecksumDigest::with_pseudoheader(address_header, <protocol of the family>, buf[..len]).add_slice(buf[..len]).checksum() "
    "— the digest covers the pseudo-header AND the message bytes (with_pseudoheader alone folds in only the length of its "
    "buffer argument) — is the last write to the buffer on every path. (E) echo: every EchoReply is built from identifier/sequence_number/data of the same request "
    "view; the reply goes back to the request's source over the reversed path. (L) no error loops: every construction of an "
    "SCMP reply packet whose message can be an error is dominated by the not-is_error edge of a test on the triggering "
    "packet; ScmpHandler impls return Some only under the EchoRequest discriminant."
)
EXPLANATION_ADD = " Additions: (CK-zero) as in C03 for all SCMP encoders; (SIB-demux) the view's and the model's dst_port closures decide identically (same result expression, same branch conditions)."
EXPLANATION = EXPLANATION + EXPLANATION_ADD
EXPLANATION_ADD5 = " Round-5 additions: (FANOUT-all) Subscribers::for_each, through which ScmpErrorHandler::handle reaches the receivers, iterates the whole receiver list (no map_while/take_while/take/skip/step_by adaptor), continues with the next receiver when Weak::upgrade fails and calls the callback with the upgraded receiver on the Some edge only; (BUF-scmp) the scratch buffer of every socket receive loop (UDP datagram loops that dispatch SCMP to the handlers, SCMP sockets, raw socket: 5 sites) is vec![0; N] with N a constant >= 1232 independent of the caller's buffer."
EXPLANATION = EXPLANATION + EXPLANATION_ADD5
RESIDUAL = ["checksum arithmetic beyond the carry folds (C03 residual)", "receiver-side delivery semantics of SCMP errors to application receivers beyond the demultiplexing key (SIB-demux)"]
ASSUMPTIONS = ["an SCMP packet handed to ScmpScionSocket::send_to_via is application-originated, not a reply"]
TECHNIQUE = "sibling origin-tree templates, post-dominance of the checksum write, provenance of echo fields, guarded construction"

LAY = "sciparse::proto::payload::scmp::layout::"
MAXC = LAY + "SCMP_ERROR_MAX_PACKET_SIZE"
WRITE = "sciparse::core::write::unchecked_bit_range_be_write"
SCMP_NEW = "sciparse::proto::packet::model::ScionPacket::<sciparse::proto::payload::scmp::model::ScmpMessage>::new"
APP_ORIGINATED = ("scion_stack::stack::socket::ScmpScionSocket::send_to_via",)
INFO_ADTS = ("ScmpMessage::EchoReply", "ScmpMessage::TracerouteReply", "ScmpMessage::EchoRequest", "ScmpMessage::TracerouteRequest",
             "ScmpInformationalMessage::")


def _inline(F, t, depth=3):
    """replace calls of small workspace helpers by their return expression (parameters substituted), so that a
    behaviour-preserving extraction of the budget arithmetic into a helper function is seen through"""
    if not isinstance(t, tuple) or depth <= 0:
        return t
    if t and t[0] == "call" and F.has_body(t[1]) and t[1].startswith("sciparse::") and not t[1].endswith("::min"):
        hb = F.body(t[1])
        ro = strip_sites(hb.local_origin(0))
        if "top" not in tokens(ro) and hb.argc == len(t[2]):
            args = [_inline(F, a, depth - 1) for a in t[2]]

            def sub(x):
                if not isinstance(x, tuple):
                    return x
                if x and x[0] == "param" and 1 <= x[1] <= len(args):
                    return args[x[1] - 1]
                return tuple(sub(y) if isinstance(y, tuple) else y for y in x)
            return _inline(F, sub(ro), depth - 1)
    return tuple(_inline(F, x, depth) if isinstance(x, tuple) else x for x in t)


def _cv(t):
    """constant value of a lit / const / constant expression node"""
    return PN.const_eval(t)


def quote_template(F, o):
    """payload_length must be  H + min(p1, sat_sub(sat_sub(1232, p2), H))  with the SAME numeric H in both places
    (constants are compared by value, helper functions are inlined)"""
    o = _inline(F, strip_sites(o))
    if o[0] != "agg" or len(o[2]) != 1:
        return False, "not a single-field layout"
    e = PN.strip_casts(o[2][0])
    if e[0] == "field" and e[2] == "0" and e[1][0] == "bin":
        e = ("bin", e[1][1].replace("WithOverflow", ""), e[1][2], e[1][3])
    if e[0] != "bin" or e[1] != "Add":
        return False, "payload_length is not HEADER + …"
    h, m = e[2], e[3]
    if _cv(h) is None:
        h, m = m, h
    H = _cv(h)
    if H is None:
        return False, "no constant header addend"
    if h[0] == "const" and not h[1].endswith("::HEADER_SIZE_BYTES"):
        return False, "header addend is not the layout's HEADER_SIZE_BYTES"
    if m[0] != "call" or not (m[1].endswith("::min")) or len(m[2]) != 2:
        return False, "second addend is not min(..)"
    a, b = m[2]
    if a != ("param", 1):
        a, b = b, a
    if a != ("param", 1):
        return False, "min() does not take the offending packet length"
    if b[0] != "call" or not b[1].endswith("::saturating_sub") or _cv(b[2][1]) != H:
        return False, "budget subtracts %s, the layout's header is %s bytes" % (_cv(b[2][1]) if b[0] == "call" and len(b[2]) > 1 else "?", H)
    c = b[2][0]
    if c[0] != "call" or not c[1].endswith("::saturating_sub") or _cv(c[2][0]) != 1232 or c[2][1] != ("param", 2):
        return False, "budget is not sat_sub(1232, header_and_extensions_size)"
    return True, ""


def run(F, R, tier, cfg):
    demux_sibling_rule(F, R)
    fanout_rule(F, R)
    scratch_rule(F, R)
    # ---------------- Q
    v = F.const_value(MAXC)
    R.ob("TBL-1232", "SCMP_ERROR_MAX_PACKET_SIZE == 1232 (evaluated: %s)" % v, v == 1232, True)
    if v != 1232:
        R.violation("TBL-1232", MAXC, "SCMP_ERROR_MAX_PACKET_SIZE evaluates to %s, the SCMP spec says 1232" % v, None)
    ctors = [p for p in F.fns if p.startswith(LAY) and p.endswith("::from_offending_packet_length")]
    R.floor("SIB-quote", len(ctors), 5, "*Layout::from_offending_packet_length constructors")
    for p in ctors:
        b = F.body(p)
        R.fn(p)
        o = strip_sites(b.local_origin(0))
        ok, why = quote_template(F, o)
        R.ob("SIB-quote", "%s == HEADER + min(len, sat_sub(sat_sub(1232, hdr), HEADER))" % short(p), ok, True,
             {"rule": "SIB-quote", "fn": p, "origin": fmt(b.local_origin(0), 300), "holds": ok})
        if not ok:
            R.violation("SIB-quote", p, "quoting budget of %s deviates from the template: %s (%s)" % (short(p), why, fmt(b.local_origin(0), 200)), F.loc(p))
    enc = [p for p, e in F.fns.items() if (e.get("trait_item") or "").endswith("PayloadEncode::encode_unchecked") and e["_crate"] == "sciparse" and not T.is_test_support(p)]
    req = {e.get("self_ty"): p for p, e in F.fns.items() if (e.get("trait_item") or "").endswith("PayloadEncode::required_size") and e["_crate"] == "sciparse"}
    n_err = 0
    for p in enc:
        b = F.body(p)
        sty = F.fns[p].get("self_ty")
        adt = F.adts.get(F.fns[p].get("self_adt") or "", None)
        has_off = bool(adt) and any(f[0] == "offending_packet" for f in adt["variants"][0][2]) and adt["kind"] == "struct"
        if not has_off:
            continue
        n_err += 1
        R.fn(p)
        lc = [c for c in b.calls if not c.indirect and c.decl.endswith("::from_offending_packet_length")]
        ok = len(lc) >= 1
        for c in lc:
            a0, a1 = b.origin(c.args[0]), b.origin(c.args[1])
            ok = ok and a0[0] == "call" and a0[1].endswith("::len") and "field:offending_packet" in tokens(a0) and a1 == ("param", 4)
        # copy: destination range and source prefix both from that layout
        cps = [c for c in b.calls if not c.indirect and c.decl.endswith("::copy_from_slice")]
        okc = bool(cps)
        for c in cps:
            d, s = tokens(b.origin(c.args[0])), b.origin(c.args[1])
            okc = okc and any(t.endswith("::offending_packet_rng") for t in d) and any(t.endswith("::from_offending_packet_length") for t in d)
            stk = tokens(s)
            okc = okc and "field:offending_packet" in stk and any(t.endswith("::offending_packet_rng") for t in stk)
            # source is a RangeTo prefix
            okc = okc and any(n[0] == "agg" and n[1][0] == "adt" and n[1][1].endswith("::RangeTo") for n in walk(s))
        news = [c for c in b.calls if not c.indirect and c.decl.startswith(LAY) and c.decl.endswith("Layout::new")]
        rq = req.get(sty)
        okr = False
        if rq:
            rb = F.body(rq)
            ro = rb.local_origin(0)
            fl = [n for n in walk(ro) if n[0] == "call" and n[1].endswith("::from_offending_packet_length")]
            okr = bool(fl) and all(n[2][0][0] == "call" and n[2][0][1].endswith("::len") and "field:offending_packet" in tokens(n[2][0]) and n[2][1] == ("param", 2) for n in fl)
            okr = okr and not [c for c in rb.calls if not c.indirect and c.decl.startswith(LAY) and c.decl.endswith("Layout::new")]
        good = ok and okc and okr and not news
        R.ob("SIB-quote-encode", "%s: required_size and the copy both derive from from_offending_packet_length(len, hdr)" % short(p), good, True)
        if not good:
            R.violation("SIB-quote-encode", p, "SCMP error model %s can emit more than the 1232-byte budget / inconsistent sizes (layout ctor ok=%s, copy ok=%s, required_size ok=%s, unbounded Layout::new used=%s)"
                        % (sty, ok, okc, okr, bool(news)), F.loc(p))
    R.floor("SIB-quote-encode", n_err, 5, "SCMP error models (with an offending_packet field)")

    # ---------------- K
    n_ck = 0
    for p in enc:
        b = F.body(p)
        sty = F.fns[p].get("self_ty") or ""
        writes = [c for c in b.calls if not c.indirect and c.decl == WRITE]
        if not writes:
            continue        # dispatcher (enum / reference) or raw bytes
        if "::scmp::" in sty:
            proto = "ProtocolNumber::Scmp"
        elif "::udp::" in sty:
            proto = "ProtocolNumber::Udp"
        else:
            continue
        n_ck += 1
        R.fn(p)
        cks = []
        uncovered = []
        for c in writes:
            r = b.origin(c.args[1])
            val = tokens(b.origin(c.args[2]))
            if r[0] == "const" and r[1].endswith("::CHECKSUM_RNG") and any(t.endswith("ChecksumDigest::checksum") for t in val) \
                    and any(t.endswith("ChecksumDigest::with_pseudoheader") for t in val):
                wp = [n for n in walk(b.origin(c.args[2])) if n[0] == "call" and n[1].endswith("ChecksumDigest::with_pseudoheader")]
                okp = bool(wp) and "param:3" in tokens(wp[0][2][0]) and any(t.endswith(proto) for t in tokens(wp[0][2][1]) if t.startswith("adt:")) \
                    and "param:2" in tokens(wp[0][2][2])
                # the digest must cover the message bytes themselves: with_pseudoheader only folds in the pseudo-header and
                # the *length* of its buffer argument, so add_slice(message) has to be applied to it (or with_pseudoheader's
                # own body must add its buffer parameter)
                adds = [n for n in walk(b.origin(c.args[2])) if n[0] == "call" and n[1].endswith("ChecksumDigest::add_slice")]
                covered = _wp_adds_data(F) or (bool(adds) and all("param:2" in tokens(n[2][1]) for n in adds)
                                               and any(strip_sites(_unref14(n[2][1])) == strip_sites(_unref14(wp[0][2][2])) for n in adds if wp))
                if okp and not covered:
                    uncovered.append(p)
                if okp and covered:
                    cks.append(c)
        ok = bool(cks)
        if ok:
            ckb = [c.bb for c in cks]
            # no buffer write after the checksum write
            others = [c for c in b.calls if not c.indirect and c not in cks and (c.decl == WRITE or c.decl.endswith("::copy_from_slice")
                      or c.decl.endswith("::encode_unchecked") or c.decl.endswith("::fill")) and c.args and "param:2" in tokens(b.origin(c.args[0]))]
            after = b.reach([s for k in ckb for s in b.succ[k]])
            late = [c for c in others if c.bb in after]
            rets = [x for x in b.live_blocks() if b.term(x)[0] == "ret"]
            mp, _ = T.must_pass(b, rets, ckb)
            ok = not late and mp
        R.ob("POST-checksum", "%s: checksum(with_pseudoheader(addr, %s, buf[..len]).add_slice(buf[..len])) is the last write" % (short(p), proto), ok, True)
        if uncovered:
            R.violation("FLOW-checksum-data", p, "%s computes its checksum over the pseudo-header only: the digest never receives the message bytes "
                        "(no add_slice(buf[..len]) on it), so the checksum does not verify for any receiver that sums the whole message" % short(p), F.loc(p))
        elif not ok:
            R.violation("POST-checksum", p, "%s does not finish with the checksum over the %s pseudo-header (or writes the buffer after it)" % (short(p), proto), F.loc(p))
    R.floor("POST-checksum", n_ck, 11, "SCMP/UDP encode_unchecked impls writing fields")

    # ---------------- E: echo
    echo_new = T.call_sites(F, lambda n: n.endswith("ScmpEchoReply::new"), crates=["scion_stack", "pocketscion", "snap_dataplane"])
    R.floor("FLOW-echo", len(echo_new), 2, "ScmpEchoReply::new sites (stack echo handler, simulator)")
    for (p, c) in echo_new:
        pb = F.body(p)
        R.fn(p)
        o = [pb.origin(a) for a in c.args]
        def acc(t, name):
            return t[0] == "call" and t[1].endswith("::" + name)
        ok = acc(o[0], "identifier") and acc(o[1], "sequence_number")
        d = [n for n in walk(o[2]) if n[0] == "call" and n[1].endswith("::data")]
        ok = ok and bool(d)
        if ok:
            # the three receivers are the same request view (compared to a uniform depth: the data
            # operand sits one call deeper, so its tree hits the depth limit earlier)
            r0 = _cut(strip_sites(o[0][2][0]), 6)
            ok = _cut(strip_sites(o[1][2][0]), 6) == r0 and _cut(strip_sites(d[0][2][0]), 6) == r0 and "top" not in tokens(r0)
        R.ob("FLOW-echo", "EchoReply in %s = (identifier, sequence_number, data) of one request" % short(p), ok, True,
             {"rule": "FLOW-echo", "fn": p, "args": [fmt(x, 100) for x in o], "holds": ok})
        if not ok:
            R.violation("FLOW-echo", p, "echo reply fields do not all come from the request: %s" % [fmt(x, 80) for x in o], c.span.loc)
    # addressing of the stack's echo reply
    te = "scion_stack::stack::scmp_handler::echo::DefaultEchoHandler::try_echo_reply"
    tb = F.body(te)
    if tb is None:
        R.anchor_missing(te)
    else:
        for c in tb.calls_to(SCMP_NEW):
            o = [tb.origin(a) for a in c.args]
            ok = any(t.endswith("::dst_scion_addr") for t in tokens(o[0])) and any(t.endswith("::src_scion_addr") for t in tokens(o[1])) \
                and any(t.endswith("::try_into_reversed") for t in tokens(o[2])) and any(t.endswith("ScionHeaderView::path") or t.endswith("::path") for t in tokens(o[2]))
            R.ob("FLOW-echo", "echo reply: src=request dst, dst=request src, path=reversed request path", ok, True)
            if not ok:
                R.violation("FLOW-echo", te + "/addressing", "the echo reply is not addressed back over the reversed path", c.span.loc)
    ms = "pocketscion::network::local::simulator::maybe_create_scmp_reply"
    mb = F.body(ms)
    if mb is None:
        R.anchor_missing(ms)
    else:
        for c in mb.calls_to(SCMP_NEW):
            o = [mb.origin(a) for a in c.args]
            revs = [x for x in mb.calls if not x.indirect and x.decl.endswith("::try_reverse")]
            pl = T.op_place(c.args[2])
            ok = any(t.endswith("::src_scion_addr") for t in tokens(o[1])) and bool(revs)
            if ok and pl is not None:
                roots = _move_roots(mb, pl[0])
                ok = any(mb.dominates(x.bb, c.bb) and any(_refs_local(mb, x.args[0], r) for r in roots) for x in revs)
            R.ob("FLOW-echo", "simulator reply: dst=request src, path reversed before use", ok, True)
            if not ok:
                R.violation("FLOW-echo", ms + "/addressing", "the simulator's SCMP reply is not sent back to the requester over the reversed path", c.span.loc)

    # ---------------- L: no error loops
    sites = T.call_sites(F, SCMP_NEW, crates=["scion_stack", "pocketscion", "snap_dataplane"])
    n = 0
    for (p, c) in sites:
        if any(p.startswith(a) for a in APP_ORIGINATED):
            continue
        pb = F.body(p)
        n += 1
        R.fn(p)
        mo = pb.origin(c.args[3])
        alts = mo[1] if mo[0] == "phi" else (mo,)
        def _info(a):
            return a[0] == "agg" and a[1][0] == "adt" and a[1][1].endswith("::scmp::model::ScmpMessage") and a[1][2] in ("EchoReply", "TracerouteReply", "EchoRequest", "TracerouteRequest")
        if alts and all(_info(a) for a in alts):
            R.ob("GS-no-error-loop", "%s builds only informational replies (%s)" % (short(p), sorted(a[1][2] for a in alts)), True, True)
            continue
        ok, why = _error_guarded(F, p, c.bb, 3)
        R.ob("GS-no-error-loop", "SCMP reply construction in %s guarded by a not-an-SCMP-error test of the triggering packet" % short(p), ok, True,
             {"rule": "GS-no-error-loop", "fn": p, "loc": c.span.loc, "how": why, "holds": ok})
        if not ok:
            R.violation("GS-no-error-loop", p, "an SCMP error can be sent in response to a packet that is itself an SCMP error: %s" % why, c.span.loc,
                        {"message_origin": fmt(mo, 200)})
    R.floor("GS-no-error-loop", n, 3, "SCMP reply packet constructions")
    # ScmpHandler impls
    hs = [p for p, e in F.fns.items() if (e.get("trait_item") or "").endswith("scmp_handler::ScmpHandler::handle") and e["_crate"] == "scion_stack" and not T.is_test_support(p)]
    R.floor("GS-handler", len(hs), 2, "ScmpHandler::handle impls")
    for p in hs:
        b = F.body(p)
        R.fn(p)
        somes = [d for d in b.defs.get(0, ()) if d[0] == "assign" and d[4][0] == "agg" and d[4][1][0] == "adt" and d[4][1][2] == "Some"]
        if not somes:
            R.ob("GS-handler", "%s never replies" % short(p), True, True)
            continue
        ok = True
        for d in somes:
            tk = tokens(b.origin(d[4][2][0]))
            if not any(t.endswith("::try_echo_reply") for t in tk):
                ok = False
        # try_echo_reply: Some only under the EchoRequest discriminant
        if tb is not None:
            somes2 = [bb for (bb, idx, adt, var) in T.result_variant_defs(tb) if var == "Ok"]
            mv = F.adts.get("sciparse::proto::payload::scmp::view::ScmpMessageView")
            if mv:
                er = [x[1] for x in mv["variants"] if x[0] == "EchoRequest"]
                def mp(tk, o, g):
                    return o[0] == "disc" and any(t.endswith("::message") for t in tk)
                for c in tb.calls_to(SCMP_NEW):
                    g_ok, g = T.guarded_by(tb, c.bb, mp, er)
                    ok = ok and g_ok
            else:
                ok = False
        R.ob("GS-handler", "%s replies only to EchoRequest" % short(p), ok, True)
        if not ok:
            R.violation("GS-handler", p, "SCMP handler can reply to something other than an echo request", F.loc(p))


_pred_memo = {}


FOR_EACH = "scion_stack::internal::Subscribers::<T>::for_each"
_NONTERM = r"::(iter|into_iter|iter_mut|filter_map|filter|map|flat_map|flatten|cloned|copied|by_ref|inspect|deref|read|expect|unwrap|clone|lock)$"
_TERM = r"Iterator::(map_while|take_while|take|skip|skip_while|step_by|scan|fuse|peekable|find\w*|position|any|all|nth|last)$"


def fanout_rule(F, R):
    """FANOUT-all: "SCMP errors reach the application-side receivers".  ScmpErrorHandler::handle hands the error to
    Subscribers::for_each, which must call the closure for every live receiver.  (a) the adaptor chain between the
    receiver list and the loop contains no adaptor that ends or thins the iteration (map_while / take_while / take /
    skip / step_by ...); (b) in the loop, the edge on which `Weak::upgrade` is None returns to `next` — a dropped receiver
    is skipped, not a reason to stop; (c) the callback is invoked on the Some edge with the upgraded receiver."""
    b = F.body(FOR_EACH)
    if b is None:
        R.anchor_missing(FOR_EACH)
        return
    R.fn(FOR_EACH)
    nexts = [c for c in b.calls if c.callee and c.callee.endswith("Iterator>::next") or (c.callee or "").endswith("Iterator::next")]
    nexts = [c for c in nexts if "field:receivers" in tokens(b.origin(c.args[0]))]
    calls = [c for c in b.calls if c.callee and re.search(r"function::Fn(Mut|Once)?::call(_mut|_once)?$", c.callee) and "param:2" in tokens(b.origin(c.args[0]))]
    ok_shape = len(nexts) == 1 and len(calls) >= 1
    if not ok_shape:
        # consumer-style implementation (receivers.iter().filter_map(upgrade).for_each(f)): check the chain only
        cons = [c for c in b.calls if c.callee and re.search(r"Iterator::(for_each|fold|try_for_each)$", c.callee) and "field:receivers" in tokens(b.origin(c.args[0]))]
        if len(cons) != 1:
            R.ob("FANOUT-all", "Subscribers::for_each: iteration shape not recognised — not decided", True, False)
            return
        chain = strip_sites(b.origin(cons[0].args[0]))
        site = cons[0]
    else:
        chain = strip_sites(b.origin(nexts[0].args[0]))
        site = nexts[0]
    bad = sorted({x[1].rsplit("::", 1)[1] for x in walk(chain) if x[0] == "call" and re.search(_TERM, x[1])})
    R.ob("FANOUT-all", "Subscribers::for_each iterates the whole receiver list (no terminating/thinning adaptor)", not bad, True,
         {"rule": "FANOUT-all", "chain": fmt(chain, 240), "terminating_adaptors": bad})
    if bad:
        R.violation("FANOUT-all", FOR_EACH + "/chain", "Subscribers::for_each walks the receiver list through %s: iteration ends (or skips entries) "
                    "at the first dropped receiver, so live receivers registered after it never see the SCMP error" % ", ".join(bad), site.span.loc)
    if not ok_shape:
        return
    nb = nexts[0].bb
    ups = [c for c in b.calls if c.callee and c.callee.endswith("Weak::<T, A>::upgrade")]
    if not ups:
        fm = any(x[0] == "call" and re.search(r"Iterator::(filter_map|flat_map|flatten)$", x[1]) for x in walk(chain))
        R.ob("FANOUT-all", "Subscribers::for_each: receivers are upgraded inside a %s adaptor — skip-dead clause %s" % ("filter_map/flat_map" if fm else "callee", "holds by the adaptor's contract" if fm else "not decided"), True, fm)
        return
    ok = len(ups) == 1
    detail = ""
    if ok:
        u = ups[0]
        # the switch on upgrade()'s discriminant
        sw = [g for g in sorted(b.live_blocks()) if b.term(g)[0] == "switch" and "fn:alloc::sync::Weak::<T, A>::upgrade" in tokens(b.origin(b.term(g)[1]))
              and strip_sites(b.origin(b.term(g)[1]))[0] == "disc"]
        ok = len(sw) == 1
        if ok:
            g = sw[0]
            none_t = T.pass_targets(b, g, [0])
            some_t = T.pass_targets(b, g, [1])
            cb = calls[0].bb
            back_none = all(nb in b.reach([s], avoid=[g]) for s in none_t) and bool(none_t)
            call_some = all(cb in b.reach([s], avoid=[g, nb]) for s in some_t) and bool(some_t)
            call_none = any(cb in b.reach([s], avoid=[g, nb]) for s in none_t)
            arg_ok = "fn:alloc::sync::Weak::<T, A>::upgrade" in tokens(b.origin(calls[0].args[1]))
            ok = back_none and call_some and not call_none and arg_ok
            detail = "None edge returns to next: %s; callback on the Some edge: %s; callback argument is the upgraded receiver: %s" % (back_none, call_some and not call_none, arg_ok)
    R.ob("FANOUT-all", "Subscribers::for_each: a dropped receiver is skipped and the loop continues (%s)" % detail, ok, True)
    if not ok:
        R.violation("FANOUT-all", FOR_EACH + "/skip-dead", "Subscribers::for_each does not continue with the next receiver when Weak::upgrade fails "
                    "(%s): receivers after a dropped one never see the SCMP error" % detail, F.loc(FOR_EACH))


def scratch_rule(F, R):
    """BUF-scmp: the datagram receive loops of scion-stack receive *every* packet of the socket — SCMP errors included — into
    a scratch buffer and hand SCMP packets to the handlers from there.  The scratch buffer must be able to hold any packet
    the underlay can deliver: `vec![0; N]` with N a constant >= the largest SCMP packet (1232 bytes) that does not depend
    on the length of the caller's datagram buffer — a scratch sized after the caller's buffer truncates (UDP underlay) or
    drops (SNAP underlay) large SCMP errors whenever the application receives with a small buffer."""
    n = 0
    for p in sorted(F.fns):
        if not p.startswith("scion_stack::stack::socket::"):
            continue
        b = F.body(p)
        if b is None:
            continue
        rcs = [c for c in b.calls if c.callee and re.search(r"UnderlaySocketExt>::recv$", c.callee)]
        if not rcs:
            continue
        R.fn(p)
        for c in rcs:
            n += 1
            o = strip_sites(b.origin(c.args[1]))
            fe = [x for x in walk(o) if x[0] == "call" and x[1].endswith("vec::from_elem")]
            ok, why = False, "buffer is not a fresh vec![0; N]"
            if len(fe) != 1:
                R.ob("BUF-scmp", "%s: receive buffer %s is not a fresh vec![0; N] — not decided" % (short(p), fmt(o, 80)), True, False)
                continue
            if len(fe) == 1:
                sz = fe[0][2][1]
                tk = tokens(sz)
                dyn = sorted(t for t in tk if t.startswith("param:") or t.startswith("env") or t.startswith("fn:") or t.startswith("field:"))
                val = None
                x = _unref14(sz)
                if x[0] == "lit" and isinstance(x[1], int):
                    val = x[1]
                elif x[0] in ("const", "constref", "named") or True:
                    m = re.search(r"([A-Za-z_][\w:]*[A-Z_]{3,}[\w]*)", fmt(x, 120))
                    if m and not dyn:
                        for cand in (m.group(1), "scion_stack::" + m.group(1)):
                            try:
                                v = F.const_value(cand)
                            except Exception:
                                v = None
                            if isinstance(v, int):
                                val = v
                                break
                caller_len = any(x[0] == "call" and re.search(r"<impl \[T\]>::len$|Vec::<T, A>::len$|Vec<T, A>::len$", x[1]) for x in walk(sz)) \
                    and any(t.startswith("param:") or t.startswith("env") for t in tk)
                if dyn and not caller_len:
                    R.ob("BUF-scmp", "%s: scratch size %s depends on run-time state other than a caller buffer's length — not decided" % (short(p), fmt(sz, 80)), True, False)
                    continue
                if dyn:
                    why = "size depends on the length of a caller-supplied buffer (%s)" % ", ".join(dyn[:4])
                elif val is None:
                    why = "size %s is not a resolvable constant" % fmt(sz, 80)
                elif val < 1232:
                    why = "size %d < 1232 (largest SCMP packet)" % val
                else:
                    ok, why = True, "N = %d" % val
            R.ob("BUF-scmp", "%s: scratch receive buffer holds any packet of the underlay (%s)" % (short(p), why), ok, True,
                 {"rule": "BUF-scmp", "fn": p, "buffer": fmt(o, 200), "verdict": why})
            if not ok:
                R.violation("BUF-scmp", p + "/scratch", "%s receives all packets of the socket (SCMP errors included) into a scratch buffer whose %s: "
                            "a full-size SCMP error is truncated or dropped before it reaches the SCMP handlers" % (short(p), why), c.span.loc)
    R.floor("BUF-scmp", n, 5, "underlay receive calls of the socket types (2 datagram loops that dispatch SCMP to the handlers, 2 SCMP socket loops, 1 raw socket)")


def is_error_predicate(F, fn, depth=3):
    """a workspace fn -> bool whose result depends on ScmpMessage*/View::is_error (directly or through
    another such predicate): e.g. PacketPolicyError::offending_packet_is_scmp_error"""
    if fn in _pred_memo:
        return _pred_memo[fn]
    _pred_memo[fn] = False
    e = F.fns.get(fn)
    b = F.body(fn)
    res = False
    if fn.endswith("::is_error") and "::scmp::" in fn:
        res = True
    elif e and b is not None and e.get("output") == "bool" and depth > 0:
        tk = tokens(b.local_origin(0))
        conds = set()
        for g in b.live_blocks():
            t = b.term(g)
            if t[0] == "switch":
                conds |= tokens(b.origin(t[1]))
        for t in tk | conds:
            if t.startswith("fn:") and (t.endswith("::is_error") and "::scmp::" in t or (t[3:] != fn and t[3:] in F.fns and is_error_predicate(F, t[3:], depth - 1))):
                res = True
    _pred_memo[fn] = res
    return res


def _error_guarded(F, fn, site, depth):
    """the construction at `site` is not reachable when the triggering packet tested as an SCMP error:
    following only the `Scmp` edge of packet-classification switches, every path entry→site passes a
    branch on an is-error predicate one of whose edges cannot reach the site; or (private helper) every
    caller is guarded that way"""
    b = F.body(fn)
    guards = []
    for g in sorted(b.live_blocks()):
        t = b.term(g)
        if t[0] != "switch" or const_int(t[1]) is not None:
            continue
        tk = tokens(b.origin(t[1]))
        if any(x.startswith("fn:") and is_error_predicate(F, x[3:]) for x in tk):
            if [sx for sx in b.succ[g] if site not in b.reach([sx], avoid=[g])]:
                guards.append(g)
    if guards:
        # legitimate bypass: the packet classified as something other than SCMP
        succ = [list(x) for x in b.succ]
        cls = F.adts.get("sciparse::proto::packet::classify::ClassifiedPacketView")
        scmp_d = [v[1] for v in cls["variants"] if v[0] == "Scmp"] if cls else []
        for g in sorted(b.live_blocks()):
            t = b.term(g)
            if t[0] != "switch":
                continue
            o = b.origin(t[1])
            if o[0] == "disc" and any(x.endswith("::try_classify") for x in tokens(o)) and "adt:core::result::Result" not in "".join(tokens(o)) and scmp_d:
                inner = o[1]
                # only the discriminant of the classified value itself (not of the Result wrapping it)
                if inner[0] in ("field", "downcast") or (inner[0] == "call" and inner[1].endswith("::branch")) or True:
                    arms = {v: tg for v, tg in t[2]}
                    if all(d in arms for d in scmp_d) and len(t[2]) + 1 >= 2 and _is_classified(b, o):
                        succ[g] = [arms[d] for d in scmp_d]
        if site not in b.reach([0], avoid=guards, succ=succ):
            return True, "guard block(s) %s in %s" % (guards, short(fn))
    if depth <= 0:
        return False, "no is_error() test controls the construction in %s" % short(fn)
    e = F.fns.get(fn, {})
    if e.get("vis") == "pub":
        return False, "no is_error() test controls the construction in %s (public function)" % short(fn)
    callers = T.call_sites(F, fn)
    if not callers:
        return False, "no is_error() test controls the construction in %s and no callers found" % short(fn)
    for (cf, cc) in callers:
        ok, why = _error_guarded(F, cf, cc.bb, depth - 1)
        if not ok:
            return False, "caller %s of %s: %s" % (short(cf), short(fn), why)
    return True, "all %d caller(s) of %s guarded" % (len(callers), short(fn))


def _is_classified(b, o):
    """the discriminant read is that of a ClassifiedPacketView value (payload of try_classify's Ok)"""
    x = o[1]
    return x[0] in ("field", "downcast", "deref") and "top" not in tokens(x)


_wp_memo = {}


def _wp_adds_data(F):
    """does ChecksumDigest::with_pseudoheader itself fold its buffer parameter (param#3) into the digest?"""
    if "v" not in _wp_memo:
        b = F.body("sciparse::scion::checksum::ChecksumDigest::with_pseudoheader")
        v = False
        if b is not None:
            for c in b.calls_to(lambda n: n.endswith("ChecksumDigest::add_slice")):
                if _unref14(b.origin(c.args[1])) == ("param", 3):
                    v = True
        _wp_memo["v"] = v
    return _wp_memo["v"]


def _unref14(t):
    while isinstance(t, tuple) and t and t[0] in ("ref", "deref"):
        t = t[2] if t[0] == "ref" else t[1]
    return t


def _cut(t, d):
    """origin tree truncated at depth d"""
    if not isinstance(t, tuple):
        return t
    if d <= 0:
        return ("…",)
    return tuple(_cut(x, d - 1) if isinstance(x, tuple) else x for x in t)


def _move_roots(b, l, depth=6):
    """locals the value of l was moved/copied from (l itself included)"""
    out = {l}
    cur = [l]
    for _ in range(depth):
        nxt = []
        for x in cur:
            for d in b.defs.get(x, ()):
                if d[0] == "assign" and not d[3] and d[4][0] == "use":
                    pl = T.op_place(d[4][1])
                    if pl is not None and not pl[1] and pl[0] not in out:
                        out.add(pl[0])
                        nxt.append(pl[0])
        cur = nxt
    return out


def _refs_local(b, op, l):
    pl = T.op_place(op)
    if pl is None:
        return False
    if pl[0] == l:
        return True
    for d in b.defs.get(pl[0], ()):
        if d[0] == "assign" and d[4][0] == "ref" and d[4][2][0] == l:
            return True
    return False


DEMUX_VIEW = "sciparse::proto::payload::scmp::view::ScmpPayloadView::dst_port"
DEMUX_MODEL = "sciparse::proto::payload::scmp::model::ScmpMessage::dst_port"


def _skeleton(F, p):
    """(return origin, sorted set of branch conditions) of a body, call-site ids stripped"""
    b = F.body(p)
    conds = set()
    for g in sorted(b.live_blocks()):
        t = b.term(g)
        if t[0] == "switch":
            conds.add(fmt(strip_sites(b.origin(t[1])), 400))
    return fmt(strip_sites(b.local_origin(0)), 600), conds


def demux_sibling_rule(F, R):
    """SIB-demux: "received SCMP errors reach the application-side receivers": the receivers are found through
    dst_port(), which exists twice — on the view (used by the dispatchers) and on the model.  Both extract the quoted
    datagram's source port with a closure over the quoted bytes; the two closures must decide identically: same result
    expression and the same set of branch conditions.  A condition present in only one of them (e.g. a length-consistency
    test, which a quote truncated to the 1232-byte budget can never pass) makes errors for large datagrams undeliverable on
    that side only."""
    import c03
    cv = [q for q in F.closure_children(DEMUX_VIEW) if F.has_body(q)]
    cm = [q for q in F.closure_children(DEMUX_MODEL) if F.has_body(q)]
    R.floor("SIB-demux", min(len(cv), len(cm)), 1, "udp_src_port closures of ScmpPayloadView::dst_port and ScmpMessage::dst_port")
    if not cv or not cm:
        return
    R.fn(cv[0])
    R.fn(cm[0])
    rv, gv = _skeleton(F, cv[0])
    rm, gm = _skeleton(F, cm[0])
    ok = rv == rm and gv == gm
    extra_v, extra_m = sorted(gv - gm), sorted(gm - gv)
    R.ob("SIB-demux", "view and model extract the demultiplexing port of a quoted datagram identically (%d conditions)" % len(gv), ok, True,
         {"rule": "SIB-demux", "view": cv[0], "model": cm[0], "only_in_view": extra_v, "only_in_model": extra_m, "same_result": rv == rm, "holds": ok})
    if not ok:
        R.violation("SIB-demux", DEMUX_VIEW, "the view's and the model's dst_port disagree on when a quoted datagram yields a port: conditions only in the view: %s; "
                    "only in the model: %s; same result expression: %s — SCMP errors are dropped by one side's dispatchers"
                    % ([x[:120] for x in extra_v], [x[:120] for x in extra_m], rv == rm), F.loc(DEMUX_VIEW))
    # CK-zero (shared with C03): the checksum field is cleared before the digest reads the buffer, in every SCMP encoder
    c03.checksum_rule(F, R)
