"""Linear-form abstract interpretation of MIR (no scion-sdk code is executed).

Values are affine forms  c + sum(k_i * a_i)  over non-negative integer *atoms* a_i: bytes read from a view (one atom per
reader function: the same field read twice from the same unchanging bytes is the same atom), boolean tests `x > 0` cast to
integers, lengths, results of min / saturating_sub (fresh atoms with their defining inequalities), unknown unsigned values.
A path through the function carries *conditions* `form >= 0` collected from the comparisons it branched on.  The
interpreter enumerates paths (bounded), follows calls into layout and view code, and treats aggregates by value.

Used to decide relational facts the interval domain cannot:  end_of_range <= validated_size  when both are sums over the
same segment-length atoms.
"""
import re

import facts as FX
from absint import Agg

MAX_PATHS = 40


class Lin:
    __slots__ = ("c", "t")

    def __init__(self, c=0, t=None):
        self.c = c
        self.t = {k: v for k, v in (t or {}).items() if v != 0}

    @staticmethod
    def atom(name):
        return Lin(0, {name: 1})

    def add(self, o):
        t = dict(self.t)
        for k, v in o.t.items():
            t[k] = t.get(k, 0) + v
        return Lin(self.c + o.c, t)

    def neg(self):
        return Lin(-self.c, {k: -v for k, v in self.t.items()})

    def sub(self, o):
        return self.add(o.neg())

    def mulc(self, k):
        return Lin(self.c * k, {a: v * k for a, v in self.t.items()})

    def is_const(self):
        return not self.t

    def divexact(self, k):
        if k <= 0 or self.c % k or any(v % k for v in self.t.values()):
            return None
        return Lin(self.c // k, {a: v // k for a, v in self.t.items()})

    def nonneg(self):
        """true when the form is >= 0 for all non-negative atom values"""
        return self.c >= 0 and all(v >= 0 for v in self.t.values())

    def key(self):
        return "%d" % self.c + "".join("%+d*%s" % (v, k) for k, v in sorted(self.t.items()))

    def __repr__(self):
        parts = ([str(self.c)] if self.c or not self.t else []) + ["%s%s" % ("" if v == 1 else "%d*" % v, k) for k, v in sorted(self.t.items())]
        return " + ".join(parts)

    def __eq__(self, o):
        return isinstance(o, Lin) and self.c == o.c and self.t == o.t

    def __hash__(self):
        return hash(self.key())


class Cmp:
    __slots__ = ("op", "a", "b")

    def __init__(self, op, a, b):
        self.op, self.a, self.b = op, a, b

    def conds(self, truth):
        """list of forms >= 0 implied when the comparison evaluates to `truth`; None when not expressible"""
        op = self.op if truth else {"Lt": "Ge", "Le": "Gt", "Gt": "Le", "Ge": "Lt", "Eq": "Ne", "Ne": "Eq"}[self.op]
        a, b = self.a, self.b
        if op == "Lt":
            return [b.sub(a).add(Lin(-1))]
        if op == "Le":
            return [b.sub(a)]
        if op == "Gt":
            return [a.sub(b).add(Lin(-1))]
        if op == "Ge":
            return [a.sub(b)]
        if op == "Eq":
            return [a.sub(b), b.sub(a)]
        return []          # Ne: nothing linear


class Opq:
    """opaque non-integer value (a slice, a view reference, …) with a printable identity"""
    __slots__ = ("name",)

    def __init__(self, name):
        self.name = name

    def __repr__(self):
        return "<%s>" % self.name


READERS = {}


def is_reader(F, fn):
    """a function that reads a field of a view with the unchecked accessor (its value is a property of the bytes, not of
    the arguments): modelled as one atom per function"""
    if fn not in READERS:
        b = F.body(fn)
        READERS[fn] = bool(b) and any((c.decl or "").endswith("read::unchecked_bit_range_be_read") for c in b.calls if not c.indirect)
    return READERS[fn]


def short(fn):
    return "::".join(fn.split("::")[-2:])


class Budget:
    def __init__(self, n):
        self.n = n


def eval_lin(F, fn, args, depth=7, budget=None, probe=None, self_ty=None):
    """returns list of (conds, value) for every explored path of `fn` that returns; value None = unknown.
    probe = (callee_suffix, arg_index, sink list): every call whose callee ends with the suffix appends (conds, value of
    that argument) to the sink (used to capture the range handed to get_unchecked)."""
    b = F.body(fn)
    budget = budget or Budget(6000)
    if b is None or depth < 0:
        return [([], None)]
    results = []
    fresh = [0]

    def new_atom(prefix):
        fresh[0] += 1
        return Lin.atom("%s#%s.%d" % (prefix, short(fn), fresh[0]))

    def run(cur, env, refs, conds, seen):
        while True:
            budget.n -= 1
            if budget.n < 0 or len(results) >= MAX_PATHS:
                return
            seen = dict(seen)
            seen[cur] = seen.get(cur, 0) + 1
            if seen[cur] > 2:
                return

            def resolve(pl):
                l, proj = pl[0], list(pl[1])
                g = 0
                while l in refs and l not in env and g < 8:
                    rl, rp = refs[l]
                    l, proj = rl, list(rp) + (proj[1:] if proj and proj[0] == "*" else proj)
                    g += 1
                return l, proj

            def place_val(pl):
                l, proj = resolve(pl)
                if l not in env:
                    return None
                v = env[l]
                for p in proj:
                    if p == "*":
                        continue
                    if isinstance(p, list) and p[0] == "f" and isinstance(v, Opq):
                        v = Opq("%s.%s" % (v.name, p[2] if len(p) > 2 else p[1]))      # a field of an opaque value keeps a printable identity
                        continue
                    if isinstance(p, list) and p[0] == "f":
                        if isinstance(v, Agg):
                            v = v.fields[p[1]] if p[1] < len(v.fields) else None
                        elif isinstance(v, tuple) and v and v[0] == "tuple":
                            v = v[1][p[1]] if p[1] < len(v[1]) else None
                        else:
                            return None
                    elif isinstance(p, list) and p[0] == "dc":
                        if isinstance(v, Agg) and v.variant == p[1]:
                            continue
                        return None
                    else:
                        return None
                return v

            def op_val(op):
                k = FX.op_const(op)
                if k is not None:
                    v = k.get("v")
                    if isinstance(v, bool):
                        return Lin(int(v))
                    if isinstance(v, int):
                        return Lin(v)
                    if isinstance(v, str) and v.startswith("0x") and len(v) == 34 and str(k.get("ty", "")).endswith("::BitRange"):
                        bts = bytes.fromhex(v[2:])
                        return Agg(k["ty"], "BitRange", 0, [Lin(int.from_bytes(bts[:8], "little")), Lin(int.from_bytes(bts[8:], "little"))], ["start", "end"])
                    if v == "zst":
                        return Agg(str(k.get("ty")), str(k.get("ty")).split("::")[-1], 0, [], [])
                    return None
                return place_val(op[1])

            def as_lin(v):
                if isinstance(v, Lin):
                    return v
                if isinstance(v, Cmp):
                    # boolean used as a number: an atom in {0, 1}
                    return Lin.atom("b[%s %s %s]" % (v.a.key(), v.op, v.b.key()))
                return None

            def rvalue(rv, ty):
                k = rv[0]
                if k == "use":
                    return op_val(rv[1])
                if k == "cast":
                    v = op_val(rv[2])
                    if rv[1] == "IntToInt":
                        return as_lin(v)
                    return v if isinstance(v, (Opq, Agg)) else (v if "Unsize" in str(rv[1]) else None)
                if k == "bin":
                    a, c = as_lin(op_val(rv[2])), as_lin(op_val(rv[3]))
                    op = rv[1].replace("Unchecked", "")
                    wo = op.endswith("WithOverflow")
                    op = op.replace("WithOverflow", "")
                    r = None
                    if a is not None and c is not None:
                        if op == "Add":
                            r = a.add(c)
                        elif op == "Sub":
                            r = a.sub(c)
                        elif op == "Mul":
                            r = a.mulc(c.c) if c.is_const() else (c.mulc(a.c) if a.is_const() else None)
                        elif op == "Div" and c.is_const():
                            r = a.divexact(c.c)
                        elif op == "Shl" and c.is_const() and 0 <= c.c < 64:
                            r = a.mulc(1 << c.c)
                        elif op == "Shr" and c.is_const() and 0 <= c.c < 64:
                            r = a.divexact(1 << c.c)
                        elif op in ("Lt", "Le", "Gt", "Ge", "Eq", "Ne"):
                            return Cmp(op, a, c)
                    if r is None and op not in ("Lt", "Le", "Gt", "Ge", "Eq", "Ne"):
                        if a is not None and c is not None:
                            r = Lin.atom("%s(%s,%s)" % (op, a.key(), c.key()))      # canonical: the same operation on the same forms is the same atom
                        else:
                            r = new_atom("u")
                    if wo:
                        return ("tuple", [r, Lin(0)])
                    return r
                if k == "un":
                    v = op_val(rv[2])
                    if rv[1] == "Not" and isinstance(v, Cmp):
                        return Cmp({"Lt": "Ge", "Le": "Gt", "Gt": "Le", "Ge": "Lt", "Eq": "Ne", "Ne": "Eq"}[v.op], v.a, v.b)
                    return None
                if k == "agg":
                    kind = rv[1]
                    vals = [op_val(o) for o in rv[2]]
                    if kind[0] == "adt":
                        return Agg(kind[1], kind[2], kind[3], vals, kind[4] if len(kind) > 4 else None)
                    if kind[0] == "tuple":
                        return ("tuple", vals)
                    return None
                if k == "disc":
                    v = place_val(rv[1])
                    if isinstance(v, Agg):
                        return Lin(v.idx)
                    if isinstance(v, Lin) and len(v.t) == 1 and v.c == 0:
                        return Lin.atom("disc(%s)" % v.key())        # discriminant of an enum read from the view: canonical atom
                    return None
                return None

            stmts = b.stmts(cur)
            for st in stmts:
                if st[0] == "=":
                    l, proj = st[1]
                    if st[2][0] in ("ref", "raw") and not proj:
                        refs = dict(refs)
                        refs[l] = (st[2][2][0], st[2][2][1])
                        env = dict(env)
                        env.pop(l, None)
                        continue
                    v = rvalue(st[2], b.local_ty(l))
                    env = dict(env)
                    if proj:
                        tl, tp = resolve((l, proj))
                        tp = [x for x in tp if x != "*"]
                        if len(tp) == 1 and isinstance(tp[0], list) and tp[0][0] == "f" and isinstance(env.get(tl), Agg):
                            a = env[tl]
                            fl = list(a.fields)
                            if tp[0][1] < len(fl):
                                fl[tp[0][1]] = v
                            env[tl] = Agg(a.adt, a.variant, a.idx, fl, a.names)
                        else:
                            env.pop(tl, None)
                    else:
                        env[l] = v
            t = b.term(cur)
            k = t[0]
            if k in ("goto", "falseedge", "falseunwind"):
                cur = t[1]
            elif k == "drop":
                cur = t[2]
            elif k == "assert":
                v = op_val(t[1])
                if isinstance(v, Cmp):
                    cs = v.conds(bool(t[2]))
                    if cs is not None:
                        conds = conds + cs
                cur = t[5]
            elif k == "switch":
                v = op_val(t[1])
                if isinstance(v, Lin) and v.is_const():
                    arms = {a: tg for a, tg in t[2]}
                    cur = arms.get(v.c, t[3])
                    continue
                if isinstance(v, Cmp):
                    # bool switch: value 0 -> false target, otherwise true
                    arms = {a: tg for a, tg in t[2]}
                    ft = arms.get(0)
                    tt = t[3] if 0 in arms else arms.get(1)
                    if ft is None:
                        ft = t[3]
                    for truth, tg in ((False, ft), (True, tt)):
                        if tg is None or b.term(tg)[0] == "unreachable":
                            continue
                        cs = v.conds(truth)
                        run(tg, env, refs, conds + (cs or []), seen)
                    return
                if isinstance(v, Lin) and len(v.t) == 1:
                    # switch on a value read from the view: each arm knows which value it saw
                    for a0, tg in t[2]:
                        if b.term(tg)[0] != "unreachable":
                            run(tg, env, refs, conds + [v.sub(Lin(a0)), Lin(a0).sub(v)], seen)
                    if t[3] is not None and b.term(t[3])[0] != "unreachable":
                        run(t[3], env, refs, conds + [Ne(v, [a0 for a0, _ in t[2]])], seen)
                    return
                targets = [tg for _, tg in t[2]] + ([t[3]] if t[3] is not None else [])
                for tg in dict.fromkeys(targets):
                    if b.term(tg)[0] == "unreachable":
                        continue
                    run(tg, env, refs, conds, seen)
                return
            elif k == "call":
                kk = FX.op_const(t[1]) or {}
                callee = kk.get("res") or kk.get("fn") or ""
                sub_self = None
                if not kk.get("res") and kk.get("trait"):
                    # a trait method called on Self inside a default method, or on a concrete type: pick the impl
                    sty = self_ty if kk.get("self") == "Self" else kk.get("self")
                    if sty:
                        cands = [x for x in F.trait_impls.get(kk.get("fn"), ()) if (F.fns[x].get("self_ty") or "") == sty]
                        if len(cands) == 1:
                            callee = cands[0]
                        elif F.has_body(kk.get("fn") or ""):
                            sub_self = sty           # default method: evaluate it for this self type
                elif kk.get("trait") and kk.get("self") and F.has_body(callee) and callee == kk.get("fn"):
                    sub_self = kk.get("self")
                dest = t[3]
                vals = [op_val(a) for a in t[2]]
                if probe and callee.endswith(probe[0]) and probe[1] < len(vals):
                    probe[2].append((list(conds), vals[probe[1]], cur))
                outs = None          # list of (extra conds, value)
                lv = [as_lin(x) for x in vals]
                if re.search(r"::(into|from)$", callee) and len(vals) == 1 and lv[0] is not None:
                    outs = [([], lv[0])]
                elif callee.endswith("::div_ceil") and len(vals) == 2 and lv[0] is not None and lv[1] is not None and lv[1].is_const():
                    q = lv[0].divexact(lv[1].c)
                    if q is not None:
                        outs = [([], q)]
                    else:
                        a = new_atom("ceil")
                        outs = [([a.mulc(lv[1].c).sub(lv[0])], a)]          # k*ceil >= x
                elif callee.endswith(("::Ord::min", "core::cmp::min")) and len(vals) == 2 and all(x is not None for x in lv):
                    outs = [([lv[1].sub(lv[0])], lv[0]), ([lv[0].sub(lv[1])], lv[1])]            # exact, by case split
                elif callee.endswith(("::Ord::max", "core::cmp::max")) and len(vals) == 2 and all(x is not None for x in lv):
                    outs = [([lv[0].sub(lv[1])], lv[0]), ([lv[1].sub(lv[0])], lv[1])]
                elif callee.endswith("::saturating_sub") and len(vals) == 2 and all(x is not None for x in lv):
                    outs = [([lv[0].sub(lv[1])], lv[0].sub(lv[1])), ([lv[1].sub(lv[0])], Lin(0))]
                elif callee.endswith("Try>::branch") and len(vals) == 1 and isinstance(vals[0], Agg) and vals[0].variant in ("Some", "Ok", "None", "Err"):
                    a0 = vals[0]
                    if a0.variant in ("Some", "Ok"):
                        outs = [([], Agg("core::ops::control_flow::ControlFlow", "Continue", 0, list(a0.fields), None))]
                    else:
                        outs = [([], Agg("core::ops::control_flow::ControlFlow", "Break", 1, [Opq("residual")], None))]
                elif re.search(r"::(ok_or|ok_or_else|map_err)$", callee) and vals and isinstance(vals[0], Agg) and vals[0].variant in ("Some", "Ok", "None", "Err"):
                    a0 = vals[0]
                    if a0.variant in ("Some", "Ok"):
                        outs = [([], Agg("core::result::Result", "Ok", 0, list(a0.fields), None))]
                    else:
                        outs = [([], Agg("core::result::Result", "Err", 1, [Opq("err")], None))]
                elif callee.endswith("::from_residual"):
                    rty0 = b.local_ty(dest[0]) if not dest[1] else ""
                    if rty0.startswith("core::option::Option"):
                        outs = [([], Agg("core::option::Option", "None", 0, [], None))]
                    elif rty0.startswith("core::result::Result"):
                        outs = [([], Agg("core::result::Result", "Err", 1, [Opq("err")], None))]
                elif re.search(r"::len$", callee) and len(vals) == 1:
                    nm = vals[0].name if isinstance(vals[0], Opq) else "?"
                    outs = [([], Lin.atom("len(%s)" % nm))]
                elif callee.endswith("read::unchecked_bit_range_be_read") and len(vals) == 2 and isinstance(vals[1], Agg) and all(isinstance(x, Lin) and x.is_const() for x in vals[1].fields):
                    outs = [([], Lin.atom("read[bits %d..%d]" % (vals[1].fields[0].c, vals[1].fields[1].c)))]
                elif callee and F.has_body(callee) and is_reader(F, callee):
                    outs = [([], Lin.atom(short(callee)))]
                elif callee and F.has_body(callee) and any(isinstance(x, Lin) and not x.is_const() and len(x.t) == 1 and i < len(F.fns[callee].get("inputs") or [])
                                                          and not re.match(r"^(usize|u8|u16|u32|u64|bool)$", (F.fns[callee].get("inputs") or [""])[i]) for i, x in enumerate(vals)):
                    # a function of a value read from the view (e.g. WireHostAddrType::size(view.dst_addr_type())): a property of
                    # the bytes; one canonical atom per (function, arguments)
                    rty0 = b.local_ty(dest[0]) if not dest[1] else ""
                    nm = "%s(%s)" % (short(callee), ",".join(x.key() if isinstance(x, Lin) else repr(x) for x in vals))
                    outs = [([], Lin.atom(nm))] if rty0 in ("usize", "u8", "u16", "u32", "u64") else [([], Opq(nm))]
                elif callee and F.has_body(callee) and kk.get("rk") in ("item", None) and callee.startswith(("sciparse::", "<sciparse::")) and depth > 0:
                    sub = eval_lin(F, callee, vals, depth - 1, budget, probe, sub_self if sub_self else (self_ty if kk.get('self') == 'Self' else None))
                    outs = [(c2, v2) for c2, v2 in sub][:MAX_PATHS]
                    if not outs:
                        return
                if outs is None:
                    rty = b.local_ty(dest[0]) if not dest[1] else ""
                    if rty in ("usize", "u8", "u16", "u32", "u64"):
                        outs = [([], new_atom("call:%s" % short(callee)))]
                    else:
                        outs = [([], Opq("%s@%d" % (short(callee), cur)))]
                if t[4] is None:
                    return
                for c2, v2 in outs:
                    env2 = dict(env)
                    if not dest[1]:
                        env2[dest[0]] = v2
                    else:
                        env2.pop(dest[0], None)
                    run(t[4], env2, refs, conds + list(c2), seen)
                return
            elif k == "ret":
                results.append((list(conds), env.get(0)))
                return
            else:
                return

    env0 = {i + 1: a for i, a in enumerate(args)}
    run(0, env0, {}, [], {})
    return results


class Ne:
    """path condition of a switch's otherwise arm: the form is none of the listed constants"""
    __slots__ = ("form", "values")

    def __init__(self, form, values):
        self.form, self.values = form, list(values)

    def __repr__(self):
        return "%s not in %s" % (self.form, self.values)


def unsat(conds):
    """the conditions contradict each other (two of them sum to a negative constant): x == 1 together with x == 2; or
    x == k together with `x not in {.., k, ..}` from an otherwise arm"""
    nes = [c for c in conds if isinstance(c, Ne)]
    conds = [c for c in conds if isinstance(c, Lin)]
    for ne in nes:
        for k in ne.values:
            lo, hi = ne.form.sub(Lin(k)), Lin(k).sub(ne.form)
            if lo in conds and hi in conds:
                return True
    for i, a in enumerate(conds):
        if not a.t and a.c < 0:
            return True
        for c in conds[i + 1:]:
            s0 = a.add(c)
            if not s0.t and s0.c < 0:
                return True
    return False


def implied_nonneg(d, conds, rounds=4):
    """is the form d >= 0 for all non-negative atom values satisfying conds (each cond >= 0)?  Searches for a Farkas
    certificate  d = sum(lambda_i * cond_i) + (form with non-negative coefficients),  lambda_i >= 0 rational: repeatedly pick
    a negative coefficient of the remainder and cancel it with a condition that has a negative coefficient on the same atom
    (depth-bounded, hence incomplete but sound)."""
    from fractions import Fraction
    conds = [c for c in conds if isinstance(c, Lin)]

    def coeffs(f):
        t = {k: Fraction(v) for k, v in f.t.items()}
        t["#1"] = Fraction(f.c)
        return t

    cs = [coeffs(c) for c in conds]

    def search(r, depth, used):
        neg = [k for k, v in r.items() if v < 0]
        if not neg:
            return True
        if depth == 0:
            return False
        a = neg[0]
        for i, c in enumerate(cs):
            if i in used or c.get(a, 0) >= 0:
                continue
            lam = r[a] / c[a]                      # > 0
            r2 = dict(r)
            for k, v in c.items():
                r2[k] = r2.get(k, 0) - lam * v
            if search(r2, depth - 1, used | {i}):
                return True
        return False
    return search(coeffs(d), rounds, frozenset())
