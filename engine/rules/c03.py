"""C03 — wire codec is lossless, matches the SCION format, never truncates silently (format and length-field clauses)."""
import os
import re
import tomllib

import templates as T
import panic as PN
import facts as FX
import enc as ENC
import nibble as NIB
import absint as AI
import acc as ACC
import interval as IV
from facts import tokens, fmt, short, walk, strip_sites, op_place, const_int

# thorough tier: release configuration only — the dev-configuration pass reports the debug_assert! contract checks of the
# core helpers (unchecked read/write, BitRange alignment, View::try_from_*), which are reachable panic sites whose discharge is
# the call-site contract work listed in DESIGN.md 13.7; an untriaged pass is not registered
CRATES = ["sciparse"]

EXPLANATION = (
    "(TBL-a) every evaluated layout constant of sciparse (BitRange consts, header sizes, maxima: 91 field ranges in 18 "
    "layouts) equals tables/scion_wire.toml, an independent transcription of the SCION header, path, UDP and SCMP formats; "
    "every table entry exists in the code; the fields of each layout tile it without gap or overlap. (TBL-enum) the wire "
    "values of NextHdr protocol numbers, path types and SCMP message types: From<u8> and Into<u8>, extracted as decision "
    "tables over all 256 byte values, agree with the specification's numbers and are mutually inverse. (TBL-nibble) the "
    "host address type/length nibble tables (see C08). (ENTRY) encode_unchecked is entered only from try_encode / "
    "try_encode_to_vec behind `buf.len() < required_size()` resp. a buffer allocated with required_size(), and behind "
    "wire_valid()? where the trait has it; from an enclosing encode_unchecked; or with the 16-byte scratch buffer of the "
    "checksum (HOSTLEN). (SIB) every component encoded inside T::encode_unchecked has its wire_valid()? in T::wire_valid and "
    "its required_size() in T::required_size. (CAST) every narrowing cast whose result is written into a length field is "
    "bounded: the cast operand is structurally the expression a wire_valid of the same model compares against a constant "
    "that fits the field (HdrLen <= 1020/4, PayloadLen and UDP length <= 65535, segment lengths <= 63, address lengths <= "
    "16). (RSV) reserved ranges are written with constant 0. (CHECKSUM) the UDP/SCMP checksum digest covers pseudo-header "
    "and message. (PANIC) no undischarged panic site reachable from try_encode/try_encode_to_vec of any model."
)
EXPLANATION_ADD = ' Additions: (CK-zero) the checksum field is written with 0 on every path before the digest reads the output buffer; (CK-narrow) every narrowing cast inside the checksum digest is lossless by interval interpretation (2^16 value partitioning makes the double carry fold exact); (RET-RS) every encode_unchecked impl returns exactly its own required_size; (ACC, encoder side) the contract of unchecked_bit_range_be_write at all 94 encoder call sites against lb(required_size).'
EXPLANATION = EXPLANATION + EXPLANATION_ADD
RESIDUAL = [
    "decode(encode(m)) == m and encode(decode(b)) == b on values (round trip)",
    "checksum arithmetic over all alignments beyond the carry folds (CK-narrow proves every narrowing cast of the digest lossless; byte-order handling of unaligned/odd slices is not decided)",
    "reader/writer agreement per field beyond sharing the layout table (pinned by the round-trip proptests)",
]
ASSUMPTIONS = ["tables/scion_wire.toml transcribes the SCION specification correctly (reviewed by hand)",
               "unchecked_bit_range_be_read/write implement big-endian bit-range access (LANE rule of C12 covers their indexing)"]
TECHNIQUE = ("evaluated-constant tables vs an independent spec table; decision-table extraction of enum conversions; "
             "guarded-success on encode entries; sibling agreement; bounded-cast provenance; panic-site reachability")

TABLE = os.path.join(os.path.dirname(os.path.dirname(os.path.abspath(__file__))), "tables", "scion_wire.toml")
WRITE = "sciparse::core::write::unchecked_bit_range_be_write"


def spec():
    with open(TABLE, "rb") as f:
        return tomllib.load(f)


def tbl_a(F, R, S):
    n_fields = 0
    for lay, d in S["layout"].items():
        base = "sciparse::" + lay + "::"
        got = {}
        for name, want in d["fields"].items():
            n_fields += 1
            br = F.bitrange(base + name)
            ok = br is not None and list(br) == list(want)
            got[name] = br
            R.ob("TBL-a", "%s::%s == %s" % (lay.split("::")[-1], name, want), ok, True,
                 {"rule": "TBL-a", "const": base + name, "spec": want, "code": br, "holds": ok} if not ok or n_fields % 9 == 0 else None)
            if not ok:
                R.violation("TBL-a", base + name, "%s::%s is %s in the code, the SCION format says bits %s" % (lay.split("::")[-1], name, br, want), F.loc(base + name) if (base + name) in F.fns else None)
        # tiling
        rs = sorted(v for v in got.values() if v)
        tile = bool(rs) and rs[0][0] == 0 and all(rs[i][1] == rs[i + 1][0] for i in range(len(rs) - 1)) and rs[-1][1] == d["total_bits"]
        R.ob("TBL-a", "%s: fields tile [0, %d) without gap or overlap" % (lay.split("::")[-1], d["total_bits"]), tile, True)
        if not tile:
            R.violation("TBL-a", base + "tiling", "fields of %s overlap or leave a gap: %s" % (lay.split("::")[-1], rs), None)
        for name, want in d.get("consts", {}).items():
            v = F.const_value(base + name)
            ok = v == want
            R.ob("TBL-a", "%s::%s == %s" % (lay.split("::")[-1], name, want), ok, True)
            if not ok:
                R.violation("TBL-a", base + name, "%s::%s evaluates to %s, specification: %s" % (lay.split("::")[-1], name, v, want), None)
        for name, want in d.get("aggregate_ranges", {}).items():
            br = F.bitrange(base + name)
            ok = br is not None and list(br) == list(want)
            R.ob("TBL-a", "%s::%s == %s" % (lay.split("::")[-1], name, want), ok, True)
            if not ok:
                R.violation("TBL-a", base + name, "%s::%s is %s, specification: %s" % (lay.split("::")[-1], name, br, want), None)
        # every BitRange const the code defines for this layout must be known to the table (a new field needs a spec entry)
        known = set(d["fields"]) | set(d.get("aggregates", [])) | set(d.get("aggregate_ranges", {}))
        for k in F.consts:
            if k.startswith(base) and F.bitrange(k) is not None and k[len(base):] not in known and "::" not in k[len(base):]:
                R.ob("TBL-a", "%s is in the spec table" % k, False, True)
                R.violation("TBL-a", k + "/unknown", "layout constant %s = %s has no entry in the specification table" % (k, F.bitrange(k)), None)
    for k, want in S["scalars"].items():
        v = F.const_value("sciparse::" + k)
        ok = v == want
        R.ob("TBL-a", "%s == %s" % (k.split("::")[-2] + "::" + k.split("::")[-1], want), ok, True, {"rule": "TBL-a", "const": k, "spec": want, "code": v, "holds": ok})
        if not ok:
            R.violation("TBL-a", "sciparse::" + k, "%s evaluates to %s, specification: %s" % (k, v, want), None)
    R.floor("TBL-a", n_fields, 91, "layout field ranges compared with the specification table")


def tbl_enum(F, R, S):
    for adt, d in S["enum"].items():
        dec = [p for p, e in F.fns.items() if e.get("trait_item") == "core::convert::From::from" and (e.get("self_ty") or "") == adt and (e.get("inputs") or [None])[0] == "u8"]
        enc = [p for p, e in F.fns.items() if e.get("trait_item") == "core::convert::From::from" and (e.get("self_ty") or "") == "u8" and (e.get("inputs") or [None])[0] == adt]
        if len(dec) != 1 or len(enc) != 1:
            R.anchor_missing("From<u8>/Into<u8> of %s (found %d/%d)" % (adt, len(dec), len(enc)))
            continue
        R.fn(dec[0])
        R.fn(enc[0])
        want = d["values"]
        by_val = {v: k for k, v in want.items()}
        bad = []
        for n in range(256):
            v = AI.eval_fn(F, dec[0], [n])
            if not isinstance(v, AI.Agg):
                bad.append("decode(%d) undecided" % n)
                continue
            if n in by_val:
                if v.variant != by_val[n]:
                    bad.append("decode(%d) = %s, specification: %s" % (n, v.variant, by_val[n]))
            elif v.variant in want:
                bad.append("decode(%d) = %s, but %s is %d in the specification" % (n, v.variant, v.variant, want[v.variant]))
            back = AI.eval_fn(F, enc[0], [v])
            if back != n:
                bad.append("encode(decode(%d)) = %s" % (n, back))
        ok = not bad
        R.ob("TBL-enum", "%s: From<u8>/Into<u8> agree with the specification on all 256 values" % adt.split("::")[-1], ok, True,
             {"rule": "TBL-enum", "enum": adt, "spec": want, "holds": ok})
        for b in bad[:3]:
            R.violation("TBL-enum", "%s/%s" % (adt, b.split(" =")[0]), "%s: %s" % (adt.split("::")[-1], b), F.loc(dec[0]))
    R.floor("TBL-enum", len(S["enum"]), 3, "wire enumerations")


def _impls(F, item):
    return [p for p, e in F.fns.items() if e.get("trait_item") == item and e["_crate"] == "sciparse" and not T.is_test_support(p)]


HDR = "sciparse::proto::header::model::ScionPacketHeader::"


def entry_rule(F, R):
    sites = T.call_sites(F, lambda n: n.endswith("::encode_unchecked"), crates=["sciparse"])
    n = 0
    for (p, c) in sites:
        if ENC.is_encode_impl(F, p) or p.endswith("::encode_unchecked"):
            continue
        n += 1
        b = F.body(p)
        R.fn(p)
        if p == "sciparse::scion::checksum::ChecksumDigest::with_pseudoheader":
            o = PN._peel_refs(b.origin(c.args[1]))
            ok = PN.const_len(o) == 16 or "repeat" in fmt(o, 200)
            R.ob("ENTRY", "with_pseudoheader encodes a host address into its 16-byte scratch buffer (HOSTLEN bounds the size)", ok, True)
            if not ok:
                R.violation("ENTRY", p + "/scratch", "host address encoded into a buffer that is not the 16-byte scratch array: %s" % fmt(o, 80), c.span.loc)
            continue
        # size: either `buf.len() < required_size -> return Err` dominates, or the buffer is vec![0; required_size]
        def szpred(tk, o, g):
            return any(t.endswith("::required_size") for t in tk if t.startswith("fn:")) and any(t.endswith("::len") for t in tk if t.startswith("fn:")) or \
                (any(t.endswith("::required_size") for t in tk if t.startswith("fn:")) and "op:Lt" in tk)
        gok = False
        for g in T.guard_blocks(b, szpred):
            if b.dominates(g, c.bb) and [sx for sx in b.succ[g] if c.bb not in b.reach([sx], avoid=[g])]:
                gok = True
        bo = b.origin(c.args[1])
        alloc = any(t.endswith("::from_elem") or t.endswith("vec::from_elem") for t in tokens(bo) if t.startswith("fn:")) and any(t.endswith("::required_size") for t in tokens(bo) if t.startswith("fn:"))
        size_ok = gok or alloc
        # validity
        has_valid = "PayloadEncode" not in c.decl
        vok = True
        if has_valid:
            def vpred(tk, o, g):
                return o[0] == "disc" and any(t.endswith("::wire_valid") for t in tk if t.startswith("fn:"))
            vok, _ = T.guarded_by(b, c.bb, vpred, [0])
        ok = size_ok and vok
        R.ob("ENTRY", "%s: encode_unchecked behind the size check%s" % (short(p), " and wire_valid()?" if has_valid else ""), ok, True,
             {"rule": "ENTRY", "fn": p, "loc": c.span.loc, "size_guard": gok, "exact_alloc": alloc, "wire_valid": vok, "holds": ok})
        if not ok:
            R.violation("ENTRY", p + "/encode_unchecked", "encode_unchecked is reachable without %s" % ("the buffer-size check" if not size_ok else "wire_valid()?"), c.span.loc)
    R.floor("ENTRY", n, 5, "safe entry points into encode_unchecked")


def sib_rule(F, R):
    """SIB: components encoded inside T::encode_unchecked are validated in T::wire_valid and sized in T::required_size"""
    n = 0
    for item in ENC.ENC_ITEMS:
        for p in _impls(F, item):
            b = F.body(p)
            if b is None:
                continue
            inner = [c for c in b.calls if not c.indirect and c.decl.endswith("::encode_unchecked") and c.bb in b.live_blocks()]
            if not inner:
                continue
            wv = ENC.sibling(F, p, item.replace("encode_unchecked", "wire_valid"))
            rs = ENC.sibling(F, p, item.replace("encode_unchecked", "required_size"))
            wb, rb = (F.body(wv) if wv else None), (F.body(rs) if rs else None)
            for c in inner:
                recv = strip_sites(PN._peel_refs(b.origin(c.args[0])))
                if "param:1" not in tokens(recv):
                    continue        # not a component of self
                n += 1
                R.fn(p)
                def comp_in(body, suffix):
                    if body is None:
                        return False
                    for x in body.calls:
                        if not x.indirect and x.decl.endswith(suffix) and x.args:
                            r2 = strip_sites(PN._peel_refs(body.origin(x.args[0])))
                            if FX.cut(r2, 5) == FX.cut(recv, 5):
                                return True
                    return False
                # delegating impls (enum dispatch / &T / Box<T>) forward all three methods to the same component
                okv = comp_in(wb, "::wire_valid") or comp_in(wb, "::valid") or _component_trivially_valid(F, c)
                oks = comp_in(rb, "::required_size") or comp_in(rb, "::size_bytes") or _subbuffer_fits(F, b, c)
                ok = okv and oks
                R.ob("SIB", "%s encodes %s: validated in wire_valid (%s), sized in required_size (%s)" % (short(p), fmt(recv, 50), okv, oks), ok, True,
                     {"rule": "SIB", "fn": p, "component": fmt(recv, 80), "wire_valid": okv, "required_size": oks, "holds": ok})
                if not ok:
                    R.violation("SIB", "%s/%s" % (p, fmt(recv, 60)), "%s encodes component %s but %s" % (short(p), fmt(recv, 60),
                                "its wire_valid is not part of the model's wire_valid" if not okv else "its required_size is not part of the model's required_size"), c.span.loc)
    R.floor("SIB", n, 8, "component encodes inside encode_unchecked impls")


def _subbuffer_fits(F, b, c):
    """the component is encoded into a sub-buffer of constant length that is at least the component's constant
    required_size (fixed-size fields such as info / hop fields)"""
    callee = c.res or c.decl
    if callee not in F.fns or not ENC.is_encode_impl(F, callee) or len(c.args) < 2:
        return False
    sib, rs = ENC.rs_tree(F, callee)
    need = PN.const_eval(rs) if rs is not None else None
    have = PN.const_len(b.origin(c.args[1]))
    if need is not None and have is not None and have >= need:
        return True
    # the sub-buffer is a field range of the very layout object whose size_bytes() is the enclosing model's required_size
    me = [p for p, bb in F._bodies.items() if bb is b]
    if me and ENC.is_encode_impl(F, me[0]):
        _, outer_rs = ENC.rs_tree(F, me[0])
        lay_sub = {n[1] for n in walk(b.origin(c.args[1])) if n[0] == "call" and re.search(r"Layout::(new|from_[a-z_]+)$", n[1])}
        lay_rs = {n[1] for n in walk(outer_rs)} if outer_rs is not None else set()
        rng = [n for n in walk(b.origin(c.args[1])) if n[0] == "call" and re.search(r"Layout::[a-z_]+_(range|rng)$", n[1])]
        if lay_sub and rng and (lay_sub & {x for x in lay_rs if isinstance(x, str)}):
            return True
        # required_size may build the same layout through a helper (e.g. self.segment_sizes()): compare constructors by name
        if lay_sub and rng and outer_rs is not None:
            rs_fns = {n[1] for n in walk(outer_rs) if n[0] == "call"}
            if any(x.rsplit("::", 1)[0] == y.rsplit("::", 1)[0] for x in lay_sub for y in rs_fns):
                return True
    return False


def _component_trivially_valid(F, c):
    """the component's own wire_valid can never fail (no Err construction, no `?`): nothing to include"""
    callee = c.res or c.decl
    if not F.has_body(callee) or callee not in F.fns:
        return False
    e = F.fns[callee]
    ti = e.get("trait_item") or ""
    if not ti.endswith("::encode_unchecked"):
        return False
    wv = ENC.sibling(F, callee, ti.replace("encode_unchecked", "wire_valid"))
    b = F.body(wv) if wv else None
    if b is None:
        return False
    errs = [1 for (bb, idx, adt, var) in T.result_variant_defs(b) if var == "Err"]
    calls = [x for x in b.calls if x.bb in b.live_blocks() and not b.is_cleanup(x.bb)]
    return not errs and not calls


def rsv_rule(F, R):
    n = 0
    fns = []
    for item in ENC.ENC_ITEMS:
        fns += _impls(F, item)
    fns += [p for p in F.fns if p.endswith("::encode_unchecked") and p.startswith("sciparse::proto::header::model::") and p not in fns]
    for p in fns:
        b = F.body(p)
        if b is None:
            continue
        for c in b.calls_to(WRITE):
            r = b.origin(c.args[1])
            if r[0] == "const" and re.search(r"::(RSV_RNG|RESERVED_RNG)$", r[1]):
                n += 1
                v = PN.const_eval(b.origin(c.args[2]))
                ok = v == 0
                R.ob("RSV", "%s writes 0 into %s" % (short(p), r[1].split("::")[-2] + "::" + r[1].split("::")[-1]), ok, True)
                if not ok:
                    R.violation("RSV", "%s/%s" % (p, r[1]), "reserved bits %s are written with %s instead of constant 0" % (r[1], fmt(b.origin(c.args[2]), 60)), c.span.loc)
    R.floor("RSV", n, 5, "writes of reserved ranges (common header, info field, path meta, SCMP reserved)")


def cast_rule(F, R):
    """CAST: narrowing casts feeding length fields are bounded by a wire_valid comparison on the same expression"""
    W = {"u8": 8, "u16": 16, "u32": 32, "u64": 64, "usize": 64}
    # bounds established by wire_valid functions: (normalised expression) -> max constant
    bounds = []
    for p, e in F.fns.items():
        if e["_crate"] != "sciparse" or T.is_test_support(p) or not (p.endswith("::wire_valid") or p.endswith("::valid")):
            continue
        b = F.body(p)
        if b is None:
            continue
        for g in sorted(b.live_blocks()):
            ed = FX.bool_edges(b, g)
            if ed is None:
                continue
            cond = b.origin(b.term(g)[1])
            # the edge on which the function continues (does not build Err)
            errs = [bb for (bb, idx, adt, var) in T.result_variant_defs(b) if var == "Err"] + [c.bb for c in b.calls if not c.indirect and c.decl.endswith("::from_residual")]
            for pol, tgt in ((True, ed[0]), (False, ed[1])):
                if any(x in b.reach([tgt], avoid=[g]) for x in [bb for bb in range(b.n) if b.term(bb)[0] == "ret"]) and not all(x in b.reach([tgt], avoid=[g]) for x in errs[:1] or [-1]):
                    n = PN._norm_cmp(cond, pol)
                    if not n:
                        continue
                    op, a, c = n
                    ca, cc = PN.const_eval(a), PN.const_eval(c)
                    if cc is not None and op in ("Le", "Lt", "Eq"):
                        bounds.append((p, strip_sites(PN.strip_casts(a)), cc if op != "Lt" else cc - 1))
                    elif ca is not None and op in ("Ge", "Gt", "Eq"):
                        bounds.append((p, strip_sites(PN.strip_casts(c)), ca if op != "Gt" else ca - 1))
    R.extra["wire_valid_bounds"] = [(short(p), fmt(x, 80), m) for (p, x, m) in bounds][:20]

    def self_norm(fn, t):
        """expression of `fn` over its self parameter, with own required_size calls inlined"""
        return strip_sites(PN.strip_casts(t))

    # bound on the payload size of any PayloadEncode payload: `self.payload.required_size(..) > C -> Err` in ScionPacket::wire_valid
    payload_cap = [m for (p, x, m) in bounds if x[0] == "call" and (x[1].endswith("PayloadEncode::required_size") or (len(x) > 3 and str(x[3]).endswith("PayloadEncode::required_size")))
                   and "field:payload" in tokens(x[2][0])]
    # per-element bounds: len(<elem>.FIELD) <= m established inside a loop of a wire_valid
    elem_len = {}
    for (p, x, m) in bounds:
        ln = PN._len_tree_of(x) if isinstance(x, tuple) else None
        if ln is None and x[0] == "call" and x[1].endswith("::len") and len(x[2]) == 1:
            ln = PN._peel_refs(x[2][0])
        if ln is not None and ln[0] == "field":
            elem_len[ln[2]] = min(m, elem_len.get(ln[2], m))

    def bounded(fn, t, cap):
        t0 = strip_sites(PN.strip_casts(t))
        u = PN.upper_bound(t0)
        if u is not None and u <= cap:
            return "constant/typed bound %d" % u
        # (a) the operand is the encoder's own required_size and the enclosing packet bounds every payload's size
        if ENC.is_encode_impl(F, fn) and F.fns[fn]["trait_item"].startswith("sciparse::proto::payload") and payload_cap:
            sib, rs = ENC.rs_tree(F, fn)
            if rs is not None and FX.cut(ENC._norm(F, fn, t0), 6) == FX.cut(rs, 6) and min(payload_cap) <= cap:
                return "operand is this payload's required_size, which ScionPacket::wire_valid bounds by %d" % min(payload_cap)
        # (b) result of a workspace function whose every return value is bounded (constants / capacity-limited lengths)
        if t0[0] == "call" and F.has_body(t0[1]):
            ru = _ret_ub(F, t0[1])
            if ru is not None and ru <= cap:
                return "every return value of %s is <= %d" % (short(t0[1]), ru)
        # (c) Option::map_or(x, c, |s| len(s.FIELD)) with a per-element bound on len(_.FIELD)
        if t0[0] == "call" and t0[1].endswith("::map_or") and len(t0[2]) == 3:
            dflt = PN.const_eval(t0[2][1])
            clo = [n for n in walk(t0[2][2]) if n[0] == "agg" and n[1][0] == "closure"]
            if dflt is not None and dflt <= cap and clo:
                kb = F.body(clo[0][1][1])
                if kb is not None:
                    ro = strip_sites(kb.local_origin(0))
                    ln = PN._len_tree_of(ro)
                    if ln is None and ro[0] == "call" and ro[1].endswith("::len") and len(ro[2]) == 1:
                        ln = PN._peel_refs(ro[2][0])
                    if ln is not None and ln[0] == "field" and ln[2] in elem_len and elem_len[ln[2]] <= cap:
                        return "len(_.%s) <= %d for every element (wire_valid loop), default %d" % (ln[2], elem_len[ln[2]], dflt)
        cands = [t0]
        # x / k  ->  bound(x) / k
        if t0[0] == "bin" and t0[1] == "Div" and PN.const_eval(t0[3]):
            k = PN.const_eval(t0[3])
            for (p, x, m) in bounds:
                if _same_expr(F, x, t0[2]) and m // k <= cap:
                    return "%s <= %d in %s, so /%d <= %d" % (fmt(x, 40), m, short(p), k, m // k)
        for (p, x, m) in bounds:
            if m <= cap and any(_same_expr(F, x, c) for c in cands):
                return "%s <= %d in %s" % (fmt(x, 50), m, short(p))
        return None

    targets = []
    for item in ENC.ENC_ITEMS:
        targets += _impls(F, item)
    targets += [p for p in F.fns if p.startswith("sciparse::proto::header::model::") and (p.endswith("::encode_unchecked") or p.endswith("::size_units"))]
    targets += [p for p in F.fns if p.endswith("StandardPath::segment_sizes")]
    n = 0
    for p in sorted(set(targets)):
        b = F.body(p)
        if b is None:
            continue
        for bi in sorted(b.live_blocks()):
            for st in b.stmts(bi):
                if st[0] == "=" and st[2][0] == "cast" and st[2][1] == "IntToInt" and st[2][3] in W and st[2][4] in W and W[st[2][4]] < W[st[2][3]]:
                    if b.span_of(st[3]).external_macro("sciparse"):
                        continue
                    n += 1
                    R.fn(p)
                    o = b._op_origin(st[2][2], 12, frozenset())
                    cap = 2 ** W[st[2][4]] - 1
                    why = bounded(p, o, cap)
                    R.ob("CAST", "%s: (%s) as %s" % (short(p), fmt(o, 70), st[2][4]), why is not None, True,
                         {"rule": "CAST", "fn": p, "loc": b.span_of(st[3]).loc, "operand": fmt(o, 120), "to": st[2][4], "bound": why, "holds": why is not None})
                    if why is None:
                        R.violation("CAST", "%s/%s as %s" % (p, fmt(strip_sites(o), 70), st[2][4]),
                                    "length/size value narrowed with `as %s` without a wire_valid bound on the same expression (%s): a model that does not fit "
                                    "the field is encoded with a wrapped value instead of being rejected" % (st[2][4], fmt(o, 90)), b.span_of(st[3]).loc)
    R.floor("CAST", n, 6, "narrowing casts on encode paths (HdrLen, PayloadLen, UDP length, 3 segment lengths, 2 address lengths)")


_ret_memo = {}


def _ret_ub(F, fn):
    """upper bound over all return values of a workspace fn: constants, or len() of an ArrayVec<[_; N]> / [_; N]"""
    if fn in _ret_memo:
        return _ret_memo[fn]
    b = F.body(fn)
    res = None
    if b is not None:
        o = b.local_origin(0)
        alts = o[1] if o[0] == "phi" else (o,)
        ubs = []
        for a in alts:
            v = PN.const_eval(a)
            if v is None and a[0] == "call" and a[1].endswith("::len") and len(a[2]) == 1:
                call_bb = a[5] if len(a) > 5 else None
                for c in b.calls:
                    if c.bb == call_bb:
                        m = re.search(r"\[[^;\]]+; (\d+)\]", " ".join(c.ga or []) + " " + (c.full or ""))
                        if m:
                            v = int(m.group(1))
            if v is None:
                ubs = None
                break
            ubs.append(v)
        if ubs:
            res = max(ubs)
    _ret_memo[fn] = res
    return res


def _same_expr(F, a, b):
    """structural equality of two self-rooted size expressions, inlining required_size of the same receiver"""
    a, b = _inline_rs(F, a), _inline_rs(F, b)
    return FX.cut(a, 6) == FX.cut(b, 6)


def _inline_rs(F, t, depth=2):
    t = strip_sites(PN.strip_casts(t))
    if depth > 0 and t[0] == "call" and t[1].endswith("::required_size") and F.has_body(t[1]) and len(t[2]) >= 1:
        # only inline when the receiver is the caller's self itself
        if PN._peel_refs(t[2][0]) == ("param", 1) and len(t[2]) == 1:
            return _inline_rs(F, strip_sites(F.body(t[1]).local_origin(0)), depth - 1)
    return t


def checksum_rule(F, R):
    n = 0
    for p in _impls(F, "sciparse::proto::payload::encode::PayloadEncode::encode_unchecked"):
        b = F.body(p)
        ws = [c for c in b.calls_to(WRITE) if b.origin(c.args[1])[0] == "const" and b.origin(c.args[1])[1].endswith("::CHECKSUM_RNG")]
        if not ws:
            continue
        n += 1
        R.fn(p)
        ok = False
        for c in ws:
            o = b.origin(c.args[2])
            wp = [x for x in walk(o) if x[0] == "call" and x[1].endswith("ChecksumDigest::with_pseudoheader")]
            ad = [x for x in walk(o) if x[0] == "call" and x[1].endswith("ChecksumDigest::add_slice")]
            if wp and ad and all("param:2" in tokens(x[2][1]) for x in ad):
                ok = True
        R.ob("CHECKSUM", "%s: checksum = with_pseudoheader(..).add_slice(message).checksum()" % short(p), ok, True)
        if not ok:
            R.violation("CHECKSUM", p, "%s writes a checksum that does not cover the message bytes" % short(p), F.loc(p))
        # CK-zero: the sum is taken over the output buffer, which includes the checksum field itself: on every path the
        # field must have been written with constant 0 before the digest reads the buffer (a caller's buffer is not zeroed)
        adds = [c for c in b.calls if not c.indirect and c.decl.endswith("ChecksumDigest::add_slice") and "param:2" in tokens(b.origin(c.args[1])) and c.bb in b.live_blocks()]
        zeros = [c.bb for c in ws if PN.const_eval(PN.strip_casts(strip_sites(b.origin(c.args[2])))) == 0]
        okz = bool(adds) and bool(zeros) and all(T.must_pass(b, [c.bb], zeros)[0] for c in adds)
        R.ob("CK-zero", "%s: checksum field zeroed on every path before the digest reads the buffer" % short(p), okz, True,
             {"rule": "CK-zero", "fn": p, "add_slice_sites": len(adds), "zeroing_writes": len(zeros), "holds": okz})
        if not okz:
            R.violation("CK-zero", p, "%s sums the output buffer without first clearing the checksum field in it: stale bytes of a reused "
                        "buffer are folded into the checksum, which then does not verify" % short(p), F.loc(p))
    R.floor("CHECKSUM", n, 11, "UDP/SCMP encoders writing a checksum")


CK_NARROW_REVIEWED = {
    # (fn suffix, src, dst): reason
    ("ChecksumDigest::with_pseudoheader", "usize", "u32"):
        "the pseudo-header carries the upper-layer length as a 32-bit field; a message of 4 GiB or more cannot be a SCION payload "
        "(payload length is 16 bits, enforced by ScionPacket::wire_valid — CAST rule)",
}


def ck_narrow_rule(F, R):
    """CK-narrow: every narrowing integer cast in the checksum digest keeps the value — the operand's interval, computed by
    interval interpretation (with 2^16 value partitioning so that carry folds are evaluated relationally) over all inputs,
    fits the target type.  A single fold `(s >> 16) + (s & 0xffff)` of a u32 can be 0x1fffe: casting that to u16 drops the
    end-around carry."""
    n = 0
    for p in F.all_body_paths("sciparse"):
        if "scion::checksum::" not in p or T.is_test_support(p):
            continue
        b = F.body(p)
        probes = {}
        for bb in sorted(b.live_blocks()):
            for si, st in enumerate(b.stmts(bb)):
                if st[0] == "=" and st[2][0] == "cast" and st[2][1] == "IntToInt" and st[2][3] in AI.W and st[2][4] in AI.W and AI.W[st[2][3]] > AI.W[st[2][4]]:
                    probes[(bb, si)] = []
        if not probes:
            continue
        R.fn(p)
        state = {}
        IV.eval_iv(F, p, [IV.TOP] * len(F.fns[p].get("inputs") or []), probes=probes, state=state)
        for (bb, si), vals in sorted(probes.items()):
            st = b.stmts(bb)[si]
            src, dst = st[2][3], st[2][4]
            n += 1
            m = IV.tymax(dst)
            reviewed = [r for (sfx, s0, d0), r in CK_NARROW_REVIEWED.items() if p.endswith(sfx) and (s0, d0) == (src, dst)]
            hi = max((v[0][2] if IV.is_iv(v[0]) else 1 << 128) for v in vals) if vals and not state.get("incomplete") else None
            ok = hi is not None and m is not None and hi <= m
            loc = b.span_of(st[3]).loc if len(st) > 3 else F.loc(p)
            if not ok and reviewed:
                R.reviewed.append({"rule": "CK-narrow", "fn": p, "cast": "%s -> %s" % (src, dst), "reason": reviewed[0]})
                R.ob("CK-narrow", "%s: %s -> %s (reviewed)" % (short(p), src, dst), True, False)
                continue
            R.ob("CK-narrow", "%s: `as %s` of a %s in [0, %s] is lossless" % (short(p), dst, src, hex(hi) if hi is not None else "?"), ok, True,
                 {"rule": "CK-narrow", "fn": p, "loc": loc, "cast": "%s -> %s" % (src, dst), "operand_upper_bound": hi, "target_max": m, "holds": ok})
            if not ok:
                R.violation("CK-narrow", "%s/%s->%s" % (p, src, dst), "%s casts a %s that can be as large as %s to %s: the end-around carry (or high bits) is dropped, "
                            "so checksums of some inputs do not verify" % (short(p), src, hex(hi) if hi is not None else "an unbounded value", dst), loc)
    R.floor("CK-narrow", n, 4, "narrowing integer casts in sciparse::scion::checksum (add_slice, checksum, add_u64, with_pseudoheader)")


def run(F, R, tier, cfg):
    S = spec()
    tbl_a(F, R, S)
    tbl_enum(F, R, S)
    NIB.nibble_rules(F, R)
    entry_rule(F, R)
    sib_rule(F, R)
    rsv_rule(F, R)
    cast_rule(F, R)
    checksum_rule(F, R)
    ck_narrow_rule(F, R)
    ENC.install()
    ENC.hostlen_rule(F, R)
    ENC.ret_rs_rule(F, R)
    ACC.run(F, R, {}, "enc", 88)        # 94 sites counted on 8f07ce4 (84 in trait encoders, 10 in CommonHeader::encode_unchecked)
    entries = []
    for nm in ("try_encode", "try_encode_to_vec"):
        entries += [p for p in F.fns if p.endswith("::" + nm) and p.startswith("sciparse::") and not T.is_test_support(p)]
    for item in ENC.ENC_ITEMS:
        entries += _impls(F, item)
        entries += _impls(F, item.replace("encode_unchecked", "wire_valid"))
        entries += _impls(F, item.replace("encode_unchecked", "required_size"))
    PN.check_entries(F, R, "C03", sorted(set(entries)), cfg)
