"""C07 — reported link failures steer traffic away at once (structural clauses only)."""
import re

import templates as T
import panic as PN
import facts as FX
from facts import tokens, fmt, short, walk, strip_sites

CRATES = ["scion_stack", "sciparse"]
EXPLANATION = (
    "Static rules over the MIR of scion-stack's issue handling.  Decided: (GS-penalty-match) every reliability penalty "
    "(ReliabilityScore::update) applied while ingesting an issue or replaying cached issues is applied to a path entry only "
    "under IssueMarkerTarget::matches_path(entry) — directly (branch on the call's result) or by operating on the entry that "
    "`find(|e| matches_path(e))` returned: a report that matches no path changes no score.  (FLOW-affected) the "
    "`active_path_affected` flag is raised only from the comparison of the penalised entry's fingerprint with the active "
    "path's.  (MUST-reeval) in handle_issue_rx, whenever the ingest result says the active path was affected, rerank and "
    "maybe_update_active_path are both executed before the handler returns — the active slot is re-decided in the same "
    "invocation that learnt of the failure, which is what 'the very next send' relies on.  (GS-applies) issues for another "
    "src/dst pair are dropped before any state is touched.  (FLOW-decay) the score read by ranking decays with the time "
    "since the last update (the `now` argument and `last_updated` both reach exponential_decay with a constant positive "
    "half-life), which is what makes a penalised path eligible again.  (FLOW-target) interface-down / connectivity-down / "
    "first-hop reports become markers built from that report's own AS and interface fields (egress vs ingress not swapped).  "
    "(PEN-link) link-failure SCMP errors carry a strictly negative penalty constant.  NOT decided (value clauses): the size of penalties, "
    "the swap threshold, that the re-ranking actually prefers a path avoiding the interface, freshness windows.")
EXPLANATION_ADD5 = ' Round-5 additions: (FLOW-update) ReliabilityScore::update stores score := clamp(self.score(now) + penalty) and last_updated := now, the parameter itself; (GS-precheck) every stateless pre-check passed to matches_path_checked is the constant true or reads the hop list — a pre-check that can say no from the path endpoints alone skips paths crossing the reported AS in transit.'
EXPLANATION = EXPLANATION + EXPLANATION_ADD5
RESIDUAL = [
    "whether the re-evaluation picks a path that avoids the failed interface (scores, thresholds: values)",
    "that traffic does not return while the penalty is fresh and does return after decay (numeric half-life behaviour)",
]
ASSUMPTIONS = ["maybe_update_active_path/rerank implement the documented decision (their internals are C05/C06 rules)"]
TECHNIQUE = "guard/dominance (GS), must-pass and dataflow rules over MIR of the issue-ingestion functions"

PS = "scion_stack::path::manager::pathset::"
INGEST = PS + "PathSet::<F>::ingest_path_issue"
HANDLE = PS + "PathSet::<F>::handle_issue_rx"
CACHED = "scion_stack::path::manager::PathIssueManager::apply_cached_issues"
UPD = "ReliabilityScore::update"
MATCH = "IssueMarkerTarget::matches_path"
SCORE = "scion_stack::path::manager::reliability::ReliabilityScore::score"


def _closure_is_match(F, q):
    qb = F.body(q)
    if qb is None:
        return False
    o = strip_sites(qb.local_origin(0))
    return o[0] == "call" and o[1].endswith(MATCH)


def penalty_match_rule(F, R):
    n = 0
    for p in (INGEST, CACHED):
        b = F.body(p)
        if b is None:
            R.anchor_missing(p)
            continue
        R.fn(p)
        ups = [c for c in b.calls if not c.indirect and c.decl.endswith(UPD) and c.bb in b.live_blocks()]
        for c in ups:
            n += 1
            how = None
            # (a) under a branch on matches_path(...) == true
            for g, cond, pol in PN._cmp_guards(b, c.bb):
                o = cond
                pl = pol
                while o[0] == "un" and o[1] == "Not":
                    o, pl = o[2], not pl
                if pl and o[0] == "call" and o[1].endswith(MATCH):
                    how = "under `if target.matches_path(entry)` at bb%d" % g
            # (b) on the entry returned by find(|e| matches_path(e))
            if how is None:
                recv = b.origin(c.args[0])
                for nd in walk(recv):
                    if nd[0] == "call" and re.search(r"::(find|find_map)$", nd[1]) and len(nd[2]) == 2:
                        cl = [x[1][1] for x in walk(nd[2][1]) if x[0] == "agg" and isinstance(x[1], tuple) and len(x[1]) > 1 and "{closure#" in str(x[1][1])]
                        if cl and _closure_is_match(F, cl[0]):
                            how = "on the entry found by find(|e| target.matches_path(e))"
            ok = how is not None
            R.ob("GS-penalty-match", "%s: reliability.update %s" % (short(p), how or "NOT tied to matches_path"), ok, True,
                 {"rule": "GS-penalty-match", "fn": p, "loc": c.span.loc, "how": how, "holds": ok})
            if not ok:
                R.violation("GS-penalty-match", "%s/update" % p, "%s applies a reliability penalty to a path entry without that entry having matched the issue's "
                            "target: a failure report changes the score of paths it does not concern" % short(p), c.span.loc)
    R.floor("GS-penalty-match", n, 3, "ReliabilityScore::update calls in ingest_path_issue (2) and apply_cached_issues (1)")


def affected_flag_rule(F, R):
    b = F.body(INGEST)
    if b is None:
        return
    n = 0
    for bb in sorted(b.live_blocks()):
        for st in b.stmts(bb):
            if st[0] == "=" and st[1][1] and isinstance(st[1][1][-1], list) and st[1][1][-1][0] == "f" and st[1][1][-1][2] == "active_path_affected":
                v = b.origin(st[2][1]) if st[2][0] == "use" else None
                if v is None or PN.const_eval(v) != 1:
                    continue          # the initialisation to false
                n += 1
                ok = False
                for g, cond, pol in PN._cmp_guards(b, bb):
                    tk = tokens(cond)
                    if pol and any(t.endswith("::fingerprint") for t in tk) and "field:active_path" in tk and any(t.endswith("::eq") for t in tk):
                        ok = True
                R.ob("FLOW-affected", "active_path_affected = true only when the penalised entry's fingerprint == the active path's", ok, True)
                if not ok:
                    R.violation("FLOW-affected", INGEST + "/flag", "active_path_affected is raised without comparing the penalised entry with the active path: "
                                "either every issue forces a re-evaluation or (if the comparison is gone) none does", b.span_of(st[3]).loc)
    R.floor("FLOW-affected", n, 2, "assignments active_path_affected = true")


def reeval_rule(F, R):
    b = F.body(HANDLE)
    if b is None:
        R.anchor_missing(HANDLE)
        return
    R.fn(HANDLE)
    # the branch on res.active_path_affected
    gs = [g for g in sorted(b.live_blocks()) if FX.bool_edges(b, g) and "field:active_path_affected" in tokens(b.origin(b.term(g)[1]))
          and b.origin(b.term(g)[1])[0] in ("field", "deref", "ref")]
    rer = [c.bb for c in b.calls if not c.indirect and c.decl.endswith("::rerank")]
    upd = [c.bb for c in b.calls if not c.indirect and c.decl.endswith("::maybe_update_active_path")]
    rets = [x for x in b.live_blocks() if b.term(x)[0] == "ret"]
    ok = bool(gs) and bool(rer) and bool(upd)
    why = ""
    if ok:
        for g in gs:
            tt, ff = FX.bool_edges(b, g)
            # from the true edge every path to a return passes rerank and then maybe_update_active_path
            for need, name in ((rer, "rerank"), (upd, "maybe_update_active_path")):
                r = b.reach([tt], avoid=set(need))
                if tt in need:
                    continue
                if any(x in r for x in rets):
                    ok = False
                    why = "a return is reachable from the 'active path affected' edge without %s" % name
            if ok and not all(any(b.dominates(r0, u0) for r0 in rer) for u0 in upd):
                ok, why = False, "maybe_update_active_path is not preceded by rerank"
    else:
        why = "branch on active_path_affected / rerank / maybe_update_active_path not found (%d/%d/%d)" % (len(gs), len(rer), len(upd))
    # ingest result feeds the flag: res comes from ingest_path_issue (+ combine of the drained issues)
    R.ob("MUST-reeval", "handle_issue_rx: active path affected => rerank, then maybe_update_active_path, before returning", ok, True,
         {"rule": "MUST-reeval", "fn": HANDLE, "flag_branches": len(gs), "rerank_calls": len(rer), "update_calls": len(upd), "holds": ok, "why": why})
    if not ok:
        R.violation("MUST-reeval", HANDLE, "after an issue that affects the active path the handler can return without re-ranking and re-deciding the active path (%s): "
                    "the next send still uses the broken path" % why, F.loc(HANDLE))
    # GS-applies: an issue for another pair returns before ingest
    ing = [c.bb for c in b.calls if not c.indirect and c.decl.endswith("::ingest_path_issue")]
    oka = bool(ing)
    for i in ing:
        g_ok = False
        for g, cond, pol in PN._cmp_guards(b, i):
            o, pl = cond, pol
            while o[0] == "un" and o[1] == "Not":
                o, pl = o[2], not pl
            if pl and o[0] == "call" and o[1].endswith("::applies_to_path"):
                g_ok = True
        oka = oka and g_ok
    R.ob("GS-applies", "handle_issue_rx: ingest only when issue.target.applies_to_path(src, dst)", oka, True)
    if not oka:
        R.violation("GS-applies", HANDLE + "/applies", "issues of another source/destination pair are ingested by this path set", F.loc(HANDLE))


def decay_rule(F, R):
    b = F.body(SCORE)
    if b is None:
        R.anchor_missing(SCORE)
        return
    R.fn(SCORE)
    cs = [c for c in b.calls if not c.indirect and c.decl.endswith("::exponential_decay")]
    ok = False
    for c in cs:
        t1 = tokens(b.origin(c.args[1])) if len(c.args) > 1 else set()
        hl = b.origin(c.args[2]) if len(c.args) > 2 else ("top",)
        ok = ok or ("param:2" in t1 and "field:last_updated" in t1 and any(t.endswith("duration_since") for t in t1) and "field:score" in tokens(b.origin(c.args[0]))
                    and "EXPONENTIAL_DECAY_HALFLIFE" in fmt(hl, 120))
    R.ob("FLOW-decay", "ReliabilityScore::score(now) = exponential_decay(self.score, now - last_updated, HALFLIFE)", ok, True)
    if not ok:
        R.violation("FLOW-decay", SCORE, "the reliability score read by ranking no longer decays with the time since the last update: a penalised path never "
                    "becomes eligible again (or penalties vanish at once)", F.loc(SCORE))


UPDATE = "scion_stack::path::manager::reliability::ReliabilityScore::update"


def update_rule(F, R):
    """FLOW-update: ReliabilityScore::update(penalty, now) stores score := clamp(self.score(now).value() + penalty.value())
    and last_updated := now — the very `now` the decayed score was taken at.  The stored pair (score, last_updated) is the
    state FLOW-decay reads: a reference time older than `now` makes the next read decay the fresh penalty by the age of
    the entry (a failure reported long after the fetch no longer moves the ranking); a newer one freezes old penalties."""
    b = F.body(UPDATE)
    if b is None:
        R.anchor_missing(UPDATE)
        return
    R.fn(UPDATE)
    stores = {}
    for bb in sorted(b.live_blocks()):
        for st in b.stmts(bb):
            if st[0] == "=" and st[1][0] == 1 and len(st[1][1]) == 2 and st[1][1][0] == "*" and st[1][1][1][0] == "f" and st[2][0] == "use":
                stores.setdefault(st[1][1][1][2], []).append(strip_sites(b.origin(st[2][1])))
    lu = stores.get("last_updated", [])
    def _lu_ok(t):
        if t == ("param", 3):
            return True
        # monotone form max(self.last_updated, now)
        if t[0] == "call" and re.search(r"::max$", t[1]) and len(t[2]) == 2:
            a, c = t[2]
            for (x, y) in ((a, c), (c, a)):
                yy = y
                while isinstance(yy, tuple) and yy and yy[0] in ("ref", "deref"):
                    yy = yy[2] if yy[0] == "ref" else yy[1]
                if x == ("param", 3) and yy[0] == "field" and yy[2] == "last_updated":
                    return True
        return False
    ok_lu = len(lu) == 1 and _lu_ok(lu[0])
    undecided = len(lu) == 1 and not ok_lu and "param:3" in tokens(lu[0]) and not any(n[0] == "call" and re.search(r"::min$", n[1]) for n in walk(lu[0])) \
        and not any(n[0] == "bin" for n in walk(lu[0]))
    R.ob("FLOW-update", "update(): last_updated := now (the parameter itself or max(last_updated, now), one store)%s" % (" — form not recognised, not decided" if undecided else ""),
         ok_lu or undecided, not undecided, {"rule": "FLOW-update", "stores": [fmt(x, 160) for x in lu]})
    if not ok_lu and not undecided:
        R.violation("FLOW-update", UPDATE + "/last_updated",
                    "ReliabilityScore::update stores last_updated := %s instead of the `now` the penalty was applied at: the next "
                    "score(now') decays the fresh penalty by the wrong age, so a failure reported long after the path was fetched "
                    "does not move it down the ranking" % ", ".join(fmt(x, 120) for x in lu), F.loc(UPDATE))
    sc = stores.get("score", [])
    ok_sc = False
    if len(sc) == 1:
        t = sc[0]
        adds = [x for x in walk(t) if x[0] == "bin" and x[1] == "Add"]
        for a in adds:
            tl, tr = tokens(a[2]), tokens(a[3])
            for (x, y, tx, ty) in ((a[2], a[3], tl, tr), (a[3], a[2], tr, tl)):
                sc_calls = [n for n in walk(x) if n[0] == "call" and n[1].endswith("ReliabilityScore::score")]
                if sc_calls and all(strip_sites(n[2][1]) == ("param", 3) for n in sc_calls) and "param:2" in ty and "param:3" not in ty \
                        and not any(n[0] == "call" and n[1].endswith("ReliabilityScore::score") for n in walk(y)):
                    ok_sc = True
    R.ob("FLOW-update", "update(): score := clamp(self.score(now) + penalty)", ok_sc, True, {"rule": "FLOW-update", "stores": [fmt(x, 200) for x in sc]})
    if not ok_sc:
        R.violation("FLOW-update", UPDATE + "/score", "ReliabilityScore::update no longer stores decayed(self, now) + penalty: %s" % ", ".join(fmt(x, 160) for x in sc), F.loc(UPDATE))


MPC = "scion_stack::path::manager::issues::IssueMarkerTarget::matches_path_checked"


def _const_true(b):
    """every write to the return place is the constant `true`"""
    n = 0
    for bb in sorted(b.live_blocks()):
        for st in b.stmts(bb):
            if st[0] == "=" and st[1][0] == 0:
                n += 1
                if not (st[2][0] == "use" and st[2][1][0] == "k" and st[2][1][1].get("ty") == "bool" and st[2][1][1].get("v") == 1):
                    return False
        t = b.term(bb)
        if t[0] == "call" and t[3] and t[3][0] == 0:
            return False
    return n > 0


def _reads_hops(F, p, depth=2, seen=None):
    seen = seen if seen is not None else set()
    if p in seen or depth < 0:
        return False
    seen.add(p)
    b = F.body(p)
    if b is None:
        return False
    for bb in sorted(b.live_blocks()):
        for st in b.stmts(bb):
            if "'interfaces'" in str(st) or "'metadata'" in str(st):
                return True
    for c in b.calls:
        nm = c.callee or ""
        if nm.endswith("ScionPath::metadata") or nm.endswith("::interfaces") or "PathInterface" in nm:
            return True
        if nm.startswith("scion_stack::") and _reads_hops(F, nm, depth - 1, seen):
            return True
    return False


def _reads_endpoints(F, p, depth=2, seen=None):
    seen = seen if seen is not None else set()
    if p in seen or depth < 0:
        return False
    seen.add(p)
    b = F.body(p)
    if b is None:
        return False
    for c in b.calls:
        nm = c.callee or ""
        if re.search(r"ScionPath::(src_ia|dst_ia|source|destination|src|dst|src_isd_asn|dst_isd_asn)$", nm):
            return True
        if nm.startswith("scion_stack::") and _reads_endpoints(F, nm, depth - 1, seen):
            return True
    for bb in sorted(b.live_blocks()):
        for st in b.stmts(bb):
            if re.search(r"'(src_ia|dst_ia|source|destination)'", str(st)):
                return True
    return False


def precheck_rule(F, R):
    """GS-precheck: `matches_path_checked(.., might_include_check)` returns false for an Interface target as soon as the
    pre-check says no, before the interface list is scanned.  The transit ASes of a path are recorded only in
    `metadata.interfaces`; a stateless pre-check (fn item or capture-less closure) that can answer false without reading
    them decides from the target and the path's endpoints alone and necessarily skips some path that crosses the reported
    AS in the middle — the report then matches nothing, no penalty is applied and the active path is kept.  Decided:
    constant-true pre-checks (accepted), stateless pre-checks that read the path's endpoints (src_ia/dst_ia) but never
    the hop list (violation).  Pre-checks that read the hop list, capture state, or read neither are listed as not decided."""
    sites = [(p, c) for (p, c) in T.call_sites(F, lambda n: n == MPC, crates=["scion_stack"])]
    R.floor("GS-precheck", len(sites), 1, "matches_path_checked call sites")
    for (p, c) in sites:
        pb = F.body(p)
        R.fn(p)
        o = strip_sites(pb.origin(c.args[3]))
        target = None
        caps = None
        if o[0] == "agg" and o[1][0] == "closure":
            target, caps = o[1][1], len(o[2])
        elif o[0] == "fnref":
            target, caps = o[2] or o[1], 0
        if target is None or F.body(target) is None or caps:
            R.ob("GS-precheck", "pre-check passed by %s: %s — stateful or unresolved, not decided" % (short(p), fmt(o, 100)), True, False)
            continue
        tb = F.body(target)
        R.fn(target)
        if _const_true(tb):
            R.ob("GS-precheck", "pre-check %s is the constant true (every path reaches the interface scan)" % short(target), True, True,
                 {"rule": "GS-precheck", "site": p, "precheck": target, "verdict": "constant true"})
            continue
        if _reads_hops(F, target):
            R.ob("GS-precheck", "pre-check %s reads the hop list — soundness not decided" % short(target), True, False,
                 {"rule": "GS-precheck", "site": p, "precheck": target, "verdict": "reads hops, not decided"})
            continue
        if not _reads_endpoints(F, target):
            R.ob("GS-precheck", "pre-check %s reads neither the hop list nor the path's endpoints — not decided" % short(target), True, False,
                 {"rule": "GS-precheck", "site": p, "precheck": target, "verdict": "stateless, no endpoints, not decided"})
            continue
        R.ob("GS-precheck", "pre-check %s can answer false from the path's endpoints without reading the hop list" % short(target), False, True,
             {"rule": "GS-precheck", "site": p, "precheck": target, "verdict": "violation"})
        R.violation("GS-precheck", p + "/precheck",
                    "%s passes %s as might_include_check: it can answer false without reading metadata.interfaces, the only record of "
                    "a path's transit ASes — an interface-down / connectivity-down report from a transit AS is then matched against "
                    "no path (no penalty, no switch-over)" % (short(p), short(target)), c.span.loc)


def run(F, R, tier, cfg):
    penalty_match_rule(F, R)
    affected_flag_rule(F, R)
    reeval_rule(F, R)
    decay_rule(F, R)
    update_rule(F, R)
    precheck_rule(F, R)
    target_flow_rule(F, R)
    penalty_sign_rule(F, R)
    burst_combine_rule(F, R)
    cache_refresh_rule(F, R)


TARGET = "scion_stack::path::manager::issues::IssueKind::target_type"
PENALTY = "scion_stack::path::manager::issues::IssueKind::penalty"
SEM = "sciparse::proto::payload::scmp::model::ScmpErrorMessage"


def target_flow_rule(F, R):
    """FLOW-target: the failure report is turned into the marker that is later matched against paths.  Interface-down /
    connectivity-down / first-hop failures must name the AS and the interface(s) of *that* report: Interface{isd_asn <-
    msg.isd_asn, egress_filter <- msg.interface_id | msg.egress_interface_id, ingress_filter <- None | Some(msg.
    ingress_interface_id)}, FirstHop{isd_asn <- err.isd_asn, egress_interface <- err.interface_id}.  Swapped or dropped
    fields make the report match the wrong paths (or none), which the GS rules above cannot see."""
    b = F.body(TARGET)
    if b is None:
        R.anchor_missing(TARGET)
        return
    R.fn(TARGET)
    n = 0
    for bb in sorted(b.live_blocks()):
        for st in b.stmts(bb):
            if not (st[0] == "=" and st[2][0] == "agg" and st[2][1][0] == "adt" and st[2][1][1].endswith("issues::IssueMarkerTarget")):
                continue
            var = st[2][1][2]
            if var not in ("Interface", "FirstHop"):
                continue
            n += 1
            names = st[2][1][4] if len(st[2][1]) > 4 else []
            ops = {k: strip_sites(b.origin(o)) for k, o in zip(names, st[2][2])}
            tk = {k: tokens(v) for k, v in ops.items()}
            src_variants = {x[2] for v in ops.values() for x in walk(v) if x[0] == "downcast" and x[2] in ("ExternalInterfaceDown", "InternalConnectivityDown", "FirstHopUnreachable")}
            ok = len(src_variants) == 1 and "field:isd_asn" in tk.get("isd_asn", ())
            if var == "Interface":
                eg = tk.get("egress_filter", set())
                ing = ops.get("ingress_filter", ("top",))
                ok = ok and (("field:interface_id" in eg) or ("field:egress_interface_id" in eg)) and "field:ingress_interface_id" not in eg
                if "InternalConnectivityDown" in src_variants:
                    ok = ok and ing[0] == "agg" and ing[1][2] == "Some" and "field:ingress_interface_id" in tokens(ing)
                else:
                    ok = ok and ing[0] == "agg" and ing[1][2] == "None"
            else:
                ok = ok and "field:interface_id" in tk.get("egress_interface", ())
            R.ob("FLOW-target", "%s marker built from the fields of the %s report" % (var, sorted(src_variants)), ok, True,
                 {"rule": "FLOW-target", "variant": var, "source": sorted(src_variants), "fields": {k: fmt(v, 80) for k, v in ops.items()}, "holds": ok})
            if not ok:
                R.violation("FLOW-target", "%s/%s/%s" % (TARGET, var, "+".join(sorted(src_variants))), "the %s marker is not built from the AS / interface fields of the report it "
                            "stands for (%s): the failure is attributed to the wrong interface and the paths using the broken one keep their score"
                            % (var, {k: fmt(v, 60) for k, v in ops.items()}), b.span_of(st[3]).loc)
    R.floor("FLOW-target", n, 3, "Interface (2) and FirstHop (1) markers in IssueKind::target_type")


def _f32(bits):
    import struct
    return struct.unpack("<f", struct.pack("<I", bits & 0xffffffff))[0]


def penalty_sign_rule(F, R):
    """PEN-link: a link-failure report carries a strictly negative penalty (interface down, connectivity down, first hop
    unreachable); with a zero penalty the report is ingested and nothing is steered away."""
    b = F.body(PENALTY)
    adt = F.adts.get(SEM)
    if b is None or adt is None:
        R.anchor_missing(PENALTY if b is None else SEM)
        return
    R.fn(PENALTY)
    disc = {v[0]: v[1] for v in adt["variants"]}
    # the switch over the SCMP error kind
    found = {}
    for g in sorted(b.live_blocks()):
        t = b.term(g)
        if t[0] != "switch":
            continue
        o = b.origin(t[1])
        if o[0] != "disc":
            continue
        x = PN._peel_refs(strip_sites(o[1]))
        if not (x[0] == "field" and x[2] == "error"):
            continue
        arms = {v: tg for v, tg in t[2]}
        for name in ("ExternalInterfaceDown", "InternalConnectivityDown"):
            tg = arms.get(disc.get(name), t[3])
            cur = tg
            val = None
            for _ in range(6):
                for st in b.stmts(cur):
                    if st[0] == "=" and st[2][0] == "use":
                        k = FX.op_const(st[2][1])
                        if k and k.get("ty") == "f32" and isinstance(k.get("v"), int):
                            val = _f32(k["v"])
                if val is not None:
                    break
                tt = b.term(cur)
                if tt[0] in ("goto", "falseedge", "falseunwind"):
                    cur = tt[1]
                else:
                    break
            found[name] = val
    # first hop
    fh = None
    for bb in sorted(b.live_blocks()):
        pass
    lits = sorted({_f32(x[1]) for x in walk(b.origin([c for c in b.calls if c.decl.endswith("new_clamped")][0].args[0])) if x[0] == "lit" and x[2] == "f32"}) \
        if [c for c in b.calls if c.decl.endswith("new_clamped")] else []
    ok = all(found.get(nm) is not None and found[nm] < 0 for nm in ("ExternalInterfaceDown", "InternalConnectivityDown"))
    R.ob("PEN-link", "penalty(ExternalInterfaceDown)=%s, penalty(InternalConnectivityDown)=%s (all penalty constants: %s)" % (found.get("ExternalInterfaceDown"), found.get("InternalConnectivityDown"), lits),
         ok, True, {"rule": "PEN-link", "values": found, "all_constants": lits, "holds": ok})
    if not ok:
        R.violation("PEN-link", PENALTY, "a link-failure SCMP error does not carry a strictly negative penalty (%s): the report is ingested and ranked, and nothing "
                    "is steered away from the broken interface" % found, F.loc(PENALTY))


ADD_ISSUE = "scion_stack::path::manager::PathIssueManager::add_issue"
DRAIN = "drain_and_apply_issue_channel"


def burst_combine_rule(F, R):
    """FLOW-burst: handle_issue_rx ingests the received issue *and* drains every issue queued behind it; whether the active
    path is re-decided must depend on all of them: the result of the drain is combined into the result whose
    `active_path_affected` flag is branched on (a `combine` call taking the ingest result and the drain result, dominating the
    branch).  Otherwise a burst whose first report misses the active path and whose later one hits it leaves traffic on the
    broken interface."""
    b = F.body(HANDLE)
    if b is None:
        return
    ing = [c for c in b.calls if not c.indirect and c.decl.endswith("::ingest_path_issue")]
    dr = [c for c in b.calls if not c.indirect and c.decl.endswith("::" + DRAIN)]
    gs = [g for g in sorted(b.live_blocks()) if FX.bool_edges(b, g) and "field:active_path_affected" in tokens(b.origin(b.term(g)[1]))
          and b.origin(b.term(g)[1])[0] in ("field", "deref", "ref")]
    comb = [c for c in b.calls if not c.indirect and c.decl.endswith("PathIssueIngestResult::combine") and c.bb in b.live_blocks()]
    ok, why = False, "no combine(ingest result, drain result) before the branch on active_path_affected"
    if not dr:
        ok, why = True, "no drain in this handler"
    for c in comb:
        t0, t1 = tokens(b.origin(c.args[0])), tokens(b.origin(c.args[1]))
        both = (any(t.endswith("::ingest_path_issue") for t in t0) and any(t.endswith("::" + DRAIN) for t in t1)) or \
               (any(t.endswith("::ingest_path_issue") for t in t1) and any(t.endswith("::" + DRAIN) for t in t0))
        if both and gs and all(b.dominates(c.bb, g) for g in gs):
            # and the branched flag belongs to the combined value (the &mut receiver of combine)
            recv = PN._peel_refs(strip_sites(b.origin(c.args[0])))
            flag_of = [PN._peel_refs(strip_sites(b.origin(b.term(g)[1]))) for g in gs]
            if all(f[0] == "field" and PN._peel_refs(f[1]) == recv for f in flag_of):
                ok, why = True, "combine dominates the branch and the flag is read from the combined value"
            else:
                why = "the flag that is branched on is not read from the combined value"
    R.ob("FLOW-burst", "handle_issue_rx: re-evaluation depends on the received issue and on every drained one (%s)" % why, ok, True,
         {"rule": "FLOW-burst", "ingest_calls": len(ing), "drain_calls": len(dr), "combine_calls": len(comb), "holds": ok, "why": why})
    if not ok:
        R.violation("FLOW-burst", HANDLE + "/combine", "the decision to re-evaluate the active path ignores the issues drained behind the first one (%s): a burst "
                    "whose later report hits the active path leaves traffic on the interface just reported down" % why, F.loc(HANDLE))


def cache_refresh_rule(F, R):
    """FLOW-refresh: an issue that passes the de-duplication window is cached with *this* report's marker (timestamp), because
    penalties replayed onto newly fetched paths decay from the cached timestamp: every path through add_issue that queues the
    report (fifo push) also `insert`s the new marker into the cache, replacing an older one.  `entry().or_insert()` keeps the
    first report's timestamp and a re-reported failure is replayed already decayed."""
    b = F.body(ADD_ISSUE)
    if b is None:
        R.anchor_missing(ADD_ISSUE)
        return
    R.fn(ADD_ISSUE)
    pushes = [c for c in b.calls if not c.indirect and c.decl.endswith("::push_back") and "field:fifo_issues" in tokens(b.origin(c.args[0])) and c.bb in b.live_blocks()]
    ins = [c for c in b.calls if not c.indirect and re.search(r"HashMap::<K, V, S>::insert$|HashMap<K, V, S>::insert$|::insert$", c.decl)
           and "field:cache" in tokens(b.origin(c.args[0])) and c.bb in b.live_blocks()]
    keep_old = [c for c in b.calls if not c.indirect and re.search(r"::(or_insert|or_insert_with|or_default|try_insert)$", c.decl) and c.bb in b.live_blocks()]
    ok = bool(pushes) and bool(ins) and not keep_old
    for pcall in pushes:
        ok = ok and any(b.dominates(pcall.bb, i.bb) or b.dominates(i.bb, pcall.bb) for i in ins)
    for i in ins:
        # the inserted value is the marker parameter itself
        ok = ok and len(i.args) >= 3 and PN._peel_refs(strip_sites(b.origin(i.args[2]))) == ("param", 3)
    R.ob("FLOW-refresh", "add_issue: the queued report's marker replaces the cached one (cache.insert(id, marker))", ok, True,
         {"rule": "FLOW-refresh", "fifo_pushes": len(pushes), "cache_inserts": len(ins), "keep_old_calls": [short(c.decl) for c in keep_old], "holds": ok})
    if not ok:
        R.violation("FLOW-refresh", ADD_ISSUE, "a re-reported issue does not replace the cached marker (%d insert(s), keep-old calls %s): penalties replayed onto newly "
                    "fetched paths decay from the first report's timestamp, so the failed interface is chosen again while the report is fresh"
                    % (len(ins), [short(c.decl) for c in keep_old]), F.loc(ADD_ISSUE))
