"""Interval abstract interpretation over the fact base (no scion-sdk code is executed).

`eval_iv(F, fn, args)` evaluates the MIR of `fn` over the domain
    iv(lo, hi)  unsigned integer intervals      Agg  aggregates of such      TOP  anything
following *every* CFG successor of a switch whose operand is not a single value and joining the
results (interval hull), so the answer over-approximates the set of values the function can return
for any concrete arguments inside the abstract ones.  Arithmetic that may leave the result type's range
(wrap in release, panic in dev) yields the full range of the type.  Loops are cut after two visits of a
block on one path (result TOP).  Unknown calls yield the full range of their unsigned return type; the
few integer intrinsics the layouts use (min, max, saturating_sub, saturating_add, len) are modelled.

Used for lower bounds: `lb(required_size)` of an encoder — the number of bytes the encode contract
guarantees — and for evaluating `BitRange::shift(const, const)` style range expressions.
"""
import re

import facts as FX
from absint import Agg, W

TOP = ("?",)
LEN_MAX = (1 << 63) - 1      # slice / Vec / Bytes lengths never exceed isize::MAX


BIG = 1 << 70       # stride of the constant 0 (a multiple of every power of two)


def _stride_of(v):
    """largest power of two dividing the constant v"""
    if v == 0:
        return BIG
    return v & -v


def iv(lo, hi=None, m=None):
    """interval [lo, hi] of values that are all multiples of the power of two m (congruence component; 1 = no information)"""
    hi = lo if hi is None else hi
    if m is None:
        m = _stride_of(lo) if lo == hi else 1
    elif lo == hi:
        m = max(m, _stride_of(lo)) if lo % min(m, BIG) == 0 else _stride_of(lo)
    return ("iv", lo, hi, m)


def is_iv(v):
    return isinstance(v, tuple) and len(v) == 4 and v[0] == "iv"


def stride(v):
    return v[3] if is_iv(v) else 1


def tymax(ty):
    if ty in W and not ty.startswith("i"):
        return (1 << W[ty]) - 1
    return None


def top_of(ty):
    m = tymax(ty)
    return iv(0, m) if m is not None else TOP


def join(a, b):
    if a is None:
        return b
    if b is None:
        return a
    if is_iv(a) and is_iv(b):
        return iv(min(a[1], b[1]), max(a[2], b[2]), min(a[3], b[3]))
    if isinstance(a, Agg) and isinstance(b, Agg) and a.adt == b.adt and a.variant == b.variant and len(a.fields) == len(b.fields):
        return Agg(a.adt, a.variant, a.idx, [join(x, y) for x, y in zip(a.fields, b.fields)], a.names)
    if isinstance(a, tuple) and isinstance(b, tuple) and a and b and a[0] == "tuple" and b[0] == "tuple" and len(a[1]) == len(b[1]):
        return ("tuple", [join(x, y) for x, y in zip(a[1], b[1])])
    return TOP


def _fit(lo, hi, ty, m=1):
    mx = tymax(ty)
    if mx is None:
        return iv(lo, hi, m) if lo >= 0 else TOP
    if lo < 0 or hi > mx:
        # wrapped modulo 2^w: a power-of-two stride below 2^w survives the wrap
        return iv(0, mx, m if m <= mx else 1)
    return iv(lo, hi, m)


def _bin(op, a, c, ty):
    """a, c intervals; returns (value, may_overflow)"""
    al, ah, cl, ch = a[1], a[2], c[1], c[2]
    ma, mc = a[3], c[3]
    m = tymax(ty)
    st = 1
    if op == "Add":
        lo, hi, st = al + cl, ah + ch, min(ma, mc)
    elif op == "Sub":
        lo, hi, st = al - ch, ah - cl, min(ma, mc)
    elif op == "Mul":
        lo, hi, st = al * cl, ah * ch, min(BIG, ma * mc)
    elif op == "Div":
        if cl <= 0:
            return top_of(ty), True
        lo, hi = al // ch, ah // cl
        if cl == ch and (cl & (cl - 1)) == 0 and ma % cl == 0:
            st = ma // cl
    elif op == "Rem":
        if cl <= 0:
            return top_of(ty), True
        if al == ah and cl == ch:
            lo, hi = al % cl, al % cl
        elif cl == ch and (cl & (cl - 1)) == 0 and ma % cl == 0:
            lo, hi = 0, 0
        else:
            lo, hi = 0, min(ah, ch - 1)
    elif op == "BitAnd":
        if al == ah and cl == ch:
            lo, hi = al & cl, al & cl
        elif cl == ch and (cl & (cl + 1)) == 0 and (al >> cl.bit_length()) == (ah >> cl.bit_length()):
            lo, hi = al & cl, ah & cl          # low-bit mask of an interval inside one 2^k block: monotone
        else:
            lo, hi = 0, min(ah, ch)
        st = max(min(ma, BIG), min(mc, BIG)) if (ma < BIG or mc < BIG) else BIG     # x & y is a multiple of both strides' max
    elif op in ("BitOr", "BitXor"):
        if al == ah and cl == ch:
            v = (al | cl) if op == "BitOr" else (al ^ cl)
            lo, hi = v, v
        else:
            lo, hi = (max(al, cl) if op == "BitOr" else 0), (1 << max(ah.bit_length(), ch.bit_length())) - 1
        st = min(ma, mc)
    elif op == "Shl":
        if cl != ch or not 0 <= cl < 128:
            return top_of(ty), True
        lo, hi, st = al << cl, ah << cl, min(BIG, ma << cl)
    elif op == "Shr":
        if cl != ch or not 0 <= cl < 128:
            return top_of(ty), True
        lo, hi = al >> cl, ah >> cl
        st = max(1, ma >> cl)
    elif op in ("Eq", "Ne", "Lt", "Le", "Gt", "Ge"):
        def dec(t, f):
            return iv(1) if t else (iv(0) if f else iv(0, 1))
        if op == "Lt":
            return dec(ah < cl, al >= ch), False
        if op == "Le":
            return dec(ah <= cl, al > ch), False
        if op == "Gt":
            return dec(al > ch, ah <= cl), False
        if op == "Ge":
            return dec(al >= ch, ah < cl), False
        if op == "Eq":
            return dec(al == ah == cl == ch, ah < cl or al > ch), False
        return dec(ah < cl or al > ch, al == ah == cl == ch), False
    else:
        return top_of(ty), True
    ovf = lo < 0 or (m is not None and hi > m)
    if op == "Add" and ty == "usize" and lo <= m < hi:
        # ASSUMPTION (no usize wrap on additions of sizes): a wrap needs operands summing to > 2^64, i.e. more live
        # bytes than the address space holds; dev builds panic instead.  Keeps the lower bound, saturates the upper.
        return iv(lo, m, st), True
    if op == "Sub" and lo < 0:
        st = st if (m is not None and st <= m) else 1
    return _fit(lo, hi, ty, st), ovf


def intrinsic2(callee, vals, rty):
    """integer intrinsics of two interval arguments (None when not modelled)"""
    if not (len(vals) == 2 and all(is_iv(x) for x in vals)):
        return None
    a, c = vals
    stm = min(a[3], c[3])
    if callee.endswith("::saturating_sub"):
        return iv(max(0, a[1] - c[2]), max(0, a[2] - c[1]), stm)        # 0 is a multiple of everything
    if callee.endswith("::saturating_add"):
        m = tymax(rty) or (1 << 64) - 1
        return iv(min(m, a[1] + c[1]), min(m, a[2] + c[2]), stm if a[2] + c[2] <= m else 1)
    if callee.endswith(("::Ord::min", "core::cmp::min")):
        return iv(min(a[1], c[1]), min(a[2], c[2]), stm)
    if callee.endswith(("::Ord::max", "core::cmp::max")):
        return iv(max(a[1], c[1]), max(a[2], c[2]), stm)
    if callee.endswith("::is_multiple_of") and c[1] == c[2] and c[1] > 0:
        k0 = c[1]
        if (k0 & (k0 - 1)) == 0 and a[3] % k0 == 0:
            return iv(1)
        if a[1] == a[2]:
            return iv(int(a[1] % k0 == 0))
        return iv(0, 1)
    if callee.endswith("::div_ceil") and c[1] == c[2] and c[1] > 0:
        k0 = c[1]
        if (k0 & (k0 - 1)) == 0 and a[3] % k0 == 0:
            return iv(a[1] // k0, a[2] // k0, a[3] // k0)
        return iv(-(-a[1] // k0), -(-a[2] // k0))
    return None


def eval_tree(F, t, params=None, depth=6):
    """abstract value of an origin tree: constants, arithmetic, aggregates, and calls of functions with bodies evaluated by
    eval_iv over the abstract arguments; parameters are TOP unless given in `params` (dict index -> value)"""
    import panic as PN
    if not isinstance(t, tuple) or not t or depth < 0:
        return TOP
    k = t[0]
    if k in ("lit", "const"):
        br = PN._const_bitrange(F, t)
        if br is not None:
            return Agg("sciparse::core::layout::BitRange", "BitRange", 0, [iv(br[0]), iv(br[1])], ["start", "end"])
        c = PN.const_eval(t)
        return iv(c) if c is not None and c >= 0 else TOP
    if k == "param":
        return (params or {}).get(t[1], TOP)
    if k == "ref" and len(t) == 3:
        return eval_tree(F, t[2], params, depth)
    if k == "deref" and len(t) == 2:
        return eval_tree(F, t[1], params, depth)
    if k == "cast" and len(t) >= 5:
        v = eval_tree(F, t[2], params, depth)
        if is_iv(v):
            m = tymax(t[4])
            return v if (m is not None and v[2] <= m) else top_of(t[4])
        return top_of(t[4]) if str(t[1]).startswith("IntToInt") else v
    if k == "bin" and len(t) == 4:
        a, c = eval_tree(F, t[2], params, depth), eval_tree(F, t[3], params, depth)
        op = t[1].replace("Unchecked", "")
        wo = op.endswith("WithOverflow")
        op = op.replace("WithOverflow", "")
        if is_iv(a) and is_iv(c):
            r, o = _bin(op, a, c, "usize")
        else:
            r, o = (iv(0, 1), False) if op in ("Eq", "Ne", "Lt", "Le", "Gt", "Ge") else (top_of("usize"), True)
        return ("tuple", [r, iv(0, 1) if o else iv(0)]) if wo else r
    if k == "field" and len(t) == 3:
        v = eval_tree(F, t[1], params, depth)
        if isinstance(v, Agg):
            if v.names and t[2] in v.names:
                return v.fields[v.names.index(t[2])]
            adt = F.adts.get(v.adt)
            if adt:
                try:
                    names = [f[0] for f in adt["variants"][v.idx][2]]
                    if t[2] in names and names.index(t[2]) < len(v.fields):
                        return v.fields[names.index(t[2])]
                except Exception:
                    pass
            return TOP
        if isinstance(v, tuple) and v and v[0] == "tuple" and str(t[2]).isdigit() and int(t[2]) < len(v[1]):
            return v[1][int(t[2])]
        return TOP
    if k == "downcast":
        v = eval_tree(F, t[1], params, depth)
        return v if isinstance(v, Agg) and v.variant == t[2] else TOP
    if k == "agg":
        vals = [eval_tree(F, x, params, depth) for x in t[2]]
        kind = t[1]
        if kind[0] == "adt":
            names = None
            adt = F.adts.get(kind[1])
            if adt:
                try:
                    names = [f[0] for f in adt["variants"][kind[3]][2]]
                except Exception:
                    names = None
            return Agg(kind[1], kind[2], kind[3], vals, names)
        if kind[0] == "tuple":
            return ("tuple", vals)
        return TOP
    if k == "phi":
        r = None
        for a in t[1]:
            if isinstance(a, tuple):
                r = join(r, eval_tree(F, a, params, depth))
        return r if r is not None else TOP
    if k == "call":
        vals = [eval_tree(F, a, params, depth - 1) for a in t[2]]
        r = intrinsic2(t[1], vals, "usize")
        if r is not None:
            return r
        if F.has_body(t[1]):
            r = eval_iv(F, t[1], vals)
            return TOP if r is None else r
        if re.search(r"::(len|required_size|size_bytes)$", t[1]):
            return iv(0, LEN_MAX)
        return TOP
    return TOP


LOOP_VISITS = 4      # a block may be entered this often on one path (concrete `for _ in 0..k` loops with k <= 3 are unrolled)


def _split16(v):
    """sub-intervals of a u32 interval per 2^16 block, when it straddles 1..3 block boundaries; else None"""
    if not is_iv(v):
        return None
    lo, hi = v[1], v[2]
    a, c = lo >> 16, hi >> 16
    if a == c or c - a > 3:
        return None
    out = []
    for k in range(a, c + 1):
        out.append(iv(max(lo, k << 16), min(hi, ((k + 1) << 16) - 1)))
    return out


class _Fuel:
    def __init__(self, n):
        self.n = n


def eval_iv(F, fn, args, depth=6, fuel=None, probes=None, state=None):
    """args: abstract values for parameters 1..n.  Returns an abstract value (TOP when nothing is known).
    probes: {(bb, stmt_idx): []} — for `bin` statements at those positions the abstract values of both operands
    are appended on every visit; state["incomplete"] is set when exploration of this function was cut (fuel, loop),
    in which case the probe lists do not cover all paths."""
    b = F.body(fn)
    if b is None or depth < 0:
        return TOP
    fuel = fuel or _Fuel(150000)      # global budget of one top-level evaluation, shared with nested calls
    local = _Fuel(4000)               # budget of this invocation's own blocks

    def run(cur, env, refs, seen, si0=0):
        """evaluate from block `cur` (statement si0); returns joined return value"""
        first = True
        while True:
            start = si0 if first else 0
            first = False
            fuel.n -= 1
            local.n -= 1
            if fuel.n < 0 or local.n < 0:
                if state is not None:
                    state["incomplete"] = True
                return TOP
            if not start:
                seen = dict(seen)
                seen[cur] = seen.get(cur, 0) + 1
                if seen[cur] > LOOP_VISITS:
                    if state is not None:
                        state["incomplete"] = True
                    return TOP

            def place_val(pl):
                base_l, base_proj = pl[0], list(pl[1])
                g = 0
                while base_l in refs and base_l not in env and g < 8:      # value semantics for references to tracked places
                    rl, rp = refs[base_l]
                    base_l, base_proj = rl, list(rp) + (base_proj[1:] if base_proj and base_proj[0] == "*" else base_proj)
                    g += 1
                if base_l not in env:
                    return TOP
                v = env[base_l]
                for p in base_proj:
                    if p == "*":
                        continue
                    if isinstance(p, list) and p[0] == "f":
                        if isinstance(v, Agg):
                            v = v.fields[p[1]] if p[1] < len(v.fields) else TOP
                        elif isinstance(v, tuple) and v and v[0] == "tuple":
                            v = v[1][p[1]] if p[1] < len(v[1]) else TOP
                        else:
                            return TOP
                    elif isinstance(p, list) and p[0] == "dc":
                        if isinstance(v, Agg) and v.variant == p[1]:
                            continue
                        return TOP
                    else:
                        return TOP
                return v

            def resolve_place(pl):
                base_l, base_proj = pl[0], list(pl[1])
                g = 0
                while base_l in refs and base_l not in env and g < 8:
                    rl, rp = refs[base_l]
                    base_l, base_proj = rl, list(rp) + (base_proj[1:] if base_proj and base_proj[0] == "*" else base_proj)
                    g += 1
                return base_l, base_proj

            def op_val(op):
                k = FX.op_const(op)
                if k is not None:
                    v = k.get("v")
                    if isinstance(v, bool):
                        return iv(int(v))
                    if isinstance(v, int):
                        return iv(v) if v >= 0 else TOP
                    if isinstance(v, str) and v.startswith("0x") and len(v) == 34 and str(k.get("ty", "")).endswith("::BitRange"):
                        bts = bytes.fromhex(v[2:])
                        return Agg(k["ty"], "BitRange", 0, [iv(int.from_bytes(bts[:8], "little")), iv(int.from_bytes(bts[8:], "little"))], ["start", "end"])
                    return TOP
                return place_val(op[1])

            def rvalue(rv, ty):
                k = rv[0]
                if k == "use":
                    return op_val(rv[1])
                if k == "cast" and rv[1] == "IntToInt":
                    v = op_val(rv[2])
                    if is_iv(v):
                        m = tymax(rv[4])
                        return v if (m is not None and v[2] <= m) else top_of(rv[4])
                    return top_of(rv[4])
                if k == "bin":
                    a, c = op_val(rv[2]), op_val(rv[3])
                    op = rv[1].replace("Unchecked", "")
                    wo = op.endswith("WithOverflow")
                    op = op.replace("WithOverflow", "")
                    rty = ty.strip("()").split(",")[0].strip() if wo and ty else ty
                    if not (is_iv(a) and is_iv(c)):
                        r, o = top_of(rty), True
                        if op in ("Eq", "Ne", "Lt", "Le", "Gt", "Ge"):
                            r, o = iv(0, 1), False
                    else:
                        r, o = _bin(op, a, c, rty)
                    if wo:
                        return ("tuple", [r, iv(0, 1) if o else iv(0)])
                    return r
                if k == "un":
                    v = op_val(rv[2])
                    if is_iv(v) and rv[1] == "Not" and ty == "bool":
                        return iv(1 - v[2], 1 - v[1])
                    return top_of(ty)
                if k == "disc":
                    v = place_val(rv[1])
                    if isinstance(v, Agg):
                        adt = F.adts.get(v.adt)
                        if adt:
                            for var in adt["variants"]:
                                if var[0] == v.variant:
                                    return iv(var[1]) if isinstance(var[1], int) and var[1] >= 0 else TOP
                        return iv(v.idx)
                    return TOP
                if k == "agg":
                    kind = rv[1]
                    vals = [op_val(o) for o in rv[2]]
                    if kind[0] == "adt":
                        return Agg(kind[1], kind[2], kind[3], vals, kind[4] if len(kind) > 4 else None)
                    if kind[0] == "tuple":
                        return ("tuple", vals)
                    return TOP
                return TOP

            stmts_ = b.stmts(cur)
            for si in range(start, len(stmts_)):
                st = stmts_[si]
                if st[0] == "=":
                    l, proj = st[1]
                    if probes is not None and (cur, si) in probes and st[2][0] == "bin":
                        probes[(cur, si)].append((op_val(st[2][2]), op_val(st[2][3])))
                    if probes is not None and (cur, si) in probes and st[2][0] == "cast":
                        probes[(cur, si)].append((op_val(st[2][2]),))
                    if st[2][0] in ("ref", "raw") and not proj:
                        refs = dict(refs)
                        refs[l] = (st[2][2][0], st[2][2][1])
                        env = dict(env)
                        env.pop(l, None)
                        continue
                    ty = b.local_ty(l)
                    v = rvalue(st[2], ty)
                    if v is TOP or v == TOP:
                        v = top_of(ty) if not proj else TOP
                    env = dict(env)
                    if proj:
                        if len(proj) == 1 and isinstance(proj[0], list) and proj[0][0] == "f" and isinstance(env.get(l), Agg):
                            a = env[l]
                            fl = list(a.fields)
                            if proj[0][1] < len(fl):
                                fl[proj[0][1]] = v
                            env[l] = Agg(a.adt, a.variant, a.idx, fl, a.names)
                        else:
                            env.pop(l, None)
                    else:
                        parts = _split16(v) if ty == "u32" else None
                        if parts:
                            # value partitioning: a u32 that straddles few 2^16 boundaries is followed per 64Ki block, so that
                            # `(x >> 16) + (x & 0xffff)` style folds are evaluated relationally
                            res = None
                            for pv in parts:
                                env2 = dict(env)
                                env2[l] = pv
                                r = run(cur, env2, refs, seen, si + 1)
                                if r is None:
                                    continue
                                res = join(res, r)
                            return res
                        env[l] = v
                elif st[0] == "sd":
                    env = dict(env)
                    env.pop(st[1][0], None)
            t = b.term(cur)
            k = t[0]
            if k in ("goto", "falseedge", "falseunwind"):
                cur = t[1]
            elif k == "drop":
                cur = t[2]
            elif k == "assert":
                cur = t[5]
            elif k == "switch":
                v = op_val(t[1])
                targets = []
                if is_iv(v) and v[1] == v[2]:
                    arms = {a: tg for a, tg in t[2]}
                    cur = arms.get(v[1], t[3])
                    continue
                if is_iv(v):
                    hit = 0
                    for a, tg in t[2]:
                        if v[1] <= a <= v[2]:
                            targets.append(tg)
                            hit += 1
                    if hit < v[2] - v[1] + 1 and t[3] is not None:
                        targets.append(t[3])
                else:
                    targets = [tg for _, tg in t[2]] + ([t[3]] if t[3] is not None else [])
                res = None
                for tg in dict.fromkeys(targets):
                    if b.term(tg)[0] == "unreachable":
                        continue
                    r = run(tg, env, refs, seen)
                    if r is None:
                        continue
                    res = join(res, r)
                    if res == TOP:
                        return TOP
                return res
            elif k == "call":
                kk = FX.op_const(t[1]) or {}
                callee = kk.get("res") or kk.get("fn") or ""
                dest = t[3]
                vals = [op_val(a) for a in t[2]]
                rty = b.local_ty(dest[0]) if not dest[1] else None
                r = None
                r = intrinsic2(callee, vals, rty)
                if r is None and callee.endswith("IntoIterator>::into_iter") and vals and isinstance(vals[0], Agg) and vals[0].adt == "core::ops::range::Range":
                    r = vals[0]
                if r is None and callee.endswith("core::ops::range::Range<A>>::next") and len(t[2]) == 1 and FX.op_place(t[2][0]) is not None:
                    tl, tp = resolve_place(FX.op_place(t[2][0]))
                    rg = env.get(tl) if not [x for x in tp if x != "*"] else None
                    if isinstance(rg, Agg) and rg.adt == "core::ops::range::Range" and all(is_iv(x) and x[1] == x[2] for x in rg.fields):
                        s0, e0 = rg.fields[0][1], rg.fields[1][1]
                        env = dict(env)
                        if s0 < e0:
                            env[tl] = Agg(rg.adt, rg.variant, rg.idx, [iv(s0 + 1), iv(e0)], rg.names)
                            r = Agg("core::option::Option", "Some", 1, [iv(s0)], None)
                        else:
                            r = Agg("core::option::Option", "None", 0, [], None)
                if r is None and rty == "usize" and re.search(r"::(len|required_size|size_bytes)$", callee) and not (F.has_body(callee) and kk.get("rk") in ("item", None)):
                    r = iv(0, LEN_MAX)          # ASSUMPTION (object sizes): an unresolved size-like callee returns at most isize::MAX
                if r is None and callee and F.has_body(callee) and kk.get("rk") in ("item", None):
                    r = eval_iv(F, callee, vals, depth - 1, fuel)
                    if r is None:      # callee never returns
                        return None
                if r is None or r == TOP:
                    r = top_of(rty) if rty else TOP
                env = dict(env)
                if not dest[1]:
                    env[dest[0]] = r
                else:
                    env.pop(dest[0], None)
                if t[4] is None:
                    return None
                cur = t[4]
            elif k == "ret":
                return env.get(0, TOP)
            elif k in ("unreachable", "resume", "abort"):
                return None
            else:
                if state is not None:
                    state["incomplete"] = True
                return TOP

    env0 = {i + 1: a for i, a in enumerate(args)}
    r = run(0, env0, {}, {})
    return r


def lb(v):
    """lower bound of an abstract value (0 when unknown)"""
    return v[1] if is_iv(v) else 0


def _bin_stmt_of(b, op, limit=6):
    """(bb, idx) of the comparison statement feeding a switch operand"""
    pl = FX.op_place(op)
    for _ in range(limit):
        if pl is None or pl[1]:
            return None
        ds = [d for d in b.defs.get(pl[0], ()) if d[0] == "assign" and not d[3]]
        if len(ds) != 1:
            return None
        rv = ds[0][4]
        if rv[0] == "bin":
            return ds[0][1], ds[0][2]
        if rv[0] == "use":
            pl = FX.op_place(rv[1])
        elif rv[0] == "un" and rv[1] == "Not":
            pl = FX.op_place(rv[2])
        else:
            return None
    return None


_probe_memo = {}


def probe_operand_lb(F, fn, b, g, side):
    """lower bound, over every path of `fn` reaching guard block g, of operand `side` (0/1) of g's comparison"""
    at = _bin_stmt_of(b, b.term(g)[1])
    if at is None:
        return 0
    key = (id(F), fn)
    if key not in _probe_memo:
        _probe_memo[key] = {}
    if at not in _probe_memo[key]:
        probes = {at: []}
        st = {}
        n = len(F.fns[fn].get("inputs") or [])
        eval_iv(F, fn, [TOP] * n, probes=probes, state=st)
        _probe_memo[key][at] = None if st.get("incomplete") or not probes[at] else probes[at]
    vals = _probe_memo[key][at]
    if not vals:
        return 0
    return min(lb(v[side]) for v in vals)
