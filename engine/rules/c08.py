"""C08 — SNAP ingress filter: no spoofed source and no unsupported path type enters SCION."""
import re
import templates as T
import panic as PN
import enc as ENC
import nibble as NIB
from facts import tokens, fmt, short, walk, strip_sites

# thorough tier: release configuration only — the dev-configuration pass reports the debug_assert! contract checks of the
# core helpers (unchecked read/write, BitRange alignment, View::try_from_*), which are reachable panic sites whose discharge is
# the call-site contract work listed in DESIGN.md 13.7; an untriaged pass is not registered
CRATES = ["snap_dataplane", "sciparse", "snap_tun"]

EXPLANATION = (
    "Guarded-success and who-may-call analysis on MIR. (1) In inbound_datagram_check every path to the Ok(view) exit "
    "passes, and is controlled by, three branches: success of ScionPacketView::try_from_slice, the comparison of the "
    "SCION source host IP with the `expected_ip` parameter, and a switch on header().path_type() whose only surviving "
    "discriminants are PathType::Scion and PathType::Empty (decision table over the enum's evaluated discriminants). "
    "(2) Every Dispatcher::try_dispatch call in snap-dataplane takes the Ok payload of inbound_datagram_check applied "
    "with from.ip() of the same `from` that was handed to the tunnel server, and is dominated by that Ok edge. "
    "(3) The SCMP reply is built once per rejected datagram, on the Err edge, with the checked try_encode (no "
    "encode_unchecked in the gateway). (4) PANIC: no undischarged panic site in the call graph of the filter, the SCMP "
    "construction and the packet-meta observers. (5) TBL-nibble: the host address type/length nibble tables "
    "(WireHostAddrType::from(u8), ::size(), into u8), extracted over all byte values, satisfy size(from(n)) == ((n & 3) + 1) * 4 "
    "and encode(decode(n)) == n for every nibble — the source-address comparison of the filter reads the source host at an offset "
    "derived from these sizes."
)
EXPLANATION_ADD = ' Additions: (CMP-src) the source comparison is an exact equality of untransformed operands; (PARSE-hdrlen) ScionHeaderLayout::try_from_slice equates advertised and computed header size on every accepting path.'
EXPLANATION = EXPLANATION + EXPLANATION_ADD
EXPLANATION_ADD5 = " Round-5 addition: the PANIC entry set is derived from the receive closure: every snap-dataplane function applied to the filter's result (accepted view or rejection carrying the offending view, e.g. offending_packet_is_scmp_error) is an entry, floor 3."
EXPLANATION = EXPLANATION + EXPLANATION_ADD5
RESIDUAL = ["equivalence with an independent decision procedure on all byte strings (address-type aliasing is covered only via C02/C03 tables)",
            "panic-freedom behind the Dispatcher / TunnelGatewayObserver trait boundary (try_dispatch copies the packet into a pooled buffer whose capacity is a run-time value of the ana-gotatun pool; observe_packet is user code)"]
ASSUMPTIONS = ["tokio/quinn/ana-gotatun internals do not dispatch datagrams into SCION on their own"]
TECHNIQUE = "MIR guarded-success (must-pass-through + controlling edge), decision-table extraction over enum discriminants, provenance, panic-site reachability"

CHECK = "snap_dataplane::tunnel_gateway::packet_policy::inbound_datagram_check"
DISPATCH = lambda n: n.endswith("::Dispatcher::try_dispatch")
SCMP_ERR = "create_scmp_error"


def ok_exits(body):
    return [bb for (bb, idx, adt, var) in T.result_variant_defs(body) if adt == "core::result::Result" and var == "Ok"]


def run(F, R, tier, cfg):
    b = F.body(CHECK)
    if b is None:
        R.anchor_missing(CHECK)
        return
    R.fn(CHECK)
    oks = ok_exits(b)
    pt_adt = F.adts.get("sciparse::proto::dataplane_path::types::PathType")

    def g_parse(tk, o, g):
        return o[0] == "disc" and any(t.startswith("fn:") and t.endswith("::try_from_slice") for t in tk)

    def g_src(tk, o, g):
        return "param:2" in tk and any(t.startswith("fn:") and t.endswith("::src_host_addr") for t in tk) \
            and any(t.startswith("fn:") and (t.endswith("::ne") or t.endswith("::eq")) for t in tk) or \
            ("param:2" in tk and "op:Ne" in tk and any(t.endswith("::src_host_addr") for t in tk))

    def g_srcopt(tk, o, g):
        # the ok_or(..)? on the optional source IP: None must not reach Ok(view)
        return o[0] == "disc" and any(t.startswith("fn:") and t.endswith("::src_host_addr") for t in tk) and "param:2" not in tk

    def g_pt(tk, o, g):
        return o[0] == "disc" and any(t.startswith("fn:") and t.endswith("::path_type") for t in tk)

    for name, pred, why in (("parse", g_parse, "ScionPacketView::try_from_slice succeeded"),
                            ("source-ip", g_src, "src_host_addr().ip() == expected_ip"),
                            ("source-is-ip", g_srcopt, "source host address is an IP address"),
                            ("path-type", g_pt, "path_type() in {Scion, Empty}")):
        ok, info = T.gs_check(b, oks, pred)
        R.ob("GS-filter", "Ok(view) guarded by %s" % why, ok, True,
             {"rule": "GS-filter", "guard": why, "guard_blocks": info.get("guards"), "ok_exits": info.get("targets"), "holds": ok})
        if not ok:
            R.violation("GS-filter", "%s/%s" % (CHECK, name),
                        "inbound_datagram_check can accept without the check `%s`: %s" % (why, info.get("why")), F.loc(CHECK), info)
    # CMP-src: the source comparison is an exact (in)equality of the wire source IP and the *untransformed* expected address:
    # any value-changing call on either side (to_canonical, to_ipv6_mapped, masks …) makes distinct addresses compare equal
    ALLOWED = re.compile(r"(::PartialEq::(ne|eq)|Try>::branch|::ok_or|::and_then|::ok|::map_err|::src_host_addr|::header|View::try_from_slice|WireHostAddr::ip)$")
    n_cmp = 0
    for g in T.guard_blocks(b, g_src):
        o = b.origin(b.term(g)[1])
        while o[0] == "un" and o[1] == "Not":
            o = o[2]
        n_cmp += 1
        bad = []
        if o[0] == "call" and re.search(r"::PartialEq::(ne|eq)$", o[1]) and len(o[2]) == 2:
            sides = [PN._peel_refs(strip_sites(x)) for x in o[2]]
            if ("param", 2) not in sides:
                bad.append("the expected address is not compared as given: %s" % " / ".join(fmt(x, 60) for x in sides))
        elif not (o[0] == "bin" and o[1] in ("Eq", "Ne")):
            bad.append("not an ==/!= comparison: %s" % fmt(strip_sites(o), 80))
        for nn in walk(o):
            if nn[0] == "call" and not ALLOWED.search(nn[1]):
                bad.append("value passes through %s" % short(nn[1]))
            if nn[0] == "agg" and isinstance(nn[1], tuple) and len(nn[1]) > 1 and "{closure#" in str(nn[1][1]) and F.has_body(nn[1][1]):
                co = strip_sites(F.body(nn[1][1]).local_origin(0))
                for cn in walk(co):
                    if cn[0] == "call" and not ALLOWED.search(cn[1]):
                        bad.append("closure %s applies %s" % (short(nn[1][1]), short(cn[1])))
        R.ob("CMP-src", "source comparison is exact on untransformed operands", not bad, True,
             {"rule": "CMP-src", "fn": CHECK, "comparison": fmt(strip_sites(o), 200), "problems": bad, "holds": not bad})
        if bad:
            R.violation("CMP-src", CHECK + "/source-comparison", "the SCION source / tunnel peer comparison is not an exact equality of the two addresses: %s — "
                        "a source host that differs from the peer address can be accepted" % "; ".join(sorted(set(bad))), b.term_span(g).loc)
    R.floor("CMP-src", n_cmp, 1, "source-address comparison in inbound_datagram_check")

    # PARSE-hdrlen: "parses as a SCION packet" includes a header-length field that equals the size of the header it
    # describes (common + address + path); the parser must *equate* the advertised and the computed size on every
    # accepting path — `computed <= advertised` accepts packets with undefined bytes between path and payload
    HL = "sciparse::proto::header::layout::ScionHeaderLayout::try_from_slice"
    hb = F.body(HL)
    if hb is None:
        R.anchor_missing(HL)
    else:
        R.fn(HL)
        hoks = [bb for (bb, idx, adt, var) in T.result_variant_defs(hb) if var == "Ok"]
        okh = bool(hoks)
        for ok_bb in hoks:
            found = False
            for g, cond, pol in PN._cmp_guards(hb, ok_bb):
                nn = PN._norm_cmp(cond, pol)
                if not nn or nn[0] != "Eq":
                    continue
                ta, tb = tokens(nn[1]), tokens(nn[2])
                adv = lambda tk: any(t.startswith("fn:") and t.endswith("::header_len") for t in tk)
                comp = lambda tk: sum(1 for t in tk if t.startswith("fn:") and t.endswith("::size_bytes")) >= 2
                if (adv(ta) and comp(tb)) or (adv(tb) and comp(ta)):
                    found = True
            okh = okh and found
        R.ob("PARSE-hdrlen", "ScionHeaderLayout::try_from_slice: Ok only when advertised header length == computed header size", okh, True,
             {"rule": "PARSE-hdrlen", "fn": HL, "ok_exits": len(hoks), "holds": okh})
        if not okh:
            R.violation("PARSE-hdrlen", HL, "the header parser can accept a packet whose header-length field differs from the size of its common, address and "
                        "path headers: a datagram that is not a well-formed SCION packet passes the ingress filter's parse step", F.loc(HL))

    # decision table of the path-type switch
    gs = T.guard_blocks(b, g_pt)
    if pt_adt and gs:
        discr = {v[0]: v[1] for v in pt_adt["variants"]}
        g = gs[0]
        t = b.term(g)
        allg = set(T.guard_blocks(b, g_parse) + T.guard_blocks(b, g_src) + gs)
        surviving = set()
        listed = {v for v, _ in t[2]}
        for v, tgt in t[2]:
            if any(x in b.reach([tgt], avoid=allg) for x in oks):
                surviving.add(v)
        other_survives = any(x in b.reach([t[3]], avoid=allg) for x in oks)
        if other_survives:
            surviving |= {d for d in discr.values() if d not in listed}
        want = {discr.get("Scion"), discr.get("Empty")}
        ok = surviving == want
        names = sorted(n for n, d in discr.items() if d in surviving)
        R.ob("TBL-pathtype", "path types accepted by the filter = %s" % names, ok, True)
        if not ok:
            R.violation("TBL-pathtype", CHECK + "/accepted-path-types",
                        "filter accepts path types %s, expected exactly [Empty, Scion]" % names, b.term_span(g).loc)
    elif not pt_adt:
        R.anchor_missing("sciparse PathType enum")

    # ---- (2) dispatch only after the filter
    sites = [(p, c) for (p, c) in T.call_sites(F, DISPATCH, crates=["snap_dataplane"])]
    R.floor("WMC-dispatch", len(sites), 1, "Dispatcher::try_dispatch call sites in snap-dataplane")
    for (p, c) in sites:
        pb = F.body(p)
        R.fn(p)
        o = pb.origin(c.args[1])
        src = [n for n in walk(o) if n[0] == "call" and n[1] == CHECK]
        ok = bool(src)
        def pred(tk, oo, g):
            return oo[0] == "disc" and ("fn:" + CHECK) in tk
        gok, g = T.guarded_by(pb, c.bb, pred, [0])
        ok = ok and gok
        detail = fmt(o, 200)
        if src:
            chk = src[0]
            # expected address = ip() of the `from` handed to the tunnel server
            ipo = chk[2][1]
            ipcalls = [n for n in walk(ipo) if n[0] == "call" and n[1].endswith("SocketAddr::ip")]
            hs = pb.calls_to(lambda n: n.endswith("::handle_incoming_packet_with_session") or n.endswith("SnapTunServer::<T>::handle_incoming_packet"))
            same = False
            if ipcalls and hs:
                a = strip_sites(_unref(ipcalls[0][2][0]))
                for h in hs:
                    fo = strip_sites(_unref(pb.origin(h.args[2])))
                    if fo == a:
                        same = True
                # and the datagram checked is the packet the tunnel server forwarded
                fw = tokens(chk[2][0])
                same = same and ("field:packet" in fw or any(t.endswith("handle_incoming_packet_with_session") for t in fw))
            ok = ok and same
        R.ob("WMC-dispatch", "try_dispatch in %s takes Ok(inbound_datagram_check(forwarded packet, from.ip()))" % short(p), ok, True,
             {"rule": "WMC-dispatch", "fn": p, "loc": c.span.loc, "argument": detail, "guard_block": g})
        if not ok:
            R.violation("WMC-dispatch", p + "/try_dispatch",
                        "a datagram can be dispatched into SCION without having passed inbound_datagram_check with the tunnel "
                        "peer's address: %s" % detail, c.span.loc)
    # ---- (3) reply
    errs = [(p, c) for (p, c) in T.call_sites(F, lambda n: n.endswith("::" + SCMP_ERR), crates=["snap_dataplane"])]
    R.floor("GS-reply", len(errs), 1, "create_scmp_error call sites")
    for (p, c) in errs:
        pb = F.body(p)
        def pred(tk, oo, g):
            return oo[0] == "disc" and ("fn:" + CHECK) in tk
        gok, g = T.guarded_by(pb, c.bb, pred, [1])
        # single reply: the call block cannot reach itself without passing the filter switch again
        again = c.bb in pb.reach(pb.succ[c.bb], avoid=[g] if g is not None else [])
        ok = gok and not again
        R.ob("GS-reply", "create_scmp_error only on the Err edge of the filter, once per datagram (%s)" % short(p), ok, True)
        if not ok:
            R.violation("GS-reply", p + "/" + SCMP_ERR, "SCMP error reply is not confined to one per rejected datagram", c.span.loc)
    unchecked = [(p, c) for (p, c) in T.call_sites(F, lambda n: n.endswith("::encode_unchecked"), crates=["snap_dataplane"])]
    R.ob("WMC-encode", "no encode_unchecked call in snap-dataplane (replies use checked try_encode)", not unchecked, True)
    for (p, c) in unchecked:
        R.violation("WMC-encode", p + "/encode_unchecked", "gateway encodes with encode_unchecked (unbounded write into the send buffer)", c.span.loc)
    # ---- (4) totality
    entries = [CHECK]
    for suf in ("create_scmp_error", "create_inbound_scmp_error", "observed_packet_meta", "outbound_packet_meta"):
        entries += [p for p in F.fns_named(suf) if p.startswith("snap_dataplane::") and not T.is_test_support(p)]
    # every snap-dataplane function the receive closure applies to the filter's result (the accepted
    # view or the rejection carrying the offending view) runs on every datagram: it is an entry too
    derived = set()
    for (p, c) in T.call_sites(F, lambda n: n == CHECK, crates=["snap_dataplane"]):
        pb = F.body(p)
        for c2 in pb.calls:
            if not c2.callee or not c2.callee.startswith("snap_dataplane::") or c2.callee == CHECK:
                continue
            if any(("fn:" + CHECK) in tokens(pb.origin(a)) for a in c2.args):
                if F.has_body(c2.callee):
                    derived.add(c2.callee)
    R.floor("PANIC-entries", len(derived), 3, "snap-dataplane functions applied to the filter result in the receive closure")
    entries += sorted(derived)
    ENC.install()
    PN.check_entries(F, R, "C08", sorted(set(entries)), cfg)
    ENC.hostlen_rule(F, R)
    NIB.nibble_rules(F, R)


def _unref(t):
    while isinstance(t, tuple) and t and t[0] in ("ref", "deref"):
        t = t[2] if t[0] == "ref" else t[1]
    return t
