"""ACC — the contract of the unchecked bit-range accessors, decided at every call site.

`sciparse::core::read::unchecked_bit_range_be_read(buf, range)` and
`sciparse::core::write::unchecked_bit_range_be_write(buf, range, v)` are unsafe; their contract is
    (LANE)  range.size_bytes() <= 16            (the access goes through one u128 lane)
    (END)   range.aligned/containing byte range ends within buf
and in release builds nothing checks it (the debug_asserts are compiled out).  For every call site in
sciparse (outside tests) the rule evaluates the range statically — a constant BitRange, or
`BitRange::shift(const, const)` evaluated by interval interpretation of `shift`'s MIR — and needs a
lower bound G on the length of the buffer operand at least as large as the range's last byte:

  G(self.0 of a slice-backed view V)   = min_valid_len(V)      what V's constructors validated (c02)
  G(unsize cast of &[u8; N])           = N
  G(buf parameter of an encode impl)   = lb(required_size)     the encode contract; lb by interval
                                                               interpretation of the sibling required_size
                                                               over *all* self/header-size values
  G(buf parameter of another fn)       = min over all its call sites in the workspace of G(argument)
  G(split_at[_mut]_unchecked(b, k).1)  = G(b) - k   (k constant)
  guards:  a dominating `len(b) >= k` / `len(b) < k => return` raises G to k.

Sites whose range is not statically known, or whose buffer has no derivable bound, are reported — there
is no table of exceptions: a computed range (one site, the debug renderer) must sit behind dominating guards
on its own width and on its own end against this very buffer's length.
"""
import re

import facts as FX
import panic as PN
import templates as T
import interval as IV
import enc as ENC
from absint import Agg
from facts import fmt, short, strip_sites

READ = "sciparse::core::read::unchecked_bit_range_be_read"
WRITE = "sciparse::core::write::unchecked_bit_range_be_write"
LANE_BYTES = 16

def static_range(F, t):
    """(start_bit, end_bit) of a statically known BitRange-valued origin tree, else None"""
    t = strip_sites(t)
    br = PN._const_bitrange(F, t)
    if br is not None:
        return br
    if t[0] == "call" and t[1].endswith("::BitRange::shift") and F.has_body(t[1]) and len(t[2]) == 2:
        a = static_range(F, t[2][0])
        n = PN.const_eval(PN.strip_casts(strip_sites(t[2][1])))
        if a is not None and n is not None:
            v = IV.eval_iv(F, t[1], [Agg("sciparse::core::layout::BitRange", "BitRange", 0, [IV.iv(a[0]), IV.iv(a[1])], ["start", "end"]), IV.iv(n)])
            if isinstance(v, Agg) and len(v.fields) == 2 and all(IV.is_iv(x) and x[1] == x[2] for x in v.fields):
                return (v.fields[0][1], v.fields[1][1])
    return None


def _nr(t):
    """remove every ref/deref node (place identity modulo reborrows)"""
    if not isinstance(t, tuple):
        return t
    if t and t[0] == "ref" and len(t) == 3:
        return _nr(t[2])
    if t and t[0] == "deref" and len(t) == 2:
        return _nr(t[1])
    return tuple(_nr(x) for x in t)


class Acc:
    def __init__(self, F, view_min):
        self.F = F
        self.M = view_min                # view type -> validated length
        self._g = {}
        self._rs = {}
        self.trace = {}

    # ---- lower bound of required_size of an encode impl
    def rs_lb(self, fn):
        if fn not in self._rs:
            sib = ENC.sibling(self.F, fn)
            v = 0
            if sib and self.F.has_body(sib):
                n = len(self.F.fns[sib].get("inputs") or [])
                v = IV.lb(IV.eval_iv(self.F, sib, [IV.TOP] + [IV.top_of("usize")] * (n - 1)))
            self._rs[fn] = (sib, v)
        return self._rs[fn]

    def _recv_view(self, fn):
        e = self.F.fns.get(fn) or {}
        ins = e.get("inputs") or []
        recv = re.sub(r"^&(mut )?|^alloc::boxed::Box<|>$", "", ins[0]) if ins else ""
        if recv in self.M:
            return recv
        if e.get("self_ty") in self.M and ins and ins[0].startswith("&"):
            return e.get("self_ty")
        return None

    def tree_lb(self, t):
        """lower bound of an integer-valued origin tree: constants, and calls evaluated over all arguments"""
        t = PN.strip_casts(strip_sites(t))
        c = PN.const_eval(t)
        if c is not None:
            return c
        if t[0] == "call" and self.F.has_body(t[1]):
            n = len(self.F.fns[t[1]].get("inputs") or [])
            return IV.lb(IV.eval_iv(self.F, t[1], [IV.TOP] * n))
        if t[0] == "bin" and t[1].startswith("Add"):
            return self.tree_lb(t[2]) + self.tree_lb(t[3])
        return 0

    # ---- G for a parameter of fn
    def param_lb(self, fn, k, stack=()):
        key = (fn, k)
        if key in self._g:
            return self._g[key]
        if key in stack:
            return (0, "recursive")
        F = self.F
        if ENC.is_encode_impl(F, fn) and k == 2:
            sib, v = self.rs_lb(fn)
            r = (v, "encode contract: lb(%s) = %d" % (short(sib or "?"), v))
        else:
            callers = [(p, c) for p, c in F.callers_of(lambda n, fn=fn: n == fn) if not T.is_test_support(p)]
            if not callers:
                r = (0, "no caller in the workspace")
            else:
                best = None
                why = []
                for p, c in callers:
                    b = F.body(p)
                    if len(c.args) < k:
                        best = 0
                        continue
                    v, w = self.buf_lb(p, b, b.origin(c.args[k - 1]), c.bb, stack + (key,))
                    why.append("%s:%d" % (short(p), v))
                    best = v if best is None else min(best, v)
                r = (best or 0, "min over %d caller(s): %s" % (len(callers), ", ".join(why[:4])))
        self._g[key] = r
        return r

    # ---- G for a buffer-valued origin tree at a site
    def buf_lb(self, fn, body, tree, bb, stack=()):
        F = self.F
        t = strip_sites(tree)
        base = PN._peel_refs(t)
        v, why = 0, "no rule"
        inner = base
        # unsize cast of an array reference
        c = t
        while c[0] in ("ref", "deref") and len(c) > 1:
            c = c[-1]
        if c[0] == "cast" and "Unsize" in str(c[1]) and PN._ty_len(c[3]) is not None:
            v, why = PN._ty_len(c[3]), "array-backed: %s" % c[3]
        elif base == ("field", ("deref", ("param", 1)), "0") and self._recv_view(fn):
            V = self._recv_view(fn)
            v, why = self.M[V], "view %s validated >= %d" % (V.split("::")[-1], self.M[V])
        elif base[0] == "param":
            v, why = self.param_lb(fn, base[1], stack)
        elif base[0] == "field" and base[2] in ("0", "1") and base[1][0] == "call" and re.search(r"::split_at(_mut)?(_unchecked)?$", base[1][1]) and len(base[1][2]) == 2:
            pv, pw = self.buf_lb(fn, body, base[1][2][0], bb, stack)
            n = PN.const_eval(PN.strip_casts(strip_sites(base[1][2][1])))
            if n is not None:
                v, why = (max(0, pv - n), "%s minus split offset %d" % (pw, n)) if base[2] == "1" else (min(n, pv), "split prefix %d" % n)
        elif base[0] == "call" and re.search(r"::get_unchecked(_mut)?$", base[1]) and len(base[2]) == 2:
            # b.get_unchecked(s..e) has exactly e - s elements (whether it lies inside b is the caller's obligation: C03 SIB-fit)
            ix = PN._peel_refs(base[2][1])
            if ix[0] == "agg" and ix[1][0] == "adt" and ix[1][1].endswith("::Range") and len(ix[2]) == 2:
                s0 = PN.const_eval(PN.strip_casts(ix[2][0]))
                e0 = self.tree_lb(ix[2][1])
                if s0 is not None:
                    v, why = max(0, e0 - s0), "sub-slice %d..(>= %d)" % (s0, e0)
        # dominating guards  len(buffer) >= T  with T constant or computed (lower bound of T by interval probes)
        for g, cond, pol in PN._cmp_guards(body, bb):
            nn = PN._norm_cmp(cond, pol)
            if not nn:
                continue
            op, a, b2 = nn
            for side, other, ops in ((a, b2, ("Ge", "Gt", "Eq")), (b2, a, ("Le", "Lt", "Eq"))):
                if op in ops and PN._is_len_of(strip_sites(side), base):
                    c0 = PN.const_eval(PN.strip_casts(strip_sites(other)))
                    if c0 is None:
                        c0 = IV.probe_operand_lb(F, fn, body, g, 1 if side is a else 0)
                    c0 = (c0 or 0) + (1 if op in ("Gt", "Lt") else 0)
                    if c0 > v:
                        v, why = c0, "dominating guard len(buf) >= %d at bb%d" % (c0, g)
        return v, why

    def guard_len_ge(self, body, bb, tree, k):
        """a guard on every path to the site implies len(buffer) >= k"""
        base = PN._peel_refs(strip_sites(tree))
        for g, cond, pol in PN._cmp_guards(body, bb):
            nn = PN._norm_cmp(cond, pol)
            if not nn:
                continue
            op, a, b = nn
            if PN._is_len_of(strip_sites(a), base):
                c = PN.const_eval(PN.strip_casts(strip_sites(b)))
                if c is not None and ((op in ("Ge", "Eq") and c >= k) or (op == "Gt" and c + 1 >= k)):
                    return True
            if PN._is_len_of(strip_sites(b), base):
                c = PN.const_eval(PN.strip_casts(strip_sites(a)))
                if c is not None and ((op in ("Le", "Eq") and c >= k) or (op == "Lt" and c + 1 >= k)):
                    return True
        return False


def run(F, R, view_min, scope, floor, rule="ACC"):
    """scope: 'view' (everything outside encoders) | 'enc' (encode impls and the inherent encode helpers)"""
    A = Acc(F, view_min)
    n = {"sites": 0, "lane": 0, "end": 0, "guard": 0}
    kinds = {}
    for p in F.all_body_paths("sciparse"):
        if T.is_test_support(p):
            continue
        b = F.body(p)
        if b is None:
            continue
        in_enc = ENC.is_encode_impl(F, p) or bool(re.search(r"::encode_unchecked$", p))
        if (scope == "enc") != in_enc:
            continue
        for c in b.calls:
            if c.indirect or c.decl not in (READ, WRITE) or c.bb not in b.live_blocks():
                continue
            n["sites"] += 1
            R.fn(p)
            R.call_sites += 1
            rt = b.origin(c.args[1])
            br = static_range(F, rt)
            key = "%s/%s" % (p, fmt(strip_sites(rt), 60))
            if br is None:
                # dynamic range: needs dominating guards for both clauses, on this very range value and this very buffer
                R0 = FX.cut(_nr(rt), 9)      # with call-site ids: two `next()` items are different values
                B0 = PN._peel_refs(strip_sites(b.origin(c.args[0])))
                lane_guard, end_guard = [], []
                for g, cond, pol in PN._cmp_guards(b, c.bb):
                    nn = PN._norm_cmp(cond, pol)
                    if not nn or nn[0] not in ("Le", "Lt"):
                        continue
                    op, x, y = nn[0], PN.strip_casts(nn[1]), PN.strip_casts(strip_sites(nn[2]))
                    if x[0] == "field" and x[2] == "0" and x[1][0] == "bin" and x[1][1].endswith("WithOverflow"):
                        x = ("bin", x[1][1].replace("WithOverflow", ""), x[1][2], x[1][3])      # dev: overflow-checked arithmetic
                    if y[0] == "field" and y[2] == "0" and y[1][0] == "bin" and y[1][1].endswith("WithOverflow"):
                        y = ("bin", y[1][1].replace("WithOverflow", ""), y[1][2], y[1][3])
                    cy = PN.const_eval(y)
                    if cy is not None and x[0] == "bin" and x[1].startswith("Sub") and x[2][0] == "field" and x[3][0] == "field" \
                            and x[2][2] == "end" and x[3][2] == "start" and FX.cut(_nr(x[2][1]), 9) == R0 and FX.cut(_nr(x[3][1]), 9) == R0:
                        bits = cy if op == "Le" else cy - 1
                        if (bits + 7) // 8 + 1 <= LANE_BYTES:
                            lane_guard.append(bits)
                    if x[0] == "field" and x[2] == "end" and FX.cut(_nr(x[1]), 9) == R0 and y[0] == "bin" and y[1].startswith("Mul") \
                            and PN.const_eval(y[3]) == 8 and PN._is_len_of(y[2], B0):
                        end_guard.append(1)
                ok = bool(lane_guard) and bool(end_guard)
                kinds["dynamic-guarded" if ok else "dynamic"] = kinds.get("dynamic-guarded" if ok else "dynamic", 0) + 1
                R.ob(rule + "-dyn", "%s: computed range %s behind explicit size and end guards" % (short(p), fmt(strip_sites(rt), 50)), ok, True,
                     {"rule": rule + "-dyn", "fn": p, "loc": c.span.loc, "range": fmt(strip_sites(rt), 100), "lane_guards": len(lane_guard), "end_guards": len(end_guard), "holds": ok})
                if not ok:
                    R.violation(rule + "-dyn", key, "%s passes a computed bit range to an unchecked accessor without dominating guards on both its "
                                "width (<= 16 bytes) and its end (<= buffer length): %s" % (short(p), fmt(strip_sites(rt), 100)), c.span.loc)
                continue
            start, end = br
            width_bytes = -(-end // 8) - start // 8
            ok_lane = end >= start and width_bytes <= LANE_BYTES
            n["lane"] += 1
            R.ob(rule + "-lane", "%s: bits %d..%d span %d byte(s) <= 16" % (short(p), start, end, width_bytes), ok_lane, False)
            if not ok_lane:
                R.violation(rule + "-lane", key, "%s accesses bit range %d..%d (%d bytes) through the 16-byte lane accessor: bytes beyond the lane are "
                            "silently dropped / the shift underflows" % (short(p), start, end, width_bytes), c.span.loc)
            need = -(-end // 8)
            g, why = A.buf_lb(p, b, b.origin(c.args[0]), c.bb)
            ok_end = need <= g
            if not ok_end and A.guard_len_ge(b, c.bb, b.origin(c.args[0]), need):
                ok_end, why = True, "dominating guard len(buf) >= %d" % need
                n["guard"] += 1
            n["end"] += 1
            kk = why.split(":")[0].split(" ")[0]
            kinds[kk] = kinds.get(kk, 0) + 1
            sample = {"rule": rule + "-end", "fn": p, "loc": c.span.loc, "range_bits": [start, end], "needs_bytes": need, "guaranteed": g, "because": why, "holds": ok_end}
            R.ob(rule + "-end", "%s: bytes ..%d of %s (guaranteed >= %d: %s)" % (short(p), need, fmt(strip_sites(PN._peel_refs(b.origin(c.args[0]))), 30), g, why[:60]),
                 ok_end, not ok_end or n["end"] % 9 == 0, sample if (not ok_end or n["end"] % 17 == 0) else None)
            if not ok_end:
                R.violation(rule + "-end", key, "%s accesses bytes ..%d of a buffer for which only %d byte(s) are guaranteed (%s): out-of-bounds "
                            "read/write in release builds" % (short(p), need, g, why), c.span.loc)
    R.floor(rule + "-" + scope, n["sites"], floor, "unchecked bit-range accessor call sites (%s side)" % scope)
    R.extra.setdefault("acc", {})[scope] = {"sites": n["sites"], "static_ranges": n["lane"], "by_buffer_rule": kinds,
                                              "required_size_lower_bounds": {short(k): v[1] for k, v in sorted(A._rs.items())}}
    return A
