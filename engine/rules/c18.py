"""C18 — signed control-plane messages verify iff authentic; RPC conversion is lossless (side clauses)."""
import re

import templates as T
import panic as PN
import facts as FX
from facts import tokens, fmt, short, walk, strip_sites, op_place, const_int

# thorough tier: release configuration only — the dev-configuration pass reports the debug_assert! contract checks of the
# core helpers (unchecked read/write, BitRange alignment, View::try_from_*), which are reachable panic sites whose discharge is
# the call-site contract work listed in DESIGN.md 13.7; an untriaged pass is not registered
CRATES = ["sciparse", "scion_protobuf"]
EXPLANATION = (
    "Side clauses of 'validates iff authentic' that are visible in code shape, on rustc MIR. (GS) SignedMessage::validate "
    "reaches its Ok exit only through — and controlled by — the success edges of: the key provider call, the comparison of "
    "header.associated_data_length with the supplied length, the signature-algorithm match, Signature::from_der and "
    "verify_prehash. (FLOW) verify_prehash receives the key the provider returned for header.verification_key_id, the "
    "digest hash(self.header_and_body, associated_data.1) and the signature parsed from self.signature; header and body "
    "returned are decoded from the same self.header_and_body; sign() hashes the very bytes it stores as header_and_body "
    "together with the caller's associated data. (TBL) algorithm agreement: the map DigestAlgorithm→(header "
    "SignatureAlgorithm, hash function) in sign composed with SignatureAlgorithm→DigestAlgorithm→hash function in validate "
    "is the identity on hash functions, for all three variants (decision tables extracted from the switch structure, enum "
    "discriminants from the evaluated ADT tables). (CHAIN) SignedAsEntry::validate_signature passes "
    "self.entry.associated_data(path_segment) to self.signed.validate and propagates its error; associated_data is "
    "info.encoded chained with header_and_body and signature of every entry before this one. (WMC) SignedAsEntry is only "
    "constructed where its entry is decoded from its own signed message, or its signed message is computed from its entry. "
    "(CAST-header) the segment header, which is re-encoded from decoded values into the signature input, is decoded with "
    "checked conversions only (no lossy `as`); the prefix scan of associated_data compares whole entries. "
    "(PANIC) no undischarged panic site reachable from any RPC conversion (try_from_rpc / TryFrom<rpc::*> / from_rpc in "
    "segment::rpc, path, path::metadata) or from validate/decode_*."
)
EXPLANATION_ADD = ' Additions: subtraction underflow in the RPC conversions is an armed panic site in the dev configuration; (CHAIN-all) flat_map in associated_data consumes the whole take_while prefix (no narrowing adaptor in between).'
EXPLANATION = EXPLANATION + EXPLANATION_ADD
RESIDUAL = ["'iff authentic' as a statement about ECDSA/SHA-2 values", "value round trip of RPC conversion (lossless)",
            "that single-bit changes of body/header/earlier entries change the digest (hash function property)"]
ASSUMPTIONS = ["p256/ecdsa verify_prehash and sha2 are correct (trusted base)", "prost decode/encode are total (return Err rather than panic)"]
TECHNIQUE = "guarded success, provenance, decision-table agreement between sign and validate, who-may-construct, panic-site reachability, narrowing-cast absence"

SM = "sciparse::scion::signed_message::SignedMessage::"
SEG = "sciparse::scion::segment::"


def rpc_entries(F):
    out = []
    for p, e in sorted(F.fns.items()):
        if T.is_test_support(p) or e["kind"] not in ("Fn", "AssocFn"):
            continue
        if not (p.startswith(("sciparse::scion::segment", "<sciparse::scion::segment", "sciparse::scion::path::ScionPath", "<sciparse::scion::path::ScionPath",
                              "sciparse::scion::path::metadata", "<sciparse::scion::path::metadata", "sciparse::scion::signed_message", "<sciparse::scion::signed_message"))
                or (e.get("self_ty") or "").startswith(("sciparse::scion::segment", "sciparse::scion::path::ScionPath", "sciparse::scion::path::metadata", "sciparse::scion::signed_message"))):
            continue
        nm = p.split("::")[-1]
        ins = " ".join(e.get("inputs") or [])
        if nm in ("try_from_rpc", "from_rpc", "decode_validated", "decode_unvalidated", "validate", "validate_signature") or \
           ((e.get("trait_item") or "") in ("core::convert::TryFrom::try_from", "core::convert::From::from") and "scion_protobuf::" in ins):
            out.append(p)
    return out


def run(F, R, tier, cfg):
    ents = rpc_entries(F)
    R.extra["entries"] = ents
    PN.check_entries(F, R, "C18", ents, cfg, underflow_armed=r"rpc|Rpc")   # dev: subtraction underflow in the RPC conversions is a panic site
    validate_rules(F, R)
    algorithm_table(F, R)
    chain_rules(F, R)
    cast_rule(F, R, ents)


VAL, SIGN, HASH = SM + "validate", SM + "sign", "sciparse::scion::signed_message::hash"


def _ok_exits(b):
    return [bb for (bb, idx, adt, var) in T.result_variant_defs(b) if adt == "core::result::Result" and var == "Ok"]


def validate_rules(F, R):
    b = F.body(VAL)
    if b is None:
        R.anchor_missing(VAL)
        return
    R.fn(VAL)
    oks = _ok_exits(b)
    def has(tk, suffix):
        return any(t.startswith("fn:") and t.endswith(suffix) for t in tk)
    guards = [
        ("verify_prehash succeeded", lambda tk, o, g: o[0] == "disc" and has(tk, "::verify_prehash")),
        ("Signature::from_der succeeded", lambda tk, o, g: o[0] == "disc" and has(tk, "::from_der") and not has(tk, "::verify_prehash")),
        ("key provider returned a key", lambda tk, o, g: o[0] == "disc" and "param:2" in tk and "field:verification_key_id" in tk and not has(tk, "::verify_prehash")),
        ("associated_data_length == supplied length", lambda tk, o, g: "field:associated_data_length" in tk and "param:3" in tk),
        ("signature algorithm is a known variant", lambda tk, o, g: o[0] == "disc" and "field:signature_algorithm" in tk and has(tk, "TryFrom::try_from")),
    ]
    for why, pred in guards:
        ok, info = T.gs_check(b, oks, pred)
        R.ob("GS-validate", "Ok exit controlled by: %s" % why, ok, True, {"rule": "GS-validate", "guard": why, "blocks": info.get("guards"), "holds": ok})
        if not ok:
            R.violation("GS-validate", VAL + "/" + why, "SignedMessage::validate can succeed without `%s`: %s" % (why, info.get("why")), F.loc(VAL), info)
    # FLOW: arguments of verify_prehash
    vp = b.calls_to(lambda n: n.endswith("::verify_prehash"))
    R.floor("FLOW-verify", len(vp), 1, "verify_prehash calls in validate")
    for c in vp:
        k, h, sg = (tokens(b.origin(a)) for a in c.args[:3])
        hashes = [n for n in walk(b.origin(c.args[1])) if n[0] == "call" and n[1] == HASH]
        okk = "param:2" in k and "field:verification_key_id" in k and "field:header_and_body" in k
        okh = bool(hashes) and all("field:header_and_body" in tokens(n[2][0]) and "param:1" in tokens(n[2][0]) and strip_sites(PN._peel_refs(n[2][1])) == ("field", ("param", 3), "1")
                                   for n in hashes) and not any(t.startswith("param:2") for t in h)
        oks_ = any(t.endswith("::from_der") for t in sg) and "field:signature" in sg and "param:1" in sg
        ok = okk and okh and oks_
        R.ob("FLOW-verify", "verify_prehash(key_provider(header.verification_key_id), hash(self.header_and_body, associated_data), from_der(self.signature))", ok, True,
             {"rule": "FLOW-verify", "key_ok": okk, "hash_ok": okh, "sig_ok": oks_, "hash_calls": len(hashes)})
        if not ok:
            R.violation("FLOW-verify", VAL + "/arguments", "the signature check does not bind key/digest/signature to this message (key ok=%s, digest ok=%s, signature ok=%s)"
                        % (okk, okh, oks_), c.span.loc)
    R.floor("FLOW-verify-hashes", len(b.calls_to(HASH)), 3, "hash::<D> calls in validate (one per digest)")
    # returned (header, body) come from the verified bytes
    for bb in oks:
        for d in b.defs.get(0, ()):
            if d[1] == bb and d[0] == "assign":
                tk = tokens(b._rvalue_origin(d[4], 12, frozenset()))
                ok = "field:header_and_body" in tk and "param:1" in tk and any(t.endswith("Message::decode") for t in tk) and "param:3" not in tk
                R.ob("FLOW-verify", "Ok((header, body)) is decoded from self.header_and_body", ok, True)
                if not ok:
                    R.violation("FLOW-verify", VAL + "/result", "validate returns a header/body that was not decoded from the verified bytes", b.span_of(d[5]).loc)
    # sign: hashes what it stores
    sb = F.body(SIGN)
    if sb is None:
        R.anchor_missing(SIGN)
        return
    R.fn(SIGN)
    stored = None
    for bi in sorted(sb.live_blocks()):
        for st in sb.stmts(bi):
            if st[0] == "=" and st[2][0] == "agg" and st[2][1][0] == "adt" and st[2][1][1].endswith("signed_message::SignedMessage"):
                names = st[2][1][4]
                stored = strip_sites(PN._peel_refs(sb._op_origin(st[2][2][names.index("header_and_body")], 12, frozenset())))
    hs = sb.calls_to(HASH)
    ok = stored is not None and len(hs) >= 3
    for c in hs:
        a0 = strip_sites(PN._peel_refs(sb.origin(c.args[0])))
        while a0[0] == "call" and a0[1].endswith("::deref") and len(a0[2]) == 1:
            a0 = PN._peel_refs(a0[2][0])
        ok = ok and FX.cut(a0, 5) == FX.cut(stored, 5) and a0[0] == "call" and a0[1].endswith("::encode_to_vec") \
            and strip_sites(PN._peel_refs(sb.origin(c.args[1]))) == ("field", ("param", 5), "1")
    R.ob("FLOW-sign", "sign hashes exactly the bytes it stores as header_and_body, with the caller's associated data", ok, True)
    if not ok:
        R.violation("FLOW-sign", SIGN, "sign() signs bytes other than the header_and_body it stores (or drops the associated data)", F.loc(SIGN))


def _walk_to(b, start, want, limit=60):
    """follow the unique successor chain from start until pred(block) returns a value"""
    cur = start
    for _ in range(limit):
        r = want(cur)
        if r is not None:
            return r, cur
        t = b.term(cur)
        if t[0] in ("goto", "falseedge", "falseunwind"):
            cur = t[1]
        elif t[0] == "drop":
            cur = t[2]
        elif t[0] == "call" and t[4] is not None:
            cur = t[4]
        else:
            return None, cur
    return None, cur


def _digest_name(c):
    for g in c.ga or []:
        m = re.search(r"OidSha(\d+)", g)
        if m:
            return "Sha" + m.group(1)
    return None


def _agg_variant_in(b, bb, adt_suffix):
    for st in b.stmts(bb):
        if st[0] == "=" and st[2][0] == "agg" and st[2][1][0] == "adt" and st[2][1][1].endswith(adt_suffix):
            return st[2][1][2]
    return None


def algorithm_table(F, R):
    sa = F.adts.get("scion_protobuf::crypto::v1::SignatureAlgorithm")
    da = F.adts.get("sciparse::scion::signed_message::DigestAlgorithm")
    vb, sb = F.body(VAL), F.body(SIGN)
    if not sa or not da or vb is None or sb is None:
        R.anchor_missing("SignatureAlgorithm / DigestAlgorithm ADT tables")
        return
    sa_d = {v[1]: v[0] for v in sa["variants"]}
    da_d = {v[1]: v[0] for v in da["variants"]}
    # ---- validate: SignatureAlgorithm value -> DigestAlgorithm variant -> hash generic
    val_map = {}
    sw1 = [g for g in vb.live_blocks() if vb.term(g)[0] == "switch" and "field:signature_algorithm" in tokens(vb.origin(vb.term(g)[1])) and len(vb.term(g)[2]) >= 2]
    sw2 = [g for g in vb.live_blocks() if vb.term(g)[0] == "switch" and any(t.startswith("adt:sciparse::scion::signed_message::DigestAlgorithm") for t in tokens(vb.origin(vb.term(g)[1])))
           and "field:signature_algorithm" not in tokens(vb.origin(vb.term(g)[1]))]
    if len(sw1) != 1 or len(sw2) != 1:
        R.anchor_missing("algorithm switches in validate (found %d/%d)" % (len(sw1), len(sw2)))
        return
    arms2 = {v: tg for v, tg in vb.term(sw2[0])[2]}
    for v, tg in vb.term(sw1[0])[2]:
        dv, _ = _walk_to(vb, tg, lambda bb: _agg_variant_in(vb, bb, "signed_message::DigestAlgorithm"))
        if dv is None:
            continue
        didx = [k for k, n in da_d.items() if n == dv]
        tgt = arms2.get(didx[0]) if didx else None
        if tgt is None:
            tgt = vb.term(sw2[0])[3]
        hn, _ = _walk_to(vb, tgt, lambda bb: (_digest_name([c for c in vb.calls if c.bb == bb][0]) if [c for c in vb.calls if c.bb == bb and c.decl == HASH] else None))
        val_map[sa_d.get(v, v)] = (dv, hn)
    # ---- sign: DigestAlgorithm variant -> SignatureAlgorithm variant, hash generic
    sws = [g for g in sb.live_blocks() if sb.term(g)[0] == "switch" and strip_sites(sb.origin(sb.term(g)[1])) == ("disc", ("param", 2))]
    sign_alg, sign_hash = {}, {}
    for g in sws:
        for v, tg in sb.term(g)[2] + [[None, sb.term(g)[3]]]:
            if v is None:
                continue
            r, _ = _walk_to(sb, tg, lambda bb: _agg_variant_in(sb, bb, "crypto::v1::SignatureAlgorithm")
                            or (_digest_name([c for c in sb.calls if c.bb == bb][0]) if [c for c in sb.calls if c.bb == bb and c.decl == HASH] else None), 8)
            if r is None:
                continue
            if r.startswith("Sha"):
                sign_hash[da_d.get(v, v)] = r
            else:
                sign_alg[da_d.get(v, v)] = r
    R.extra["algorithm_tables"] = {"validate": {str(k): v for k, v in val_map.items()}, "sign_header": sign_alg, "sign_hash": sign_hash}
    n = 0
    for dname in da_d.values():
        n += 1
        s_alg, s_hash = sign_alg.get(dname), sign_hash.get(dname)
        v = val_map.get(s_alg)
        ok = bool(s_alg and s_hash and v and v[1] == s_hash and v[0] == dname and s_hash == dname)
        R.ob("TBL-algorithm", "%s: sign writes %s and hashes with %s; validate maps %s to %s" % (dname, s_alg, s_hash, s_alg, v), ok, True,
             {"rule": "TBL-algorithm", "digest": dname, "sign_header": s_alg, "sign_hash": s_hash, "validate": v, "holds": ok})
        if not ok:
            R.violation("TBL-algorithm", dname, "sign and validate disagree for %s: sign announces %s and hashes with %s, validate maps that header value to %s"
                        % (dname, s_alg, s_hash, v), F.loc(VAL))
    R.floor("TBL-algorithm", n, 3, "DigestAlgorithm variants")


def chain_rules(F, R):
    vs = SEG + "SignedAsEntry::validate_signature"
    ad = SEG + "AsEntry::associated_data"
    b = F.body(vs)
    if b is None:
        R.anchor_missing(vs)
        return
    R.fn(vs)
    cs = b.calls_to(VAL)
    R.floor("CHAIN", len(cs), 1, "SignedMessage::validate call in validate_signature")
    for c in cs:
        recv = strip_sites(PN._peel_refs(b.origin(c.args[0])))
        a = strip_sites(b.origin(c.args[2]))
        ok = recv == ("field", ("deref", ("param", 1)), "signed") and a[0] == "call" and a[1] == ad \
            and strip_sites(PN._peel_refs(a[2][0])) == ("field", ("deref", ("param", 1)), "entry") and PN._peel_refs(a[2][1]) == ("param", 3) \
            and PN._peel_refs(strip_sites(b.origin(c.args[1]))) == ("param", 2)
        R.ob("CHAIN", "validate_signature: self.signed.validate(key_provider, self.entry.associated_data(path_segment))", ok, True)
        if not ok:
            R.violation("CHAIN", vs + "/arguments", "the entry signature is not validated over this entry's own chained associated data", c.span.loc)
        oks = _ok_exits(b)
        g_ok, info = T.gs_check(b, oks, lambda tk, o, g: o[0] == "disc" and ("fn:" + VAL) in tk)
        R.ob("CHAIN", "validate_signature returns Ok only on validate's Ok edge", g_ok, True)
        if not g_ok:
            R.violation("CHAIN", vs + "/error-dropped", "validate_signature can return Ok although SignedMessage::validate failed: %s" % info.get("why"), F.loc(vs))
    # associated_data: once(info.encoded).chain(take_while(entries before self).flat_map([header_and_body, signature]))
    ab = F.body(ad)
    if ab is None:
        R.anchor_missing(ad)
        return
    R.fn(ad)
    o = ab.local_origin(0)
    tk = tokens(o)
    kids = F.closure_children(ad)
    kt = set()
    for k in kids:
        kb = F.body(k)
        if kb is not None:
            kt |= tokens(kb.local_origin(0))
            for blk in kb.live_blocks():
                for st in kb.stmts(blk):
                    if st[0] == "=":
                        kt |= tokens(kb._rvalue_origin(st[2], 6, frozenset()))
    ok = any(t.endswith("::once") for t in tk) and "field:encoded" in tk and any(t.endswith("::chain") for t in tk) \
        and any(t.endswith("::take_while") for t in tk) and any(t.endswith("::flat_map") for t in tk) \
        and "field:header_and_body" in kt and "field:signature" in kt
    # the prefix scan stops at the entry itself: take_while's predicate compares the WHOLE entry (derived PartialEq of
    # AsEntry) with self — a weaker test (same AS, same interface …) stops early and leaves predecessors unsigned
    tw = [c for c in ab.calls if not c.indirect and c.decl.endswith("Iterator::take_while")]
    okp = False
    for c in tw:
        co = ab.origin(c.args[1])
        if co[0] == "agg" and co[1][0] == "closure":
            kb = F.body(co[1][1])
            ro = strip_sites(kb.local_origin(0)) if kb is not None else None
            cmpc = [x for x in kb.calls if not x.indirect and x.decl in ("core::cmp::PartialEq::ne", "core::cmp::PartialEq::eq")] if kb is not None else []
            if ro and ro[0] == "call" and ro[1] in ("core::cmp::PartialEq::ne", "core::cmp::PartialEq::eq") and cmpc and all((x.selfty or "") == SEG + "AsEntry" for x in cmpc):
                a0, a1 = PN._peel_refs(ro[2][0]), PN._peel_refs(ro[2][1])
                sides = {fmt(a0, 60), fmt(a1, 60)}
                okp = any("entry" in x for x in sides) and any("env" in x for x in sides)
    R.ob("CHAIN", "associated_data: the prefix ends where an entry equals self as a whole AsEntry", okp, True)
    if not okp:
        R.violation("CHAIN", ad + "/prefix-predicate", "the scan for 'all entries before this one' no longer compares whole entries: an entry spliced in front of this one "
                    "(same AS / partial equality) is not covered by this entry's signature input", F.loc(ad))
    # CHAIN-all: "over ... all preceding entries": the iterator handed to flat_map is the take_while prefix itself.  An adaptor
    # in between that narrows the prefix (last, nth, skip, filter ...) leaves some preceding entries out of the signature input.
    NARROW = re.compile(r"::(last|nth|nth_back|skip|skip_while|step_by|filter|filter_map|next|next_back|find|find_map|max|max_by|max_by_key|min|min_by|min_by_key|reduce|peekable)$")
    NEUTRAL = re.compile(r"::(take_while|iter|into_iter|deref|as_slice|by_ref|copied|cloned)$")
    fm = [c for c in ab.calls if not c.indirect and c.decl.endswith("Iterator::flat_map")]
    R.floor("CHAIN-all", len(fm), 1, "flat_map calls in associated_data")
    for c in fm:
        t = ab.origin(c.args[0])
        names, unknown = [], []
        for _ in range(12):
            while t and t[0] in ("ref", "deref"):
                t = t[-1]
            if not t or t[0] != "call" or not t[2]:
                break
            names.append(t[1])
            t = t[2][0]
        narrow = [x for x in names if NARROW.search(x)]
        unknown = [x for x in names if not NARROW.search(x) and not NEUTRAL.search(x)]
        okc = not narrow and any(x.endswith("::take_while") for x in names)
        R.ob("CHAIN-all", "associated_data: flat_map consumes the whole take_while prefix (adaptors: %s)%s" % (", ".join(x.split("::")[-1] for x in names), "; undecided adaptors: %s" % unknown if unknown else ""),
             okc or bool(unknown and not narrow), True, {"rule": "CHAIN-all", "adaptors": names, "undecided": unknown, "holds": okc})
        if narrow:
            R.violation("CHAIN-all", ad + "/narrowed-prefix", "the entries fed into the signature input pass through %s before flat_map: only part of the preceding entries "
                        "is covered, so tampering with or reordering the others goes undetected" % ", ".join(x.split("::")[-1] for x in narrow), c.span.loc)
    R.ob("CHAIN", "associated_data = once(info.encoded).chain(entries before self → [header_and_body, signature])", ok, True,
         {"rule": "CHAIN", "closure_fields": sorted(t for t in kt if t.startswith("field:"))[:12], "holds": ok})
    if not ok:
        R.violation("CHAIN", ad, "associated_data no longer chains the segment info with header_and_body and signature of all preceding entries", F.loc(ad))
    # who may construct SignedAsEntry
    cons = T.adt_constructions(F, SEG + "SignedAsEntry", crates=["sciparse"])
    R.floor("WMC-signed-entry", len(cons), 1, "constructions of SignedAsEntry")
    for (p, bi, si, sp) in cons:
        pb = F.body(p)
        st = pb.stmts(bi)[si]
        names = st[2][1][4]
        eo = pb._op_origin(st[2][2][names.index("entry")], 12, frozenset())
        so = pb._op_origin(st[2][2][names.index("signed")], 12, frozenset())
        et, stt = tokens(eo), tokens(so)
        from_signed = any(t.endswith("::decode_unvalidated") or t.endswith("::decode_validated") or t.endswith("Message::decode") for t in et)
        from_entry = any(t.endswith("AsEntry::signature") or t.endswith("SignedMessage::sign") for t in stt)
        derive = sp.mac and ("Clone" in sp.mac or "Deserialize" in sp.mac)
        ok = from_signed or from_entry or bool(derive)
        R.ob("WMC-signed-entry", "SignedAsEntry built in %s with entry/signature linked (%s)" % (short(p), "decoded from signed" if from_signed else "signed from entry" if from_entry else "derive"), ok, True,
             {"rule": "WMC-signed-entry", "fn": p, "loc": sp.loc, "holds": ok})
        if not ok:
            R.violation("WMC-signed-entry", p, "a SignedAsEntry is assembled from an entry and a signature that are not derived from each other", sp.loc)


def cast_rule(F, R, ents):
    """no narrowing integer `as` cast on a value of the RPC message in the decoding direction"""
    W = {"u8": 8, "i8": 8, "u16": 16, "i16": 16, "u32": 32, "i32": 32, "u64": 64, "i64": 64, "usize": 64, "isize": 64, "u128": 128, "i128": 128}
    n = 0
    listed = []
    for p in ents:
        nm = p.split("::")[-1]
        if nm not in ("try_from_rpc", "try_from", "from_rpc", "from"):
            continue
        for q in [p] + [k for k in F.closure_children(p)]:
            b = F.body(q)
            if b is None:
                continue
            for bi in sorted(b.live_blocks()):
                for st in b.stmts(bi):
                    if st[0] == "=" and st[2][0] == "cast" and st[2][1] == "IntToInt":
                        fr, to = st[2][3], st[2][4]
                        if fr in W and to in W:
                            n += 1
                            narrowing = W[to] < W[fr] or (W[to] == W[fr] and fr[0] != to[0] and fr[0] == "i")
                            src = tokens(b._op_origin(st[2][2], 10, frozenset()))
                            from_rpc = any(t.startswith("param:") for t in src) and not b.span_of(st[3]).external_macro("sciparse")
                            bad = narrowing and from_rpc
                            if bad and PN.upper_bound(b._op_origin(st[2][2], 10, frozenset())) is not None and PN.upper_bound(b._op_origin(st[2][2], 10, frozenset())) < 2 ** (W[to] - (1 if to[0] == "i" else 0)):
                                bad = False
                            if bad:
                                listed.append({"fn": q, "loc": b.span_of(st[3]).loc, "cast": "%s as %s" % (fr, to)})
    # the segment header is different: SignedPathSegment::try_from_rpc does not keep the received header bytes, it re-encodes
    # the header from the decoded values and that re-encoding is the first chunk of every entry's signature input.  A lossy
    # conversion there erases bits before verification ("changing any bit of the header makes validation fail" breaks).
    for x in listed:
        if "SegmentInfo" in x["fn"] or "SegmentInformation" in x["fn"]:
            R.ob("CAST-header", "%s: %s" % (short(x["fn"]), x["cast"]), False, True)
            R.violation("CAST-header", "%s/%s" % (x["fn"], x["cast"]), "segment header field narrowed with `%s` while decoding: the header is re-encoded from the narrowed "
                        "value into the signature input, so tampered high bits vanish before verification" % x["cast"], x["loc"])
    hdr = [p for p in ents if ("SegmentInfo" in p or "SegmentInformation" in p) and p.split("::")[-1] in ("try_from_rpc", "try_from")]
    R.floor("CAST-header", len(hdr), 1, "SegmentInfo RPC decoders examined for lossy conversions")
    if not any("SegmentInfo" in x["fn"] for x in listed):
        R.ob("CAST-header", "SegmentInfo::try_from_rpc narrows no RPC field with `as` (checked conversions only)", True, True)
    # informational only: the property demands "a value or an error without panicking" and a lossless round trip from
    # the model side; a wrapping cast of an out-of-range RPC field breaks neither, so it is listed, not reported
    R.extra["rpc_decode_casts"] = {"examined": n, "sign_changing_or_narrowing_on_rpc_values": listed}

