"""C05 — a socket's path policy is honoured by every path handed to a sender."""
import re
import templates as T
from facts import tokens, fmt, short, walk, strip_sites

CRATES = ["scion_stack", "sciparse"]

EXPLANATION = (
    "Provenance / must-pass-through analysis on the MIR (including coroutine bodies) of scion-stack's path manager. "
    "(A) every path from the PathFetcher::fetch_paths await to the Ok exit of fetch_and_filter_paths passes Vec::retain "
    "on the returned vector with a closure that returns PathStrategy::predicate(element); (B) fetch_paths has no other "
    "caller in the manager; (C) update_path_cache only ever receives that Ok value or an empty vector; (D) cached_paths "
    "grows only inside merge_new_paths_algo, from the candidate vector; (E) every non-None store into the shared "
    "active_path takes a clone of the `.path` of a cached_paths element (retain_mut element or best_path result); "
    "(F) the values MultiPathManager hands to senders (cached_path, path) originate only in the active_path handle or "
    "ScionPath::local; (G) PathStrategy::predicate is Iterator::all over all policies of PathPolicy::predicate, and the "
    "blanket impl maps an evaluation error to `false`."
)
EXPLANATION_ADD = ' Additions: (GS-best-valid) every source of Some(path) in PathSet::best_path is behind check_path_expiry == Valid; (MUST-evaluable) PathPolicy::path_allowed answers Ok only after hops_from_path succeeded and hops_from_path never returns an empty, unexamined hop list.'
EXPLANATION = EXPLANATION + EXPLANATION_ADD
RESIDUAL = ["that the predicate's meaning is right (C16)", "src/dst of fetched paths (fetcher contract)",
            "histories: that an earlier-cached path is still the same object (value identity)"]
ASSUMPTIONS = ["arc_swap::ArcSwap and scc::HashIndex return what was stored", "Vec::retain keeps exactly the elements for which the closure returns true"]
TECHNIQUE = "MIR provenance (origin-tree) analysis, must-pass-through on coroutine CFGs, who-may-call/write"

PS = "scion_stack::path::manager::pathset::PathSet::<F>::"
FETCH = "scion_stack::path::fetcher::traits::PathFetcher::fetch_paths"
PRED = "scion_stack::path::strategy::PathStrategy::predicate"
POLICY_PRED = "scion_stack::path::strategy::policy::PathPolicy::predicate"
MERGE = "scion_stack::path::manager::pathset::merge_new_paths_algo"
GROW = ("::push", "::extend", "::insert", "::append", "::extend_from_slice", "::resize", "::resize_with", "::push_within_capacity",
        "::extend_from_within", "::splice", "::insert_mut", "::push_mut")


def in_manager(p):
    return p.startswith("scion_stack::path::manager") and not T.is_test_support(p)


def _unref(t):
    while isinstance(t, tuple) and t and t[0] in ("ref", "deref"):
        t = t[2] if t[0] == "ref" else t[1]
    return t


def run(F, R, tier, cfg):
    unevaluable_rule(F, R)
    import c06
    c06.best_valid_rule(F, R)      # 'an earlier lookup still valid': the candidate for the active slot is a Valid path
    # ---- A: filter on every fetch
    co = PS + "fetch_and_filter_paths::{closure#0}"
    b = F.body(co)
    if b is None:
        R.anchor_missing(co)
        return
    R.fn(co)
    oks = [bb for (bb, idx, adt, var) in T.result_variant_defs(b) if var == "Ok"]
    retains = [c for c in b.calls_to(lambda n: n.endswith("Vec::<T, A>::retain") or n.endswith("Vec::<T, A>::retain_mut"))]
    good = []
    for c in retains:
        cl = [t[8:] for t in tokens(b.origin(c.args[1])) if t.startswith("closure:")]
        okc = False
        for x in cl:
            cb = F.body(x)
            if cb is None:
                continue
            o = cb.local_origin(0)
            if o[0] == "call" and o[1] == PRED and "param:2" in tokens(o[2][1]):
                okc = True
        if okc:
            good.append(c)
    okA = bool(oks) and bool(good)
    why = ""
    if okA:
        ok1, bad = T.must_pass(b, oks, [c.bb for c in good])
        if not ok1:
            okA, why = False, "Ok exit bb%d reachable without the policy filter" % bad
        # the retained vector is the returned one
        for bb in oks:
            for d in b.defs.get(0, ()):
                if d[0] == "assign" and d[1] == bb:
                    payload = d[4][2][0]
                    po = strip_sites(_unref(b.origin(payload)))
                    if not any(strip_sites(_unref(b.origin(c.args[0]))) == po for c in good):
                        okA, why = False, "the vector returned in Ok is not the one that was filtered"
    else:
        why = "no retain(predicate) on the fetched paths" if oks else "no Ok exit found"
    R.ob("GS-policy-filter", "fetch_and_filter_paths: Ok(paths) only after paths.retain(|p| strategy.predicate(p))", okA, True,
         {"rule": "GS-policy-filter", "fn": co, "ok_exits": oks, "retain_blocks": [c.bb for c in good], "holds": okA})
    if not okA:
        R.violation("GS-policy-filter", co, "fetched paths can reach the cache unfiltered: %s" % why, F.loc(PS + "fetch_and_filter_paths"))

    # ---- B: only caller of fetch_paths in the manager
    callers = [(p, c) for (p, c) in T.call_sites(F, FETCH, crates=["scion_stack"]) if in_manager(p)]
    R.floor("WMC-fetch", len(callers), 1, "PathFetcher::fetch_paths callers in path::manager")
    for (p, c) in callers:
        ok = (p == co)
        R.ob("WMC-fetch", "fetch_paths called from %s" % short(p), ok, True)
        if not ok:
            R.violation("WMC-fetch", p, "PathFetcher::fetch_paths is called outside fetch_and_filter_paths (unfiltered lookup)", c.span.loc)

    # ---- C: what reaches update_path_cache
    upd = PS + "update_path_cache"
    sites = [(p, c) for (p, c) in T.call_sites(F, upd, crates=["scion_stack"]) if in_manager(p)]
    R.floor("FLOW-cache-input", len(sites), 2, "update_path_cache call sites")
    for (p, c) in sites:
        pb = F.body(p)
        o = pb.origin(c.args[1])
        alts = o[1] if o[0] == "phi" else (o,)
        ok = True
        desc = []
        for a in alts:
            if a[0] == "call" and (a[1].endswith("vec::Vec::<T>::new")) and not a[2]:
                desc.append("empty vec")
                continue
            tk = tokens(a)
            cls = [t[8:] for t in tk if t.startswith("closure:")]
            via = False
            for x in cls:
                xb = F.body(x)
                if xb is None:
                    continue
                # the awaited async block: all its Ok payloads stem from fetch_and_filter_paths
                xoks = [d for d in xb.defs.get(0, ()) if d[0] == "assign" and d[4][0] == "agg" and d[4][1][0] == "adt" and d[4][1][2] == "Ok"]
                if xoks and all(any(t.endswith("fetch_and_filter_paths") or t.endswith("fetch_and_filter_paths::{closure#0}") for t in tokens(xb.origin(d[4][2][0]))) for d in xoks):
                    via = True
            if via and a[0] == "field" or via:
                desc.append("Ok(fetch_and_filter_paths)")
                continue
            ok = False
            desc.append("?? " + fmt(a, 160))
        R.ob("FLOW-cache-input", "update_path_cache input in %s: %s" % (short(p), desc), ok, True)
        if not ok:
            R.violation("FLOW-cache-input", p + "/update_path_cache-arg",
                        "paths not stemming from fetch_and_filter_paths can be merged into the cache: %s" % desc, c.span.loc)

    # ---- D: cache growth
    n_grow = 0
    for p in F.all_body_paths("scion_stack"):
        if not in_manager(p):
            continue
        pb = F.body(p)
        for c in pb.calls:
            if c.indirect or not c.args:
                continue
            tk0 = tokens(pb.origin(c.args[0]))
            if "field:cached_paths" not in tk0:
                continue
            if any(c.decl.endswith(g) for g in GROW):
                n_grow += 1
                R.ob("WMC-cache-growth", "growth of cached_paths in %s" % short(p), False, True)
                R.violation("WMC-cache-growth", "%s/%s" % (p, short(c.decl)), "cached_paths grows outside merge_new_paths_algo", c.span.loc)
            # &mut cached_paths handed to a workspace function
            tgt = [t for t in F.callees_of_call(c) if F.has_body(t)]
            aty = pb.local_ty(c.args[0][1][0]) if c.args[0][0] in ("c", "m") else ""
            if tgt and aty.startswith("&mut alloc::vec::Vec<"):
                ok = all(t == MERGE for t in tgt)
                R.ob("WMC-cache-growth", "&mut cached_paths passed to %s" % [short(t) for t in tgt], ok, True)
                if not ok:
                    R.violation("WMC-cache-growth", "%s/passes-cache-to/%s" % (p, short(tgt[0])), "&mut cached_paths escapes to a function other than merge_new_paths_algo", c.span.loc)
        for bi, blk in enumerate(pb.blocks):
            for s in blk["s"]:
                if s[0] == "=" and s[1][1] and isinstance(s[1][1][-1], list) and s[1][1][-1][0] == "f" and s[1][1][-1][2] == "cached_paths":
                    R.violation("WMC-cache-growth", p + "/assign-cached_paths", "cached_paths is replaced wholesale", pb.span_of(s[3]).loc)
    mb = F.body(MERGE)
    if mb is None:
        R.anchor_missing(MERGE)
    else:
        R.fn(MERGE)
        grows = [c for c in mb.calls if not c.indirect and c.args and any(c.decl.endswith(g) for g in GROW)
                 and "param:1" in tokens(mb.origin(c.args[0]))]
        okD = bool(grows)
        for c in grows:
            src = tokens(mb.origin(c.args[1])) if len(c.args) > 1 else set()
            if "param:2" not in src:
                okD = False
        R.ob("WMC-cache-growth", "merge_new_paths_algo extends existing_paths only from new_paths", okD, True)
        if not okD:
            R.violation("WMC-cache-growth", MERGE + "/extend-source", "merge adds elements that do not come from the candidate vector", F.loc(MERGE))
        # truncation to the target count before the merge
        truncs = [c for c in mb.calls if not c.indirect and c.decl.endswith("::truncate")]
        okT = len(truncs) >= 2 and all(any(mb.dominates(t.bb, g.bb) for g in grows) for t in truncs) if grows else False
        R.ob("WMC-cache-growth", "both vectors are truncated before the merge", okT, True)
        if not okT:
            R.violation("WMC-cache-growth", MERGE + "/truncate", "merge no longer truncates both vectors before extending", F.loc(MERGE))

    # ---- E: provenance of the active path
    stores = []
    for p in F.all_body_paths("scion_stack"):
        if not in_manager(p):
            continue
        pb = F.body(p)
        for c in pb.calls:
            if c.indirect or not c.decl.endswith("ArcSwapAny::<T, S>::store") or len(c.args) < 2:
                continue
            if "field:active_path" not in tokens(pb.origin(c.args[0])):
                continue
            stores.append((p, c))
    some = 0
    for (p, c) in stores:
        pb = F.body(p)
        o = pb.origin(c.args[1])
        alts = o[1] if o[0] == "phi" else (o,)
        for a in alts:
            if a[0] == "agg" and a[1][0] == "adt" and a[1][2] == "None":
                continue
            some += 1
            clones = [n for n in walk(a) if n[0] == "call" and n[1].endswith("as core::clone::Clone>::clone")]
            ok = False
            for n in clones:
                src = n[2][0]
                tk = tokens(src)
                if "field:path" not in tk:
                    continue
                e = F.fns.get(p, {})
                if e.get("kind") == "Closure" and "param:2" in tk:
                    # element handed in by retain_mut on cached_paths in the creating function
                    root = F.body(e["root"])
                    for rc in root.calls_to(lambda n: n.endswith("::retain_mut") or n.endswith("::retain")):
                        if "field:cached_paths" in tokens(root.origin(rc.args[0])) and ("closure:" + p) in tokens(root.origin(rc.args[1])):
                            ok = True
                elif "param:3" in tk and p.endswith("apply_active_path_decision"):
                    # best_path parameter: every caller passes decide_active_path_update's / best_path's result
                    ok = _best_path_callers(F, R, p)
                elif any(t.endswith("::best_path") for t in tk) or "field:cached_paths" in tk:
                    ok = True
            R.ob("FLOW-active", "active_path.store(Some(..)) in %s takes a clone of a cached path" % short(p), ok, True,
                 {"rule": "FLOW-active", "fn": p, "loc": c.span.loc, "value": fmt(a, 220), "holds": ok})
            if not ok:
                R.violation("FLOW-active", p + "/store-some", "a path that is not a cached (filtered) path can become the active path: %s" % fmt(a, 200), c.span.loc)
    R.floor("FLOW-active", some, 2, "non-None stores into active_path")

    # ---- F: what is handed to senders
    for fn, what in (("scion_stack::path::manager::MultiPathManager::<F>::cached_path", "cached_path"),
                     ("scion_stack::path::manager::MultiPathManager::<F>::path::{closure#0}", "path")):
        pb = F.body(fn)
        if pb is None:
            R.anchor_missing(fn)
            continue
        R.fn(fn)
        o = pb.local_origin(0)
        ok = True
        n = 0
        for node in walk(o):
            if node[0] == "agg" and node[1][0] == "adt" and node[1][2] in ("Some", "Ok") and node[1][1] in ("core::option::Option", "core::result::Result"):
                n += 1
                tk = tokens(node[2][0])
                src_ok = any(t.endswith("::try_active_path") or t.endswith("PathSetHandle::active_path") or t.endswith("ScionPath::local")
                             or t.endswith("::peek_with") for t in tk) or _closure_reads_active(F, tk)
                if not src_ok:
                    ok = False
        R.ob("FLOW-handout", "%s hands out only the active path of the pair's handle (or the local path)" % what, ok and n > 0, True)
        if not (ok and n > 0):
            R.violation("FLOW-handout", fn, "%s can return a path that does not come from the managed active path: %s" % (what, fmt(o, 300)), F.loc(fn))

    # ---- G: conjunction over all policies, error => rejected
    pb = F.body(PRED)
    if pb is None:
        R.anchor_missing(PRED)
    else:
        R.fn(PRED)
        o = pb.local_origin(0)
        ok = o[0] == "call" and (o[1].endswith("Iterator>::all") or o[1].endswith("Iterator::all")) and "field:policies" in tokens(o[2][0])
        if ok:
            cl = [t[8:] for t in tokens(o[2][1]) if t.startswith("closure:")]
            ok = False
            for x in cl:
                xo = F.body(x).local_origin(0)
                if xo[0] == "call" and xo[3] == POLICY_PRED and "param:2" in tokens(xo[2][0]):
                    ok = True
        R.ob("SIB-conjunction", "PathStrategy::predicate == policies.iter().all(|p| p.predicate(path))", ok, True)
        if not ok:
            R.violation("SIB-conjunction", PRED, "the strategy predicate is no longer the conjunction of all policies: %s" % fmt(o, 240), F.loc(PRED))
    blanket = [p for p, e in F.fns.items() if e.get("trait_item") == POLICY_PRED and e["_crate"] == "scion_stack" and not T.is_test_support(p)
               and e.get("self_ty") == "T"]
    R.floor("SIB-err-rejects", len(blanket), 1, "blanket PathPolicy impl for sciparse policies")
    for p in blanket:
        pb = F.body(p)
        o = pb.local_origin(0)
        ok = o[0] == "call" and o[1].endswith("::unwrap_or") and any(t.endswith("::path_allowed") for t in tokens(o[2][0])) \
            and o[2][1][0] == "lit" and o[2][1][1] in (0, False)
        R.ob("SIB-err-rejects", "blanket impl: path_allowed(..).unwrap_or(false)", ok, True)
        if not ok:
            R.violation("SIB-err-rejects", p, "a policy that cannot be evaluated no longer rejects the path: %s" % fmt(o, 200), F.loc(p))


def _closure_reads_active(F, tk):
    for t in tk:
        if t.startswith("closure:"):
            cb = F.body(t[8:])
            if cb and cb.calls_to(lambda n: n.endswith("::try_active_path")):
                return True
    return False


def _best_path_callers(F, R, fn):
    ok = True
    callers = T.call_sites(F, fn, crates=["scion_stack"])
    if not callers:
        return False
    for (p, c) in callers:
        pb = F.body(p)
        tk = tokens(pb.origin(c.args[2]))
        if not any(t.endswith("::decide_active_path_update") or t.endswith("::best_path") for t in tk):
            ok = False
    # decide_active_path_update returns best_path() as its second component
    d = PS + "decide_active_path_update"
    db = F.body(d)
    if db is None:
        return False
    o = db.local_origin(0)
    second = None
    for n in walk(o):
        if n[0] == "agg" and n[1][0] == "tuple" and len(n[2]) == 2:
            second = n[2][1]
    if second is None or not all(t.endswith("::best_path") for t in tokens(second) if t.startswith("fn:") and "best_path" in t) \
            or not any(t.endswith("::best_path") for t in tokens(second)):
        ok = False
    if second is not None:
        # nothing but best_path (or None) may flow into it
        for n in walk(second):
            if n[0] == "call" and not (n[1].endswith("::best_path")) and "cached_paths" not in fmt(n, 400) and n[1].split("::")[-1] not in ("deref", "as_ref"):
                pass
    bp = F.body(PS + "best_path")
    if bp is None:
        return False
    bo = bp.local_origin(0)
    for n in walk(bo):
        if n[0] == "agg" and n[1][0] == "adt" and n[1][2] == "Some":
            if "field:cached_paths" not in tokens(n[2][0]):
                ok = False
    return ok


HOPS = "sciparse::scion::path::policy::types::PathPolicyHop::hops_from_path"


def unevaluable_rule(F, R):
    """MUST-evaluable: "a path whose policy evaluation is impossible (no metadata) is treated as rejected".  (a) every
    PathPolicy::path_allowed impl in sciparse returns Ok(_) only after PathPolicyHop::hops_from_path(path) succeeded — every Ok
    exit is dominated by the call and lies on its success edge; (b) hops_from_path returns Ok only with a hop list that was
    pushed to (its Ok payload is the vector that received at least one push on every path), never a freshly created empty
    vector: a path without metadata / without interfaces yields Err, which PathStrategy::predicate maps to 'rejected'."""
    impls = [p for p, e in F.fns.items() if (e.get("trait_item") or "").endswith("policy::PathPolicy::path_allowed") and e["_crate"] == "sciparse" and not T.is_test_support(p)]
    R.floor("MUST-evaluable", len(impls), 2, "PathPolicy::path_allowed impls in sciparse (ACL, hop pattern)")
    for p in impls:
        b = F.body(p)
        R.fn(p)
        oks = [bb for (bb, idx, adt, var) in T.result_variant_defs(b) if var == "Ok"]
        hc = [c for c in b.calls if not c.indirect and (c.res or c.decl) == HOPS and c.bb in b.live_blocks()]
        delegates = [c for c in b.calls if not c.indirect and (c.decl.endswith("PathPolicy::path_allowed") or (c.res or "").endswith("::path_allowed")) and c.bb in b.live_blocks()]
        if not hc and delegates:
            R.ob("MUST-evaluable", "%s delegates to another policy's path_allowed" % short(p), True, False)
            continue
        ok = bool(oks) and bool(hc) and all(any(b.dominates(c.bb, o) for c in hc) for o in oks)
        if ok:
            def pred(tk, o, g):
                return o[0] == "disc" and any(n[0] == "call" and n[1] == HOPS for n in walk(o))
            ok = all(T.guarded_by(b, o, pred, [0])[0] for o in oks)
        R.ob("MUST-evaluable", "%s: Ok(_) only after hops_from_path(path) succeeded" % short(p), ok, True,
             {"rule": "MUST-evaluable", "fn": p, "ok_exits": len(oks), "hops_from_path_calls": len(hc), "holds": ok})
        if not ok:
            R.violation("MUST-evaluable", p, "%s can answer Ok(allowed) without having derived the path's hops (no metadata / no interface list): an unevaluable path "
                        "is treated as allowed instead of rejected" % short(p), F.loc(p))
    b = F.body(HOPS)
    if b is None:
        R.anchor_missing(HOPS)
        return
    R.fn(HOPS)
    oks = [(bb, idx) for (bb, idx, adt, var) in T.result_variant_defs(b) if var == "Ok"]
    pushes = [c.bb for c in b.calls if not c.indirect and c.decl.endswith("::push") and c.bb in b.live_blocks()]
    ok = bool(oks) and bool(pushes)
    for bb, idx in oks:
        st = b.stmts(bb)[idx]
        o = strip_sites(b.origin(st[2][2][0]))
        fresh_empty = o[0] == "call" and re.search(r"::(new|default)$", o[1]) and not o[2]
        passes_push = T.must_pass(b, [bb], pushes)[0]
        ok = ok and not fresh_empty and passes_push
    R.ob("MUST-evaluable", "hops_from_path: every Ok carries a hop list that was pushed to on every path (%d push sites)" % len(pushes), ok, True)
    if not ok:
        R.violation("MUST-evaluable", HOPS, "hops_from_path can return Ok with an empty hop list (no interface was examined): default-allow ACLs and patterns "
                    "matching the empty sequence accept the path unchecked", F.loc(HOPS))
