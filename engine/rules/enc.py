"""ENC — the encode contract shared by C03, C08, C14 (and C02's UNS rule).

`WireEncode::encode_unchecked(&self, buf)` / `PayloadEncode::encode_unchecked(&self, buf, addr, hdr)`
are `unsafe fn`s whose contract is `buf.len() >= self.required_size(..)`.  Inside such an impl the
buffer parameter is therefore at least as long as the *sibling* required_size of the same impl.

This module
  * finds, for an encode_unchecked impl, its sibling required_size and renders that function's
    result as an origin tree over the encode function's parameters (RS);
  * discharges index sites on the buffer whose bound is structurally RS (same layout constructor
    applied to the same `self` fields and the same header-size parameter), or a compile-time constant
    byte range that ends within a constant RS;
  * discharges copy_from_slice sites whose two lengths are equal by construction;
  * discharges source-side prefixes `v[..n]` where n is the length of a layout range computed from
    `len(v)` by a constructor proven (QUOTE template) to yield `min(len(v), budget)` or `len(v)`;
  * checks (entry_contract) that encode_unchecked is entered only behind the size check.
"""
import re

import facts as FX
import panic as PN
import templates as T
from facts import tokens, fmt, short, walk, strip_sites, op_place

ENC_ITEMS = ("sciparse::core::encode::WireEncode::encode_unchecked", "sciparse::proto::payload::encode::PayloadEncode::encode_unchecked")
RS_ITEMS = {"sciparse::core::encode::WireEncode::encode_unchecked": "sciparse::core::encode::WireEncode::required_size",
            "sciparse::proto::payload::encode::PayloadEncode::encode_unchecked": "sciparse::proto::payload::encode::PayloadEncode::required_size"}


def is_encode_impl(F, fn):
    e = F.fns.get(fn)
    return bool(e) and e.get("trait_item") in ENC_ITEMS


def sibling(F, fn, item=None):
    """the required_size (or other item) of the same impl block"""
    e = F.fns[fn]
    want = item or RS_ITEMS[e["trait_item"]]
    for p in F.trait_impls.get(want, ()):
        x = F.fns[p]
        if x.get("self_ty") == e.get("self_ty") and x.get("impl_trait_full") == e.get("impl_trait_full") and x["_crate"] == e["_crate"]:
            return p
    return None


def _map_params(t, m):
    if not isinstance(t, tuple):
        return t
    if t and t[0] == "param":
        return ("param", m.get(t[1], ("?", t[1])))
    return tuple(_map_params(x, m) if isinstance(x, tuple) else x for x in t)


def rs_tree(F, fn, _memo={}):
    """origin of the sibling required_size's result over encode_unchecked's parameters:
    WireEncode (self) -> (1); PayloadEncode (self, hdr) -> (1, 4)"""
    key = (id(F), fn)
    if key in _memo:
        return _memo[key]
    sib = sibling(F, fn)
    res = None
    if sib and F.has_body(sib):
        b = F.body(sib)
        t = strip_sites(b.local_origin(0))
        m = {1: 1, 2: 4} if F.fns[fn]["trait_item"].startswith("sciparse::proto::payload") else {1: 1}
        res = _map_params(t, m)
    _memo[key] = (sib, res)
    return _memo[key]


def _norm(F, fn, t):
    """normalise a bound expression inside encode_unchecked `fn`: calls of the impl's own required_size
    on (self[, hdr]) are replaced by RS"""
    sib, rs = rs_tree(F, fn)
    t = strip_sites(PN.strip_casts(t))
    if rs is None:
        return t
    if t[0] == "call" and (t[1] == sib or (len(t) > 3 and t[3] in RS_ITEMS.values() and t[1] == sib)):
        args = [PN._peel_refs(a) for a in t[2]]
        want = [("param", 1)] + ([("param", 4)] if len(args) > 1 else [])
        if [strip_sites(a) if a[0] != "deref" else strip_sites(a[1]) for a in args] == want or \
           [a for a in args] == want:
            return rs
    return t


def _is_buf(body, t):
    """t denotes the buffer parameter (param#2) itself"""
    t = PN._peel_refs(t)
    return t == ("param", 2)


def _same(a, b):
    return strip_sites(PN.strip_casts(a)) == strip_sites(PN.strip_casts(b))


def _range_len_tree(ix):
    """for a Range-valued tree R:  ('rangelen', R) pattern helpers"""
    return ix


def _is_range_len_of(n, R):
    """n == R.end - R.start"""
    n = PN.strip_casts(n)
    if n[0] == "field" and n[2] == "0" and n[1][0] == "bin":
        n = ("bin", n[1][1].replace("WithOverflow", ""), n[1][2], n[1][3])
    if n[0] != "bin" or n[1] not in ("Sub", "SubUnchecked"):
        return False
    a, b = n[2], n[3]
    return a[0] == "field" and a[2] == "end" and b[0] == "field" and b[2] == "start" and _same(a[1], R) and _same(b[1], R)


QUOTE_CTOR = re.compile(r"::(from_offending_packet_length|from_data_length|from_message_specific_data_length)$")


def discharge(F, s, cfg):
    """extra auto-discharge for sites inside encode_unchecked impls; returns reason or None"""
    if s.call is None or not is_encode_impl(F, s.fn):
        return None
    body = s.body
    decl = s.call.decl
    sib, rs = rs_tree(F, s.fn)
    # ---- A1/A4: slicing of the buffer itself
    if re.search(r"::(index|index_mut)$", decl) and len(s.ops) == 2 and _is_buf(body, body.origin(s.ops[0])) and rs is not None:
        ix = body.origin(s.ops[1])
        end = None
        if ix[0] == "agg" and ix[1][0] == "adt" and ix[1][1].endswith("::Range") and len(ix[2]) == 2 and PN.const_eval(ix[2][0]) == 0:
            end = ix[2][1]
        elif ix[0] == "agg" and ix[1][0] == "adt" and ix[1][1].endswith("::RangeTo") and len(ix[2]) == 1:
            end = ix[2][0]
        if end is not None and _norm(F, s.fn, end) == rs:
            return "encode contract: buf[..n] with n structurally equal to the impl's own required_size (%s)" % fmt(rs, 80)
        if ix[0] == "call" and re.search(r"::BitRange::(aligned_byte_range|containing_byte_range)$", ix[1]) and len(ix[2]) == 1:
            br = PN._const_bitrange(F, ix[2][0])
            rsv = PN.const_eval(rs)
            if br is not None and rsv is not None and -(-br[1] // 8) <= rsv:
                return "encode contract: constant byte range ..%d within the impl's constant required_size %d" % (-(-br[1] // 8), rsv)
        return None
    # ---- copy_from_slice with lengths equal by construction
    if decl.endswith("::copy_from_slice") and len(s.ops) == 2:
        dst, src = PN._peel_refs(body.origin(s.ops[0])), PN._peel_refs(body.origin(s.ops[1]))
        if dst[0] == "call" and re.search(r"::(get_unchecked_mut|index_mut)$", dst[1]) and len(dst[2]) == 2:
            R = dst[2][1]
            # (i) dst = buf[..len(S)], src = S / deref(S)
            if R[0] == "agg" and R[1][0] == "adt" and R[1][1].endswith("::RangeTo") and len(R[2]) == 1:
                S = PN._len_tree_of(R[2][0])
                if S is None:
                    n = PN.strip_casts(R[2][0])
                    if n[0] == "call" and n[1].endswith("::len") and len(n[2]) == 1:
                        S = PN._peel_refs(n[2][0])
                src0 = src
                if src0[0] == "call" and src0[1].endswith("::deref") and len(src0[2]) == 1:
                    src0 = PN._peel_refs(src0[2][0])
                if S is not None and _same(S, src0):
                    return "destination is buf[..len(src)]: lengths equal by construction"
            # (ii) dst = buf[R], src = V[..(R.end - R.start)]
            if src[0] == "call" and re.search(r"::index$", src[1]) and len(src[2]) == 2:
                six = src[2][1]
                if six[0] == "agg" and six[1][0] == "adt" and six[1][1].endswith("::RangeTo") and len(six[2]) == 1 and _is_range_len_of(six[2][0], R):
                    return "source is v[..(R.end - R.start)] for the destination range R: lengths equal by construction"
        return None
    # ---- A3: source-side prefix v[..n], n = |range of a layout built from len(v)|
    if re.search(r"::index$", decl) and len(s.ops) == 2:
        V = PN._peel_refs(body.origin(s.ops[0]))
        ix = body.origin(s.ops[1])
        if ix[0] == "agg" and ix[1][0] == "adt" and ix[1][1].endswith("::RangeTo") and len(ix[2]) == 1:
            n = PN.strip_casts(ix[2][0])
            if n[0] == "field" and n[2] == "0" and n[1][0] == "bin":
                n = ("bin", n[1][1].replace("WithOverflow", ""), n[1][2], n[1][3])
            if n[0] == "bin" and n[1] in ("Sub", "SubUnchecked") and n[2][0] == "field" and n[2][2] == "end" and n[3][0] == "field" and n[3][2] == "start" and _same(n[2][1], n[3][1]):
                R = n[2][1]
                # R = aligned_byte_range(&L::xxx_rng(&L::from_…_length(len(V)[, hdr])))
                if R[0] == "call" and R[1].endswith("::BitRange::aligned_byte_range") and len(R[2]) == 1:
                    rng = PN._peel_refs(R[2][0])
                    if rng[0] == "call" and rng[1].endswith("_rng") and len(rng[2]) == 1:
                        lay = PN._peel_refs(rng[2][0])
                        if lay[0] == "call" and QUOTE_CTOR.search(lay[1]) and lay[2]:
                            ln = PN._len_tree_of(lay[2][0])
                            if ln is None:
                                a0 = PN.strip_casts(lay[2][0])
                                if a0[0] == "call" and a0[1].endswith("::len") and len(a0[2]) == 1:
                                    ln = PN._peel_refs(a0[2][0])
                            if ln is not None and _same(ln, V) and quote_ctor_ok(F, lay[1], rng[1]):
                                return ("quoted prefix: n is the byte length of %s of the layout %s(len(v), ..), which is "
                                        "min(len(v), budget) <= len(v) (QUOTE template verified on the constructor)" % (short(rng[1]), short(lay[1])))
        return None
    return None


def inline_helpers(F, t, depth=3):
    """replace calls of small workspace helper functions by their return expression (parameters substituted)"""
    if not isinstance(t, tuple) or depth <= 0:
        return t
    if t and t[0] == "call" and F.has_body(t[1]) and t[1].startswith("sciparse::") and not t[1].endswith("::min"):
        hb = F.body(t[1])
        ro = strip_sites(hb.local_origin(0))
        if "top" not in tokens(ro) and hb.argc == len(t[2]):
            args = [inline_helpers(F, a, depth - 1) for a in t[2]]

            def sub(x):
                if not isinstance(x, tuple):
                    return x
                if x and x[0] == "param" and 1 <= x[1] <= len(args):
                    return args[x[1] - 1]
                return tuple(sub(y) if isinstance(y, tuple) else y for y in x)
            return inline_helpers(F, sub(ro), depth - 1)
    return tuple(inline_helpers(F, x, depth) if isinstance(x, tuple) else x for x in t)


_quote_memo = {}


def quote_ctor_ok(F, ctor, rng_fn):
    """the layout constructor yields payload_length = H + min(param#1, ..) or H + param#1, the range accessor is
    BitRange::new(H*8, sat_sub(payload_length, H)*8): the range's byte length is <= param#1"""
    key = (id(F), ctor, rng_fn)
    if key in _quote_memo:
        return _quote_memo[key]
    ok = False
    cb, rb = F.body(ctor), F.body(rng_fn)
    if cb is not None and rb is not None:
        o = inline_helpers(F, strip_sites(cb.local_origin(0)))
        H = None
        if o[0] == "agg" and len(o[2]) == 1:
            e = PN.strip_casts(o[2][0])
            if e[0] == "field" and e[2] == "0" and e[1][0] == "bin":
                e = ("bin", e[1][1].replace("WithOverflow", ""), e[1][2], e[1][3])
            if e[0] == "bin" and e[1] == "Add":
                h, m = e[2], e[3]
                if PN.const_eval(h) is None:
                    h, m = m, h
                H = PN.const_eval(h)
                inner_ok = False
                if m == ("param", 1):
                    inner_ok = True
                elif m[0] == "call" and m[1].endswith("::min") and len(m[2]) == 2 and ("param", 1) in m[2]:
                    inner_ok = True
                if H is None or not inner_ok:
                    H = None
        if H is not None:
            r = strip_sites(rb.local_origin(0))
            # BitRange::new(H*8, sat_sub(self.payload_length, H) * 8)
            if r[0] == "call" and r[1].endswith("::BitRange::new") and len(r[2]) == 2:
                st = PN.const_eval(r[2][0])
                ln = PN.strip_casts(r[2][1])
                if ln[0] == "field" and ln[2] == "0" and ln[1][0] == "bin":
                    ln = ("bin", ln[1][1].replace("WithOverflow", ""), ln[1][2], ln[1][3])
                if st == H * 8 and ln[0] == "bin" and ln[1] == "Mul" and PN.const_eval(ln[3]) == 8:
                    x = ln[2]
                    if x[0] == "call" and x[1].endswith("::saturating_sub") and PN.const_eval(x[2][1]) == H and "field:payload_length" in tokens(x[2][0]):
                        ok = True
    _quote_memo[key] = ok
    return ok


HOST_ENC = "<sciparse::scion::address::host_addr::WireHostAddr as sciparse::core::encode::WireEncode>::encode_unchecked"


def hostlen_rule(F, R):
    """HOSTLEN: every value WireHostAddr::encode_unchecked returns is a constant <= 16 or the length of an
    ArrayVec/array of capacity <= 16 (with_pseudoheader slices a [u8; 16] by it)"""
    b = F.body(HOST_ENC)
    if b is None:
        R.anchor_missing(HOST_ENC)
        return
    R.fn(HOST_ENC)
    o = b.local_origin(0)
    alts = o[1] if o[0] == "phi" else (o,)
    n = 0
    for a in alts:
        n += 1
        v = PN.const_eval(a)
        ok = v is not None and v <= 16
        why = "constant %s" % v
        if not ok and a[0] == "call" and a[1].endswith("::len") and len(a[2]) == 1:
            # len(&bytes) with bytes: ArrayVec<[u8; N]>, N <= 16
            call_bb = a[5] if len(a) > 5 else None
            ty = None
            for c in b.calls:
                if c.bb == call_bb:
                    ty = " ".join(c.ga or []) + " " + (c.full or "")
            m = re.search(r"\[u8; (\d+)\]", ty or "")
            ok = bool(m) and int(m.group(1)) <= 16
            why = "len of %s" % (m.group(0) if m else ty)
        R.ob("HOSTLEN", "WireHostAddr::encode_unchecked returns %s" % why, ok, True, {"rule": "HOSTLEN", "value": fmt(a, 100), "holds": ok})
        if not ok:
            R.violation("HOSTLEN", HOST_ENC + "/" + fmt(strip_sites(a), 80), "WireHostAddr::encode_unchecked may return more than 16 (%s): "
                        "ChecksumDigest::with_pseudoheader slices its [u8; 16] scratch buffer with it" % fmt(a, 100), F.loc(HOST_ENC))
    R.floor("HOSTLEN", n, 3, "distinct return values of WireHostAddr::encode_unchecked")


def install():
    if discharge not in PN.EXTRA_DISCHARGERS:
        PN.EXTRA_DISCHARGERS.append(discharge)


# ---------------------------------------------------------------------------------------------------------------
# RET-RS — encode_unchecked returns exactly the impl's own required_size (the number of bytes it announces)
def _enc_to_rs(F, t):
    """rewrite calls of encode_unchecked impls into calls of their sibling required_size (buffer/address arguments dropped)"""
    if not isinstance(t, tuple) or not t:
        return t
    if t[0] == "call" and t[1] in F.fns and is_encode_impl(F, t[1]):
        sib = sibling(F, t[1])
        args = list(t[2])
        if F.fns[t[1]]["trait_item"].startswith("sciparse::proto::payload"):
            keep = [args[0]] + ([args[3]] if len(args) > 3 else [])
        else:
            keep = [args[0]]
        return ("call", sib or "?", tuple(_enc_to_rs(F, a) for a in keep), None)
    if t[0] == "call":
        return ("call", t[1], tuple(_enc_to_rs(F, a) for a in t[2]), None)
    return tuple(_enc_to_rs(F, x) if isinstance(x, tuple) else x for x in t)


def _alts(t):
    if t[0] == "phi":
        out = set()
        for a in t[1]:
            if isinstance(a, tuple):
                out |= _alts(a)
        return out
    return {t}


def ret_rs(F):
    """[(fn, ok, how)] for every encode_unchecked impl"""
    import symb as SY
    out = []
    for p in sorted(F.all_body_paths("sciparse")):
        if T.is_test_support(p) or not is_encode_impl(F, p):
            continue
        b = F.body(p)
        sib, rs = rs_tree(F, p)
        if rs is None:
            out.append((p, False, "no sibling required_size"))
            continue
        ro = strip_sites(b.local_origin(0))
        a0 = _norm(F, p, ro)
        if a0 == rs:
            out.append((p, True, "returns self.required_size(..)"))
            continue
        strip_none = lambda t: SY.nr(strip_sites(_enc_to_rs(F, t)))
        A = {SY.norm(F, strip_none(x)) for x in _alts(a0)}
        B = {SY.norm(F, strip_none(x)) for x in _alts(rs)}
        if A == B:
            out.append((p, True, "same expression%s" % (" per arm (%d arms; encode calls mapped to their required_size)" % len(A) if len(A) > 1 else "")))
        else:
            out.append((p, False, "returns %s, announces %s" % (fmt(a0, 100), fmt(rs, 100))))
    return out


def ret_rs_rule(F, R):
    n = 0
    for p, ok, how in ret_rs(F):
        n += 1
        R.fn(p)
        R.ob("RET-RS", "%s returns exactly its required_size [%s]" % (short(p), how[:60]), ok, True,
             {"rule": "RET-RS", "fn": p, "how": how, "holds": ok} if (not ok or n % 6 == 0) else None)
        if not ok:
            R.violation("RET-RS", p, "%s does not return the number of bytes it announced through required_size (%s): callers that trust the return "
                        "value (try_encode, nested encoders advancing their offset) emit or skip bytes" % (short(p), how), F.loc(p))
    R.floor("RET-RS", n, 25, "encode_unchecked impls (WireEncode + PayloadEncode)")


@PN.invariant("ret-rs")
def _inv_ret_rs(F):
    bad = [(p, how) for p, ok, how in ret_rs(F) if not ok]
    if bad:
        return False, "%s: %s" % (short(bad[0][0]), bad[0][1])
    return True, "every encode_unchecked impl returns its required_size"
