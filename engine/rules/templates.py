"""Rule templates (Engler-style, repository specific instances are bound in cNN.py).

Each template works on the resolved program in facts.Facts and reports
file:line, rule, instance.  See DESIGN.md section 4.
"""
import re
from collections import defaultdict

import facts as FX
from facts import tokens, fmt, walk, op_place, op_const, const_int, short

# ---------------------------------------------------------------------------
# shared small helpers


def pointer_capable(ty):
    return ("&" in ty) or ("*mut" in ty) or ("*const" in ty) or ("'" in ty) or ("Box<" in ty)


def mut_capable(ty):
    return ("&mut" in ty) or ("*mut" in ty) or ("Mut<" in ty) or ("IterMut" in ty) or ("'" in ty and "&" not in ty)


def is_test_support(path):
    """non-production code compiled into lib targets (proptest strategies, fuzz
    helpers, test builders).  Listed explicitly; everything else is production."""
    return ("::ptest::" in path or "::ptest>" in path or "proptest::arbitrary::Arbitrary" in path
            or path.startswith("sciparse::util::fuzz") or path.startswith("sciparse::util::test_builder")
            or "::test_builder::" in path or "::testing::" in path or "::test_util" in path
            or "::mock" in path.lower() or "::tests::" in path)


def result_variant_defs(body, local=0):
    """blocks/statement indices where `local` is assigned a Result/ControlFlow-like aggregate;
    returns list of (bb, idx, adt, variant)"""
    out = []
    for d in body.defs.get(local, ()):
        if d[0] == "assign" and not d[3]:
            rv = d[4]
            if rv[0] == "agg" and rv[1][0] == "adt":
                out.append((d[1], d[2], rv[1][1], rv[1][2]))
    return out


# ---------------------------------------------------------------------------
# FA — failure atomicity

PURE_EXTERNAL = [
    # plumbing that hands references on without writing through them (canonical core/alloc/std paths, suffix regexes)
    r"(^|::)option::Option::<T>::(expect|unwrap|ok_or|ok_or_else|as_mut|as_deref_mut|as_deref|unwrap_unchecked|is_some|is_none)$",
    r"(^|::)result::Result::<T, E>::(expect|unwrap|ok|as_mut|is_ok|is_err|unwrap_unchecked)$",
    r"ops::try_trait::Try(>)?::branch$",
    r"ops::try_trait::FromResidual(<.*>)?(>)?::from_residual$",
    r"^core::slice::<impl \[T\]>::(iter_mut|get_mut|get_unchecked_mut|split_at_mut|split_at_mut_unchecked|split_at_mut_checked|first_mut|last_mut|as_mut_ptr|len|is_empty|iter|get|chunks_exact_mut|split_first_mut|split_last_mut|get_disjoint_unchecked_mut)$",
    r"iter::traits::collect::IntoIterator(>)?::into_iter$",
    r"iter::traits::iterator::Iterator(>)?::(next|enumerate|zip|rev|skip|take|by_ref)$",
    r"ops::deref::DerefMut(>)?::deref_mut$",
    r"ops::deref::Deref(>)?::deref$",
    r"convert::AsMut(<.*>)?(>)?::as_mut$",
    r"ops::index::IndexMut(<.*>)?(>)?::index_mut$",
    r"ops::index::Index(<.*>)?(>)?::index$",
    r"<impl core::ops::index::IndexMut<I> for \[T(; N)?\]>::index_mut$",
    r"<impl core::ops::index::Index<I> for \[T(; N)?\]>::index$",
    r"^alloc::vec::Vec::<T, A>::(as_mut_slice|iter_mut|as_mut_ptr|len|get_mut|first_mut|last_mut)$",
    r"^tinyvec::.*::(iter_mut|as_mut_slice|len|deref_mut|get_mut)$",
    r"^core::ptr::mut_ptr::<impl \*mut T>::(add|cast|offset|sub)$",
    r"^core::slice::raw::from_raw_parts_mut$",
    r"^alloc::boxed::Box::<.*>::(as_mut|as_mut_ptr)$",
    r"^core::mem::size_of(_val)?$",
    r"borrow::BorrowMut(<.*>)?(>)?::borrow_mut$",
    r"^core::pin::Pin::<.*>::(as_mut|get_mut|new_unchecked)$",
]
_PURE_RE = [re.compile(p) for p in PURE_EXTERNAL]


def external_pure(name):
    return any(r.search(name) for r in _PURE_RE)


class FA:
    """failure atomicity of `fn(&mut operand, ..) -> Result`: no Err exit is
    reachable after the operand may have been written."""

    def __init__(self, F):
        self.F = F
        self._writes = {}      # (fn, param) -> bool | None(in progress)
        self._atomic = {}      # (fn, param) -> (ok, findings)
        self.unknown_externals = set()

    # ---- pointer-into-operand sets
    def points_into(self, body, root, by_value=False):
        P = set()
        if not by_value:
            P.add(root)
        changed = True
        it = 0
        while changed and it < 50:
            changed = False
            it += 1
            for l, ds in body.defs.items():
                if l in P:
                    continue
                if not pointer_capable(body.local_ty(l)):
                    continue
                for d in ds:
                    hit = False
                    if d[0] == "assign":
                        rv = d[4]
                        k = rv[0]
                        if k in ("use", "cast"):
                            op = rv[1] if k == "use" else rv[2]
                            pl = op_place(op)
                            if pl is not None and pl[0] in P:
                                hit = True
                            if pl is not None and by_value and pl[0] == root and pointer_capable(body.local_ty(l)) and False:
                                hit = True
                        elif k in ("ref", "raw"):
                            pl = rv[2]
                            if pl[0] in P:
                                hit = True
                            elif by_value and pl[0] == root:
                                hit = True
                        elif k == "agg":
                            for op in rv[2]:
                                pl = op_place(op)
                                if pl is not None and pl[0] in P:
                                    hit = True
                    elif d[0] == "call":
                        c = d[4]
                        for a in c.args:
                            pl = op_place(a)
                            if pl is not None and pl[0] in P:
                                hit = True
                    if hit:
                        P.add(l)
                        changed = True
                        break
        return P

    # ---- does callee write through its parameter k (1-based local index)?
    def writes_through(self, fn, k):
        key = (fn, k)
        if key in self._writes:
            v = self._writes[key]
            return True if v is None else v     # recursion: assume writes
        self._writes[key] = None
        body = self.F.body(fn)
        if body is None:
            res = True
        else:
            res = bool(self.mutation_points(body, k, by_value=False, for_summary=True))
        self._writes[key] = res
        return res

    def call_may_write(self, body, c, P):
        """(may_write, why, arg_positions) for a call with args possibly pointing into the operand"""
        hits = []
        for i, a in enumerate(c.args):
            pl = op_place(a)
            if pl is None or pl[0] not in P:
                continue
            ty = body.local_ty(pl[0])
            if not mut_capable(ty):
                continue
            hits.append(i)
        if not hits:
            return False, None, []
        if c.indirect:
            return True, "indirect call with &mut into operand", hits
        targets = self.F.callees_of_call(c)
        ws = [t for t in targets if self.F.has_body(t)]
        if ws:
            for t in ws:
                for i in hits:
                    tb = self.F.body(t)
                    # closures: arg 0 is the env
                    if i + 1 <= tb.argc and self.writes_through(t, i + 1):
                        return True, "callee %s writes through argument %d" % (short(t), i), hits
            # all workspace targets are non-writing; an unresolved trait call may still have
            # external impls — only trust when resolved or when impls exist
            if c.res or len(ws) == len([t for t in targets if t != c.decl or self.F.has_body(t)]):
                return False, None, hits
        name = c.callee
        if external_pure(name) or external_pure(c.decl):
            return False, None, hits
        if not ws:
            self.unknown_externals.add(name)
            return True, "external callee %s may write through &mut" % name, hits
        return False, None, hits

    def mutation_points(self, body, root, by_value=False, for_summary=False):
        """list of (bb, stmt_idx or None, description, Call|None)"""
        P = self.points_into(body, root, by_value)
        out = []
        live = body.live_blocks()
        for b in sorted(live):
            for i, s in enumerate(body.stmts(b)):
                if s[0] in ("=", "sd"):
                    pl = s[1]
                    if pl[0] in P and "*" in pl[1]:
                        out.append((b, i, "store through %s" % self._pname(body, pl), None))
                    elif by_value and pl[0] == root and pl[1]:
                        out.append((b, i, "store to operand field %s" % self._pname(body, pl), None))
                elif s[0] == "copy_nonoverlapping":
                    pl = op_place(s[2])
                    if pl is not None and pl[0] in P:
                        out.append((b, i, "copy_nonoverlapping into operand", None))
            t = body.term(b)
            if t[0] == "call":
                c = [c for c in body.calls if c.bb == b][0]
                w, why, hits = self.call_may_write(body, c, P)
                if w:
                    out.append((b, None, why, c))
        return out

    def _pname(self, body, pl):
        n = body.local_name(pl[0]) or ("_%d" % pl[0])
        return n + body._projkey(pl[1])

    # ---- Err exits
    def err_exits(self, body):
        """blocks in which the return place receives an error value:
        Result::Err aggregate, `?` residual, or a tuple-in-Err for by-value variants."""
        out = []
        for d in body.defs.get(0, ()):
            if d[0] == "assign" and not d[3]:
                rv = d[4]
                if rv[0] == "agg" and rv[1][0] == "adt" and rv[1][1] == "core::result::Result" and rv[1][2] == "Err":
                    out.append((d[1], d[2], "Err(..)"))
                elif rv[0] == "use":
                    o = body.origin(rv[1])
                    if "adt:core::result::Result::Err" in tokens(o):
                        out.append((d[1], d[2], "Err via move"))
            elif d[0] == "call":
                c = d[4]
                if c.decl and c.decl.endswith("::from_residual"):
                    out.append((d[1], None, "`?` residual"))
        return out

    def ok_edge_targets(self, body, c):
        """blocks entered only when the Result of call c is Ok/Continue; None if the
        result's discriminant is not switched on"""
        me = None
        for d in body.defs.get(c.dest[0], ()):
            if d[0] == "call" and d[4] is c:
                me = body.local_origin(c.dest[0])
        # search switches whose discriminant is disc(result) or disc(Try::branch(result))
        tgt = []
        dest_local = c.dest[0]
        if c.dest[1]:
            return None
        reach = body.reach([c.target]) if c.target is not None else set()
        for b in reach:
            t = body.term(b)
            if t[0] != "switch":
                continue
            o = body.origin(t[1])
            if o[0] != "disc":
                continue
            x = o[1]
            ok = False
            if self._is_result_of(body, x, c):
                ok = True
            elif x[0] == "call" and x[1].endswith("::branch") and len(x[2]) == 1 and self._is_result_of(body, x[2][0], c):
                ok = True
            if not ok:
                continue
            arms = {v: tg for v, tg in t[2]}
            tgt.append((b, arms.get(0, t[3])))
        return tgt or None

    def _is_result_of(self, body, tree, c):
        return tree[0] == "call" and len(tree) > 5 and tree[5] == c.bb

    def check(self, fn, root=1, by_value=False, _stack=()):
        """returns (ok, findings); finding = dict(err_loc, mut_loc, why)"""
        key = (fn, root, by_value)
        if key in self._atomic:
            return self._atomic[key]
        if key in _stack:
            return (False, [{"why": "recursive"}])
        body = self.F.body(fn)
        if body is None:
            return (False, [{"why": "no body"}])
        muts = self.mutation_points(body, root, by_value)
        errs = self.err_exits(body)
        tainted = set()
        taint_src = {}
        stmt_taint = []      # (bb, idx) taints rest of the block + successors
        for (b, i, why, c) in muts:
            starts = None
            if c is not None and c.dest is not None:
                # atomic callee: only its Ok edge is tainted
                sub = None
                targets = [t for t in self.F.callees_of_call(c) if self.F.has_body(t)]
                hit_args = [ix for ix, a in enumerate(c.args) if op_place(a) is not None]
                callee_atomic = False
                if targets and self._returns_result(c):
                    callee_atomic = True
                    for t in targets:
                        P = self.points_into(body, root, by_value)
                        ks = [ix + 1 for ix, a in enumerate(c.args)
                              if op_place(a) is not None and op_place(a)[0] in P and mut_capable(body.local_ty(op_place(a)[0]))]
                        for k in ks:
                            ok, _ = self.check(t, k, False, _stack + (key,))
                            if not ok:
                                callee_atomic = False
                if callee_atomic:
                    oks = self.ok_edge_targets(body, c)
                    if oks:
                        starts = [tg for (_, tg) in oks]
                    elif c.dest[0] == 0 and not c.dest[1]:
                        # returned directly
                        later_defs = [d for d in body.defs.get(0, ()) if d[1] in body.reach([c.target] if c.target is not None else []) and not (d[0] == "call" and d[4] is c)]
                        if not later_defs:
                            starts = []
            if starts is None:
                if i is None:
                    starts = body.succ[b]
                    region = body.reach(starts)
                else:
                    region = body.reach(body.succ[b])
                    stmt_taint.append((b, i, why))
            else:
                region = body.reach(starts)
            for x in region:
                if x not in tainted:
                    tainted.add(x)
                    taint_src[x] = (b, i, why)
        findings = []
        for (eb, ei, what) in errs:
            src = None
            if eb in tainted:
                src = taint_src[eb]
            else:
                for (b, i, why) in stmt_taint:
                    if b == eb and (ei is None or ei > i):
                        src = (b, i, why)
            if src is not None:
                mspan = body.span_of(body.stmts(src[0])[src[1]][-1]) if src[1] is not None else body.term_span(src[0])
                espan = body.span_of(body.stmts(eb)[ei][-1]) if ei is not None else body.term_span(eb)
                findings.append({"err": what, "err_loc": espan.loc, "mut_loc": mspan.loc, "why": src[2]})
        res = (not findings, findings)
        self._atomic[key] = res
        self._last = {"mutation_points": len(muts), "err_exits": len(errs)}
        return res

    def _returns_result(self, c):
        for t in self.F.callees_of_call(c):
            e = self.F.fns.get(t)
            if e and "Result<" in e.get("output", ""):
                return True
        return False


# ---------------------------------------------------------------------------
# GS — guarded success


def guard_blocks(body, pred):
    """switch/assert blocks whose condition origin satisfies pred(tokens, origin, block)"""
    out = []
    for b in sorted(body.live_blocks()):
        t = body.term(b)
        if t[0] != "switch":
            continue
        if const_int(t[1]) is not None:
            continue
        o = body.origin(t[1])
        if pred(tokens(o), o, b):
            out.append(b)
    return out


def must_pass(body, targets, guards, entry=0):
    """True iff every path entry→t (t in targets) passes through a guard block.
    Returns (ok, offending target or None)."""
    reach = body.reach([entry], avoid=guards)
    for t in targets:
        if t in reach:
            return False, t
    return True, None


def controlling_edges(body, g, targets, guards):
    """successor blocks of guard g from which targets are reachable without passing another guard
    (guard g itself included in `guards`)."""
    passing = []
    failing = []
    others = set(guards)
    for s in body.succ[g]:
        r = body.reach([s], avoid=others)
        if any(t in r for t in targets):
            passing.append(s)
        else:
            failing.append(s)
    return passing, failing


def gs_check(body, targets, pred, need_control=True):
    """guarded-success verdict: (ok, info).  ok iff targets non-empty, at least one
    guard matches, every path to a target passes a guard, and each guard that can reach
    a target has an edge that cannot (the branch controls the exit)."""
    G = guard_blocks(body, pred)
    info = {"guards": G, "targets": sorted(targets)}
    if not targets:
        info["why"] = "no success exits found"
        return False, info
    if not G:
        info["why"] = "no branch on the required condition exists"
        return False, info
    ok, bad = must_pass(body, targets, G)
    if not ok:
        info["why"] = "success exit bb%d reachable without passing the check" % bad
        info["bad"] = bad
        return False, info
    if need_control:
        controls = False
        for g in G:
            p, f = controlling_edges(body, g, targets, G)
            if p and f:
                controls = True
        if not controls:
            info["why"] = "no edge of the check avoids the success exit (the branch does not control it)"
            return False, info
    return True, info


def value_edge_targets(body, b, values):
    """targets taken by switch block b for the given discriminant values"""
    t = body.term(b)
    arms = {v: tg for v, tg in t[2]}
    return [arms.get(v, t[3]) for v in values]


# ---------------------------------------------------------------------------
# WMC — who may call


def call_sites(F, name_pred, crates=None, include_test_support=False):
    out = []
    for p in F.all_body_paths():
        if crates is not None and F.fns[p]["_crate"] not in crates:
            continue
        if not include_test_support and is_test_support(p):
            continue
        b = F.body(p)
        for c in b.calls_to(name_pred):
            out.append((p, c))
    return out


def adt_constructions(F, adt, variant=None, crates=None):
    """[(fn, bb, idx, span)] of aggregate constructions of adt(::variant)"""
    out = []
    for p in F.all_body_paths():
        if crates is not None and F.fns[p]["_crate"] not in crates:
            continue
        if is_test_support(p):
            continue
        b = F.body(p)
        for bi, blk in enumerate(b.blocks):
            for si, s in enumerate(blk["s"]):
                if s[0] == "=" and s[2][0] == "agg" and s[2][1][0] == "adt" and s[2][1][1] == adt:
                    if variant is None or s[2][1][2] == variant:
                        out.append((p, bi, si, b.span_of(s[3])))
    return out


def dominated_by_edge(body, site_bb, guard_bb, edge_target):
    """True iff every path entry→site passes through guard_bb and leaves it via edge_target
    (approximated: site unreachable when that edge is cut and guard's other edges are kept
    cannot reach site without the edge)."""
    # cut the edge guard_bb -> edge_target
    succ = [list(s) for s in body.succ]
    succ[guard_bb] = [s for s in succ[guard_bb] if s != edge_target]
    r = body.reach([0], succ=succ)
    return site_bb not in r


# ---------------------------------------------------------------------------
# dominating guard with edge polarity


def pass_targets(body, g, pass_values):
    """targets of switch block g taken for discriminant values in pass_values
    (the `otherwise` target counts as passing only when no listed arm covers a pass value
    and `otherwise_passes` semantics are requested via value None)."""
    t = body.term(g)
    arms = {v: tg for v, tg in t[2]}
    out = set()
    for v in pass_values:
        if v is None:
            out.add(t[3])
        elif v in arms:
            out.add(arms[v])
        else:
            out.add(t[3])
    return out


def guarded_by(body, site_bb, pred, pass_values):
    """True iff some switch block g with pred(tokens, origin, g) dominates site_bb and the site is
    not reachable from any successor of g other than the pass targets (without re-entering g).
    Returns (ok, g)."""
    doms = body.dom.get(site_bb)
    if doms is None:
        return False, None
    for g in sorted(doms):
        if g == site_bb and body.term(g)[0] != "switch":
            continue
        t = body.term(g)
        if t[0] != "switch" or const_int(t[1]) is not None:
            continue
        o = body.origin(t[1])
        if not pred(tokens(o), o, g):
            continue
        pt = pass_targets(body, g, pass_values)
        bad = False
        for s in body.succ[g]:
            if s in pt:
                continue
            if site_bb in body.reach([s], avoid=[g]):
                bad = True
        # the pass target itself must not also be a fail target
        fails = [s for s in body.succ[g] if s not in pt]
        if not fails:
            bad = True
        if not bad:
            return True, g
    return False, None


def interproc_guarded(F, fn, site_bb, pred, pass_values, depth=3, _seen=None):
    """site guarded locally, or the enclosing function is only called from guarded sites
    (private helper pattern).  Returns (ok, explanation)."""
    body = F.body(fn)
    ok, g = guarded_by(body, site_bb, pred, pass_values)
    if ok:
        return True, "guard bb%d in %s" % (g, short(fn))
    if depth <= 0:
        return False, "not guarded in %s" % short(fn)
    _seen = _seen or set()
    if fn in _seen:
        return False, "recursive"
    e = F.fns.get(fn, {})
    if e.get("reach") and e.get("vis") == "pub":
        return False, "not guarded in %s and the function is public API" % short(fn)
    callers = call_sites(F, fn)
    # closures: the creating function is the caller context
    if not callers:
        if e.get("kind") == "Closure":
            # find the block creating the closure in its parent
            root = e.get("root")
            for p in F.all_body_paths():
                if not (p == root or p.startswith(root + "::")):
                    continue
                pb = F.body(p)
                for bi, blk in enumerate(pb.blocks):
                    for s in blk["s"]:
                        if s[0] == "=" and s[2][0] == "agg" and s[2][1][0] in ("closure", "coroutine") and s[2][1][1] == fn:
                            return interproc_guarded(F, p, bi, pred, pass_values, depth - 1, _seen | {fn})
        return False, "not guarded in %s and no callers found" % short(fn)
    for (cfn, c) in callers:
        ok, why = interproc_guarded(F, cfn, c.bb, pred, pass_values, depth - 1, _seen | {fn})
        if not ok:
            return False, "caller %s of %s: %s" % (short(cfn), short(fn), why)
    return True, "all %d callers of %s guarded" % (len(callers), short(fn))


# ---------------------------------------------------------------------------
# LOCK — critical sections of std::sync::Mutex guards


class Section:
    """critical section of one MutexGuard local"""
    def __init__(self, body, guard_local, acquire_bb, start_bb, mutex_tokens):
        self.body = body
        self.guard = guard_local
        self.acquire = acquire_bb
        self.start = start_bb
        self.mutex_tokens = mutex_tokens
        # blocks whose terminator drops the guard (normal or moved-out)
        self.drops = [b for b in range(body.n) if body.term(b)[0] == "drop" and body.term(b)[1][0] == guard_local and not body.term(b)[1][1]]
        inside = body.reach([start_bb], avoid=[])
        # blocks reachable from the start without passing a drop of the guard; drop blocks themselves are inside
        seen = set()
        st = [start_bb]
        seen.add(start_bb)
        while st:
            b = st.pop()
            if b in self.drops:
                continue
            for s in body.succ[b]:
                if s not in seen:
                    seen.add(s)
                    st.append(s)
        self.blocks = seen


def mutex_sections(body, field_pred=None):
    """all critical sections opened by Mutex::lock (+unwrap/expect) in a body"""
    out = []
    for c in body.calls:
        if c.indirect or not (c.decl.endswith("sync::Mutex::<T>::lock") or c.decl.endswith("sync::poison::Mutex::<T>::lock")
                              or c.decl.endswith("Mutex::<T>::lock")):
            continue
        mtk = tokens(body.origin(c.args[0]))
        if field_pred and not field_pred(mtk):
            continue
        # the guard local: dest of unwrap/expect applied to the lock result (or the result itself)
        res_local = c.dest[0]
        guard = None
        start = None
        for c2 in body.calls:
            if c2.indirect or not c2.args:
                continue
            if c2.decl.endswith("::unwrap") or c2.decl.endswith("::expect"):
                pl = op_place(c2.args[0])
                if pl is not None and pl[0] == res_local:
                    guard = c2.dest[0]
                    start = c2.target
        if guard is None:
            continue
        out.append(Section(body, guard, c.bb, start, mtk))
    return out


def guard_field_stores(body, sec):
    """stores through the guard:  (bb, idx, field name, value origin)"""
    out = []
    # locals holding &mut *guard
    derefs = set()
    for c in body.calls:
        if not c.indirect and (c.decl.endswith("DerefMut::deref_mut") or c.decl.endswith("Deref::deref")) and c.args:
            o = body.origin(c.args[0])
            pl = op_place(c.args[0])
            base = None
            if pl is not None:
                # &mut guard is usually a temp: follow one ref
                for d in body.defs.get(pl[0], ()):
                    if d[0] == "assign" and d[4][0] == "ref" and d[4][2][0] == sec.guard:
                        base = sec.guard
                if pl[0] == sec.guard:
                    base = sec.guard
            if base is not None:
                derefs.add(c.dest[0])
    for b in sorted(sec.blocks):
        for i, s in enumerate(body.stmts(b)):
            if s[0] != "=":
                continue
            pl = s[1]
            if pl[0] in derefs and pl[1] and pl[1][0] == "*":
                flds = [p[2] for p in pl[1] if isinstance(p, list) and p[0] == "f"]
                if flds:
                    out.append((b, i, flds[0], body._rvalue_origin(s[2], 10, frozenset()), body.span_of(s[3])))
    return out
