"""Compile-fail witnesses (C02, thorough tier): the type checker as decision procedure.

The harness crate under engine/witness is instantiated against the repository under analysis (path dependency on its
sciparse), and `cargo +nightly test --doc --offline` compiles every doctest: a witness `Wn` must FAIL to compile with the
stated error code, its twin `Wn-twin` (same program with the offending construct wrapped in `unsafe` / replaced by the
validating constructor) must compile.  Nothing is executed: twins are `no_run`."""
import os
import re
import shutil
import subprocess

import extract

HERE = os.path.dirname(os.path.abspath(__file__))
SRC = os.path.join(HERE, "witness")


def run(repo=None, timeout=3600):
    """returns (results, log_tail): results = {Wn: {"compile_fail": bool|None, "twin_compiles": bool|None}}"""
    repo = repo or extract.REPO
    base = os.path.join(extract.CACHE, "witness")
    crate = os.path.join(base, "crate")
    shutil.rmtree(crate, ignore_errors=True)
    os.makedirs(os.path.join(crate, "src"))
    shutil.copy(os.path.join(SRC, "src", "lib.rs"), os.path.join(crate, "src", "lib.rs"))
    with open(os.path.join(SRC, "Cargo.toml.in")) as f:
        toml = f.read().replace("@REPO@", repo)
    with open(os.path.join(crate, "Cargo.toml"), "w") as f:
        f.write(toml)
    shutil.copy(os.path.join(repo, "Cargo.lock"), os.path.join(crate, "Cargo.lock"))
    env = dict(os.environ)
    env["CARGO_NET_OFFLINE"] = "true"
    env["CARGO_TARGET_DIR"] = os.path.join(base, "target")
    env["CARGO_PROFILE_DEV_DEBUG"] = "0"
    env["CARGO_PROFILE_TEST_DEBUG"] = "0"
    env["CARGO_INCREMENTAL"] = "0"
    p = subprocess.run(["cargo", "+nightly", "test", "--doc", "--offline", "-j", "12"], cwd=crate, env=env,
                       stdout=subprocess.PIPE, stderr=subprocess.STDOUT, text=True, timeout=timeout)
    out = p.stdout
    names = sorted(set(re.findall(r"^/// (W\d+) —", open(os.path.join(SRC, "src", "lib.rs")).read(), re.M)))
    res = {n: {"compile_fail": None, "twin_compiles": None} for n in names}
    for m in re.finditer(r"^test src/lib\.rs - (W\d+) \(line \d+\) - (compile fail|compile) \.\.\. (ok|FAILED)", out, re.M):
        w, kind, verdict = m.group(1), m.group(2), m.group(3) == "ok"
        if w in res:
            res[w]["compile_fail" if kind == "compile fail" else "twin_compiles"] = verdict
    return res, out[-3000:]
