#!/usr/bin/env python3
import json, sys, glob, os
import jsonschema
V=os.path.dirname(os.path.dirname(os.path.abspath(__file__)))
jsonschema.validate(json.load(open(V+'/MANIFEST.json')), json.load(open('/root/.vp/MANIFEST.schema.json')))
n=0
for f in sorted(glob.glob(V+'/evidence/C*.json')):
    jsonschema.validate(json.load(open(f)), json.load(open('/root/.vp/EVIDENCE.schema.json'))); n+=1
print('manifest + %d evidence files valid'%n)
